"""C19 — SDP answers and AVDTP/AVCTP messages are reassembled exactly across PDUs."""
from __future__ import annotations

import ast
import struct

from .. import bits, fields, paths
from ..core import FUNC, call_attr, calls_in, const, dotted, is_const, kwarg, norm, slice_parts, text, walk_local

EXPLANATION = [
    'C19.in-use-complement: LocalStreamEndPoint.in_use is the complement of State.IDLE (one equality test), not a range of states.',
    'C19.pump-cancellation: the task function of MediaPacketPump.start has a handler for CancelledError (or BaseException): stop() cancels and awaits that task.',
    'C19.state-after-success: no change_state() of avdtp.Stream sits in a finally or except block: the local state moves only after the peer accepted the procedure.',
    'C19.enum-field-defaults: every avdtp message field annotated with an enum type and given a default has an enum member as default (messages are formatted through `.name` before they are sent).',
    "C19.stream-table: Protocol.create_stream constructs a Stream only under the test that the source's seid is not in self.streams (never as an eagerly evaluated default).",
    'C19.free-label: Protocol.start_transaction stores a new future into transaction_results[label] only under the test that this slot is None.',
    'C19.shift-amount: no shift in the profile protocol modules has an amount that contains a data element (`hi << 16 + lo` for `hi << 16 | lo`).',
    'C19.transaction-permits: every statement of avdtp.Protocol that clears a transaction slot releases the transaction semaphore in the same block: a refused command returns its permit like an accepted one.',
    'C19.avctp-restart: in the AVCTP assembler no path stores the packet count of a START packet and then runs the reset that abandons an earlier message while it goes on assembling: a broken sequence costs only the old message.',
    'C19.sdp-containment: (shared with C17) DataElementParser records the end of the sequence being parsed, refuses an element that ends past it, and puts the outer bound back on every exit of the nested parse (path rule): an empty nested sequence does not leave a stale, too small bound for the siblings that follow.',
    'C19.records-not-aliased: (shared with C17) every local container that a method of sdp.Server modifies in place is one the method created: answering a request never edits a registered record, so later transactions still return exactly the registered attributes.',
    'C19.missing-await: inside async functions no call that resolves (through the declared type of self.<attr>, or self) to a coroutine method is returned or dropped without await.',
    "C19.identity: no `is` / `is not` comparison in the anchored modules has an operand declared as a number, byte string or string (identity of equal integers holds only inside CPython's small-integer cache, so such a test is right for values up to 256 and wrong afterwards).",
    'C19.sdp-codecs: every _parse_X / _serialize_X helper pair of bumble.sdp uses the same set of struct item types (byte order, width and signedness of each item) on both sides.',
    'C19.sdp-all: match_services admits a record only under a universal test over the UUIDs of the pattern (all(... any(...)) or an equivalent for/else), never inside the per-UUID loop on the first hit.',
    'C19.sdp-client-state: the channel a reply is written to and the partial response used for continuation are selected by the channel the request arrived on.',
    'C19.sdp-budget: per-response capacities (peer_mtu - 11)//4 and peer_mtu - 9 equal header + fixed fields + continuation overhead computed from the PDU codec; the final chunk is the one that fits (len <= max) and leaves no partial response; a continuation is valid only if a partial response exists.',
    'C19.sdp-watchdog: every continuation loop of the client is bounded by a strictly decreasing watchdog.',
    'C19.avdtp-single: the single-packet guard and the amount written agree (a single packet carries the whole payload); fragments are peer_mtu - 3 bytes with headers of at most 3 bytes; the last fragment is labelled END (CONTINUE only while more than one fragment remains); the packet count is ceil(len/fragment).',
    'C19.headers: per packet type the AVCTP/AVDTP assembler skips exactly the header the sender (and the specification) writes.',
    'C19.neutral: the AVDTP assembler leaves its state untouched or reset on every rejecting return; a packet is counted only once it has been accepted.',
    'C19.stream-fsm: each AVDTP stream operation checks the state it requires on the acceptor side before changing it, and refusal paths do not change state.',
    'Not decided: equality of reassembled data for all sizes (runtime).',
]
ASSUMPTIONS = ['AVCTP 1.4 section 6.1: the profile identifier is present in single and start packets only (embedded as oracle)']

SRV = 'bumble.sdp.Server'


def _anc(n):
    q = getattr(n, '_parent', None)
    while q is not None:
        yield q
        q = getattr(q, '_parent', None)


def sdp_all(ctx):
    R, p = ctx.r, ctx.p
    rule = 'C19.sdp-all'
    fn = p.find(f'{SRV}.match_services')
    if fn is None:
        R.bad(rule, f'{SRV}.match_services', 'anchor missing')
        return
    param = fn.args.args[1].arg
    ins = [n for n in ast.walk(fn) if isinstance(n, ast.Assign) and isinstance(n.targets[0], ast.Subscript) and norm(n.targets[0].value) == 'matching_services']
    if not ins:
        R.bad(rule, f'{SRV}.match_services | insertion', 'no insertion into the result found', p.loc(fn))
        return
    for i in ins:
        # loops over the pattern that enclose the insertion
        inside = [a for a in _anc(i) if isinstance(a, ast.For) and f'{param}.value' in norm(a.iter)]
        ok = False
        why = ''
        if inside:
            lp = inside[0]
            in_else = any(i is x for s in lp.orelse for x in ast.walk(s))
            ok = in_else
            why = 'the record is admitted inside the loop over the pattern\'s UUIDs (on the first UUID found)'
        else:
            g = [t for t, pol in paths.flat_guards(i) if pol]
            for t in g:
                if isinstance(t, ast.Call) and call_attr(t) == 'all' and t.args and isinstance(t.args[0], ast.GeneratorExp) and f'{param}.value' in norm(t.args[0].generators[0].iter):
                    ok = True
            why = 'the insertion is not guarded by a universal test over the pattern\'s UUIDs'
        R.check(ok, rule, f'{SRV}.match_services | quantifier', 'a record is admitted only when every UUID of the pattern was found in it', f'{why}: a record matching any one UUID is returned', p.loc(i))
    iu = p.find('bumble.sdp.ServiceAttribute.is_uuid_in_value')
    if iu is not None:
        s = norm(iu)
        R.check('DataElement.UUID' in s and 'DataElement.SEQUENCE' in s and 'is_uuid_in_value(uuid, element)' in s.replace('ServiceAttribute.', ''), rule, 'bumble.sdp.ServiceAttribute.is_uuid_in_value', 'compares UUID elements and recurses into sequences', 'UUID containment test changed', p.loc(iu))
        # the leaf comparison is UUID equality (by 128-bit value, whatever width each side was written in), not a comparison of raw forms
        leaf = [n for n in ast.walk(iu) if isinstance(n, ast.Compare) and len(n.ops) == 1 and isinstance(n.ops[0], (ast.Eq, ast.NotEq)) and not any('.type' in norm(x) for x in [n.left, n.comparators[0]])]
        sides = [sorted([norm(n.left), norm(n.comparators[0])]) for n in leaf]
        R.check(sides == [['uuid', 'value.value']], rule, 'bumble.sdp.ServiceAttribute.is_uuid_in_value | leaf comparison', 'UUID element compared with the pattern UUID by UUID equality (width-independent)',
                f'the UUID leaf comparison is {sides}: a record holding a UUID in 16-bit form no longer matches the same UUID given in 32- or 128-bit form (and vice versa)', p.loc(iu))
    raw = []
    for mod in ('bumble.sdp', 'bumble.gatt', 'bumble.gatt_client', 'bumble.gatt_server', 'bumble.avdtp', 'bumble.rfcomm'):
        m = p.modules.get(mod)
        for n in (ast.walk(m.tree) if m else []):
            if isinstance(n, ast.Compare) and any(isinstance(x, ast.Attribute) and x.attr in ('uuid_bytes', 'uuid_128_bytes') for side in [n.left] + n.comparators for x in [side]):
                raw.append((mod, n))
    ctl = ast.parse('a.value.uuid_bytes == b.uuid_bytes', mode='eval').body
    R.check(not raw and isinstance(ctl.left, ast.Attribute) and ctl.left.attr == 'uuid_bytes', rule, 'protocol modules | no raw UUID comparison', 'no protocol module compares the raw byte form of UUIDs (positive control matched)',
            f'raw UUID byte forms are compared in {sorted({m for m, _ in raw})}: UUIDs of different widths that denote the same value do not match', f'{raw[0][0]}:{raw[0][1].lineno}' if raw else '')
    if iu is not None:
        pass


def sdp_client_state(ctx):
    R, p = ctx.r, ctx.p
    rule = 'C19.sdp-client-state'
    srv = p.cls(SRV)
    oc = srv.methods.get('on_connection') if srv else None
    if oc is None:
        R.bad(rule, f'{SRV}.on_connection', 'anchor missing')
        return
    cparam = oc.args.args[1].arg
    sinks = [n for n in walk_local(oc) if isinstance(n, ast.Assign) and (dotted(n.targets[0]) or '').endswith('.sink')]
    ok = False
    target = None
    for sk in sinks:
        v = sk.value
        names = {x.id for x in ast.walk(v) if isinstance(x, ast.Name)}
        if isinstance(v, (ast.Lambda, ast.Call)) and cparam in names:
            ok = True
            for c in ast.walk(v):
                if isinstance(c, ast.Call) and (dotted(c.func) or '').startswith('self.'):
                    target = dotted(c.func)[5:]
    R.check(ok, rule, f'{SRV}.on_connection | sink carries its channel', 'each client\'s sink hands the server the channel the PDU arrived on', 'all clients share one sink that does not say which channel a request came from: replies go to whichever client connected last', p.loc(oc))
    if not ok or target not in srv.methods:
        return
    h = srv.methods[target]
    hp = [a.arg for a in h.args.args]
    chp = hp[1] if len(hp) > 1 else None
    body = [norm(s) for s in h.body]
    sets_channel = any(b == f'self.channel = {chp}' for b in body)
    loads = any(f'self.current_response = self.current_responses.get({chp})' in b for b in body)
    tr = [s for s in h.body if isinstance(s, ast.Try)]
    stores = bool(tr) and any(norm(x) == f'self.current_responses[{chp}] = self.current_response' for x in tr[0].finalbody) and any(dotted(c.func) == 'self.on_pdu' for c in calls_in(tr[0]))
    R.check(sets_channel and loads and stores, rule, f'{SRV}.{target} | per-client routing', 'reply channel and continuation state are switched to the requesting client around the handling of each PDU', 'the reply channel / partial response is not selected by the requesting client (responses or continuations of different clients get mixed)', p.loc(h))
    sr = srv.methods.get('send_response')
    R.check(sr is not None and 'self.channel.write(response)' in norm(sr), rule, f'{SRV}.send_response', 'writes to the current request\'s channel', 'send_response changed', p.loc(sr) if sr else '')


def sdp_budget(ctx):
    R, p = ctx.r, ctx.p
    rule = 'C19.sdp-budget'
    srv = p.cls(SRV)
    pdu = p.cls('bumble.sdp.SDP_PDU')
    if srv is None or pdu is None:
        R.bad(rule, SRV, 'anchor missing')
        return
    hb = pdu.methods.get('__bytes__')
    hdr = None
    for c in calls_in(hb) if hb else []:
        if dotted(c.func) == 'struct.pack' and is_const(c.args[0]):
            hdr = struct.calcsize(const(c.args[0]))
    fb = pdu.methods.get('from_bytes')
    hdr_p = None
    for c in calls_in(fb) if fb else []:
        if dotted(c.func) == 'struct.unpack_from' and is_const(c.args[0]):
            hdr_p = struct.calcsize(const(c.args[0]))
    R.check(hdr == 5 and hdr_p == 5, rule, 'bumble.sdp.SDP_PDU | header', '5-byte header (>BHH) on both sides', f'SDP header sizes: write {hdr}, read {hdr_p}', p.loc(pdu.node))
    cs = srv.assigns.get('CONTINUATION_STATE')
    cont = len(const(cs.args[0])) if isinstance(cs, ast.Call) and cs.args and is_const(cs.args[0]) else None
    R.check(cont == 2, rule, f'{SRV}.CONTINUATION_STATE', 'continuation state is 2 bytes (length byte + 1 byte)', f'continuation state literal has {cont} bytes', '')
    # search response: header + total count (2) + current count (2) + handles (4 each) + continuation
    from .. import sym

    def mtu_minus(e):
        """e == <something>.peer_mtu - k  -> k"""
        lf = sym.lin(e)
        if lf is None:
            return None
        atoms = {a: v for a, v in lf.items() if a and v}
        if len(atoms) == 1 and next(iter(atoms)).endswith('.peer_mtu') and next(iter(atoms.values())) == 1:
            return -lf.get('', 0)
        return None
    ss = srv.methods.get('on_sdp_service_search_request')
    if ss is not None and hdr and cont:
        need = hdr + 2 + 2 + cont
        v = [n.value for n in walk_local(ss) if isinstance(n, ast.Assign) and dotted(n.targets[0]) == 'maximum_service_record_count']
        ok = len(v) == 1 and isinstance(v[0], ast.BinOp) and isinstance(v[0].op, ast.FloorDiv) and is_const(v[0].right) and const(v[0].right) == 4 and mtu_minus(v[0].left) == need
        R.check(ok, rule, f'{SRV}.on_sdp_service_search_request | capacity', f'(peer_mtu - {need}) // 4 handles: {hdr} header + 2 + 2 counts + {cont} continuation', f'capacity `{norm(v[0]) if v else None}` does not equal (peer_mtu - {need}) // 4', p.loc(ss))
        cuts = [slice_parts(n.value) for n in walk_local(ss) if isinstance(n, ast.Assign) and slice_parts(n.value) and slice_parts(n.value)[0] == 'service_record_handles']
        R.check(('service_record_handles', '0', 'maximum_service_record_count') in cuts and ('service_record_handles', 'maximum_service_record_count', None) in cuts, rule, f'{SRV}.on_sdp_service_search_request | split', 'sent prefix and kept remainder split at the same index', f'handle list split {cuts}', p.loc(ss))
    for hname in ('on_sdp_service_attribute_request', 'on_sdp_service_search_attribute_request'):
        h = srv.methods.get(hname)
        if h is None:
            R.bad(rule, f'{SRV}.{hname}', 'anchor missing')
            continue
        need = hdr + 2 + cont if hdr and cont else None
        v = [n.value for n in walk_local(h) if isinstance(n, ast.Assign) and dotted(n.targets[0]) == 'maximum_attribute_byte_count']
        ok = len(v) == 1 and isinstance(v[0], ast.Call) and dotted(v[0].func) == 'min' and len(v[0].args) == 2
        if ok:
            ks = [mtu_minus(a) for a in v[0].args]
            other = [norm(a) for a, k in zip(v[0].args, ks) if k is None]
            ok = need in ks and other == ['request.maximum_attribute_byte_count']
        R.check(ok, rule, f'{SRV}.{hname} | capacity', f'min(requested, peer_mtu - {need}): {hdr} header + 2 byte count + {cont} continuation', f'capacity `{norm(v[0]) if v else None}` is not min(requested, peer_mtu - {need})', p.loc(h))
    g = srv.methods.get('get_next_response_payload')
    if g is not None:
        res = paths.run(g, sym.Sym(no_subst=sym.object_locals(g)), sym.Sym.init())
        bad = []
        kinds = set()
        cur = 'at(self.current_response, 0)'
        size = g.args.args[1].arg
        for k, facts, store, extra, w in sym.exits(res):
            try:
                ret = ast.parse(store.get('<return>', ''), mode='eval').body
            except SyntaxError:
                ret = None
            if not (isinstance(ret, ast.Tuple) and len(ret.elts) == 2):
                bad.append(f'returns {store.get("<return>")}')
                continue
            payload, cstate = ret.elts
            more = norm(cstate) not in ('bytes([0])', "b'\\x00'")
            kinds.add(more)
            too_long = next((t for a, t in facts.items() if sym.same_ineq(a, f'len({cur}) > {size}') ), None)
            fits = next((True for a, t in facts.items() if sym.same_ineq(sym.ineq(a, t), sym.ineq(f'len({cur}) > {size}', False))), None)
            longer = next((True for a, t in facts.items() if sym.same_ineq(sym.ineq(a, t), sym.ineq(f'len({cur}) > {size}', True))), None)
            left = store.get('self.current_response')
            if more:
                if not longer:
                    bad.append(f'a continuation is announced although the rest may fit ({" ".join(w)})')
                if slice_parts(payload) != (cur, '0', size) or left != f'{cur}[{size}:]':
                    bad.append(f'chunk {norm(payload)} / remainder {left} do not split the response at {size}')
                if norm(cstate) not in ('Server.CONTINUATION_STATE', 'self.CONTINUATION_STATE'):
                    bad.append(f'continuation state {norm(cstate)}')
            else:
                if not fits:
                    bad.append(f'the response is declared complete although more than {size} bytes may remain ({" ".join(w)})')
                if norm(payload) != cur or left != 'None':
                    bad.append(f'final chunk {norm(payload)} / remainder {left}: the partial response is not sent whole and dropped')
        R.check(kinds == {True, False} and not bad, rule, f'{SRV}.get_next_response_payload', 'more chunks only while len > max; the chunk that fits is final (no continuation, partial response dropped); split at the same index',
                'chunking of a continued response is wrong (e.g. a response whose length is a multiple of the capacity is left with an empty partial response)', p.loc(g), bad[:3])
    cc = srv.methods.get('check_continuation')
    if cc is not None:
        res = paths.run(cc, sym.Sym(), sym.Sym.init())
        bad = []
        seen = set()
        cs = cc.args.args[1].arg
        for k, facts, store, extra, w in sym.exits(res):
            r = store.get('<return>')
            seen.add(r)
            is_cont = sym.holds(facts, f'len({cs}) > 1')
            if r == 'True':
                if not (is_cont and sym.holds(facts, 'self.current_response is None', False) and (sym.holds(facts, f'{cs} == self.CONTINUATION_STATE') or sym.holds(facts, f'{cs} == Server.CONTINUATION_STATE'))):
                    bad.append(f'a continuation is accepted without a partial response and a matching state ({" ".join(w)})')
            elif r == 'False':
                if sym.holds(facts, f'len({cs}) > 1') or store.get('self.current_response') != 'None':
                    bad.append(f'a fresh request does not discard the previous partial response ({" ".join(w)})')
            elif r == 'None':
                if not is_cont or (sym.holds(facts, 'self.current_response is None', False) and (sym.holds(facts, f'{cs} == self.CONTINUATION_STATE'))):
                    bad.append(f'a valid continuation is refused ({" ".join(w)})')
        R.check(seen == {'True', 'False', 'None'} and not bad, rule, f'{SRV}.check_continuation', 'a continuation is accepted iff a partial response exists and the state matches; a fresh request discards any leftover',
                'validity test of a continuation request changed', p.loc(cc), bad[:3])
        errs = [c for c in calls_in(cc) if call_attr(c) == 'SDP_ErrorResponse']
        R.check(len(errs) == 1 and 'INVALID_CONTINUATION_STATE' in norm(errs[0]), rule, f'{SRV}.check_continuation | refusal', 'refused with INVALID_CONTINUATION_STATE', 'invalid continuation is not answered with INVALID_CONTINUATION_STATE', p.loc(cc))


def sdp_watchdog(ctx, rule='C19.sdp-watchdog'):
    R, p = ctx.r, ctx.p
    cli = p.cls('bumble.sdp.Client')
    if cli is None:
        R.bad(rule, 'bumble.sdp.Client', 'anchor missing')
        return
    n = 0
    for name in ('search_services', 'search_attributes', 'get_attributes'):
        m = cli.methods.get(name)
        if m is None:
            R.bad(rule, f'bumble.sdp.Client.{name}', 'anchor missing')
            continue
        lp = [x for x in walk_local(m) if isinstance(x, ast.While)]
        ok = len(lp) == 1 and norm(lp[0].test) == 'watchdog > 0' and norm(lp[0].body[-1]) == 'watchdog -= 1' and not any(isinstance(x, ast.Continue) for x in walk_local(lp[0]))
        init = [norm(x.value) for x in walk_local(m) if isinstance(x, ast.Assign) and dotted(x.targets[0]) == 'watchdog']
        n += 1
        R.check(ok and init == ['SDP_CONTINUATION_WATCHDOG'], rule, f'bumble.sdp.Client.{name}', 'continuation loop bounded by a watchdog that decreases on every iteration', 'continuation loop is not bounded by a decreasing watchdog: a peer that always answers "more" keeps the client looping', p.loc(m))
        s = norm(m)
        R.check('continuation_state = response.continuation_state' in s and 'len(continuation_state) == 1' in s.replace('continuation_state[0] == 0', 'len(continuation_state) == 1') or 'response.continuation_state' in s, rule, f'bumble.sdp.Client.{name} | continuation echoed', 'the next request carries the state the server returned', 'continuation state handling changed', p.loc(m))
    try:
        wd = p.module_const('bumble.sdp', 'SDP_CONTINUATION_WATCHDOG')
        R.check(1 <= wd <= 1024, rule, 'bumble.sdp.SDP_CONTINUATION_WATCHDOG', f'{wd}', f'watchdog constant {wd} out of range', '')
    except Exception:
        R.bad(rule, 'bumble.sdp.SDP_CONTINUATION_WATCHDOG', 'anchor missing')


def avdtp_single(ctx, rule='C19.avdtp-single'):
    from .. import sym
    R, p = ctx.r, ctx.p
    fn = p.find('bumble.avdtp.Protocol.send_message')
    if fn is None:
        R.bad(rule, 'bumble.avdtp.Protocol.send_message', 'anchor missing')
        return
    key = 'bumble.avdtp.Protocol.send_message'
    loop = next((n for n in fn.body if isinstance(n, ast.While)), None)
    if loop is None:
        R.bad(rule, key + ' | fragment loop', 'loop not found', p.loc(fn))
        return
    pre = {dotted(n.targets[0]): n.value for n in fn.body if isinstance(n, ast.Assign) and len(n.targets) == 1 and isinstance(n.targets[0], ast.Name)}

    def mtu_minus(e):
        lf = sym.lin(e)
        atoms = {a: v for a, v in (lf or {}).items() if a and v}
        if lf is not None and len(atoms) == 1 and next(iter(atoms)).endswith('.peer_mtu') and next(iter(atoms.values())) == 1:
            return -lf.get('', 0), next(iter(atoms))
        return None, None
    k, mtu_atom = mtu_minus(pre.get('max_fragment_size')) if 'max_fragment_size' in pre else (None, None)
    R.check(k == 3, rule, key + ' | fragment size', 'fragments of peer_mtu - 3 bytes leave room for the 3-byte start header', f'max_fragment_size = {norm(pre["max_fragment_size"]) if "max_fragment_size" in pre else None}', p.loc(fn))
    # classification
    guard = next((n for n in fn.body if isinstance(n, ast.If) and any(isinstance(x, ast.Assign) and dotted(x.targets[0]) == 'packet_type' for x in n.body)), None)
    single_first = guard is not None and 'SINGLE_PACKET' in norm(guard.body[0])
    want = sym.ineq(f'len(payload) + 2 <= {mtu_atom}', single_first) if mtu_atom else None
    got = sym.ineq(guard.test) if guard is not None else None
    R.check(want is not None and got is not None and sym.same_ineq(got, want), rule, key + ' | single-packet guard', 'single packet iff payload + 2-byte header fits the peer MTU', f'single-packet guard is `{norm(guard.test) if guard else None}`', p.loc(fn))
    # one iteration per packet type
    types = ('SINGLE_PACKET', 'START_PACKET', 'CONTINUE_PACKET', 'END_PACKET')
    hdr = {}
    for T in types:
        facts = frozenset((sym.canon_text(f'packet_type == self.PacketType.{X}')[0], X == T) for X in types)
        writes = []
        nxt = set()

        class D(sym.Sym):
            def on_event(self, node, extra, facts_, store):
                if isinstance(node, ast.Call) and dotted(node.func) == 'self.l2cap_channel.write':
                    writes.append((self.expr(node.args[0], store, facts_), dict(store)))
                return extra
        res = paths.run_block(loop.body, D(no_subst=sym.object_locals(fn)), (facts, frozenset(), None))
        if len({w[0] for w in writes}) != 1:
            R.bad(rule, key + f' | {T} packet', f'{len(writes)} different writes in one iteration', p.loc(loop))
            continue
        wtext = writes[0][0]
        try:
            w = ast.parse(wtext, mode='eval').body
        except SyntaxError:
            w = None
        ok = isinstance(w, ast.BinOp) and isinstance(w.op, ast.Add) and isinstance(w.left, ast.Call) and dotted(w.left.func) == 'bytes' and isinstance(w.left.args[0], ast.List)
        if not ok:
            R.bad(rule, key + f' | {T} packet', f'written value `{wtext}` is not header + payload slice', p.loc(loop))
            continue
        hdr[T] = len(w.left.args[0].elts)
        sp = slice_parts(w.right)
        bound = sp[2] if sp and sp[0] == 'payload' and sp[1] == '0' else None
        want_bound = 'len(payload)' if T == 'SINGLE_PACKET' else norm(pre['max_fragment_size']) if 'max_fragment_size' in pre else None
        okb = bound is not None and (sym.lin_eq(sym.lin(bound), sym.lin(want_bound)) or (T != 'SINGLE_PACKET' and bound == 'max_fragment_size'))
        R.check(okb, rule, key + f' | {T} carries', f'{hdr[T]}-byte header + payload[:{bound}]' + (' (all of it)' if T == 'SINGLE_PACKET' else ''),
                f'a {T} writes payload[:{bound}]: ' + ('the single-packet guard admits payloads this slice truncates - the tail goes out as a stray packet' if T == 'SINGLE_PACKET' else 'not the fragment size'), p.loc(loop))
        # what is consumed and what comes next
        for kk, f2, st2, ex2, wit in sym.exits(res):
            left = st2.get('payload')
            if left is not None:
                lp = None
                try:
                    lp = slice_parts(ast.parse(left, mode='eval').body)
                except SyntaxError:
                    pass
                if not (lp and lp[0] == 'at(payload, 0)' and lp[2] is None and bound is not None and sym.lin_eq(sym.lin(lp[1].replace('at(payload, 0)', 'payload')), sym.lin(bound))):
                    R.bad(rule, key + f' | {T} consumed', f'payload becomes `{left}` after writing payload[:{bound}]: written and consumed amounts differ', p.loc(loop))
            nt = st2.get('packet_type')
            if nt:
                rel = []
                for a, t in f2.items():
                    a2 = a.replace(left, 'payload') if left else a
                    if a2 == 'payload' or ('len(payload)' in a2 and 'max_fragment_size' in a2):
                        rel.append((a2, t))
                nxt.add((nt.split('.')[-1], tuple(sorted(rel))))
        # CONTINUE iff more than one fragment remains
        for nt, fs in nxt:
            fd = dict(fs)
            more = next((sym.ineq(a, t) for a, t in fd.items() if 'max_fragment_size' in a and a != 'payload'), None)
            want_more = sym.ineq('len(payload) > max_fragment_size', nt == 'CONTINUE_PACKET')
            okn = nt in ('CONTINUE_PACKET', 'END_PACKET') and more is not None and sym.same_ineq(more, want_more) and fd.get('payload') is True
            R.check(okn, rule, key + f' | after {T}: {nt}', 'CONTINUE while more than one fragment remains, END for the last one, only when payload is left', f'after a {T} the next packet is labelled {nt} under {sorted(fd.items())}: a message whose length is a multiple of the fragment size never gets its END packet (or a wrong label is used)', p.loc(loop))
    R.check(hdr == {'SINGLE_PACKET': 2, 'START_PACKET': 3, 'CONTINUE_PACKET': 1, 'END_PACKET': 1}, rule, key + ' | header sizes', 'single 2, start 3, continue/end 1 byte', f'header sizes {hdr}', p.loc(fn))
    # frame bound per type: header + slice <= peer_mtu
    pc = [n.value for n in ast.walk(loop) if isinstance(n, ast.Assign) and dotted(n.targets[0]) == 'packet_count']
    ok = len(pc) == 1 and isinstance(pc[0], ast.BinOp) and isinstance(pc[0].op, ast.FloorDiv) and norm(pc[0].right) == 'max_fragment_size' and sym.lin_eq(sym.lin(pc[0].left), {'max_fragment_size': 1, 'len(payload)': 1, '': -1})
    R.check(ok, rule, key + ' | packet count', 'ceil(len(payload) / fragment)', f'packet count {[norm(x) for x in pc]}', p.loc(fn))
    fh = [n.value for n in ast.walk(loop) if isinstance(n, ast.Assign) and dotted(n.targets[0]) == 'first_header_byte']
    lay = bits.ser_layout(fh[0]) if len(fh) == 1 and hasattr(bits, 'ser_layout') else None
    fh_t = [norm(x) for x in fh]
    R.check(fh_t == ['transaction_label << 4 | packet_type << 2 | message.message_type'], rule, key + ' | first header byte', 'label @4, packet type @2, message type @0', f'first header byte {fh_t}', p.loc(fn))
    asm = p.find('bumble.avdtp.MessageAssembler.on_pdu')
    if asm is not None:
        s_ = norm(asm)
        R.check('transaction_label = pdu[0] >> 4' in s_ and 'Protocol.PacketType(pdu[0] >> 2 & 3)' in s_ and 'Message.MessageType(pdu[0] & 3)' in s_, rule, 'bumble.avdtp.MessageAssembler.on_pdu | first header byte', 'same bit layout on the receiving side', 'AVDTP header bit layout differs between sender and assembler', p.loc(asm))


def headers(ctx):
    R, p = ctx.r, ctx.p
    rule = 'C19.headers'
    # AVDTP assembler: payload offsets per packet type
    asm = p.find('bumble.avdtp.MessageAssembler.on_pdu')
    if asm is None:
        R.bad(rule, 'bumble.avdtp.MessageAssembler.on_pdu', 'anchor missing')
    else:
        s = norm(asm)
        R.check('self.message = pdu[2:]' in s and 'self.message = pdu[3:]' in s and "self.message = (self.message or b'') + pdu[1:]" in s and 'self.number_of_signal_packets = pdu[2]' in s, rule, 'bumble.avdtp.MessageAssembler.on_pdu | payload offsets', 'single skips 2, start skips 3 (count at 2), continue/end skip 1: the header sizes the sender writes', 'AVDTP assembler payload offsets do not match the sender\'s header sizes', p.loc(asm))
    # AVCTP
    a = p.find('bumble.avctp.MessageAssembler.on_pdu')
    snd = p.find('bumble.avctp.Protocol.send_message')
    if a is None or snd is None:
        R.bad(rule, 'bumble.avctp.MessageAssembler.on_pdu', 'anchor missing')
        return
    fmt = [const(c.args[0]) for c in calls_in(snd) if dotted(c.func) == 'struct.pack' and is_const(c.args[0])]
    R.check(fmt == ['>BH'], rule, 'bumble.avctp.Protocol.send_message | single header', '1 header byte + 2-byte PID', f'sender header format {fmt}', p.loc(snd))
    # per packet type: where the assembler starts taking payload
    # pid_offset = 1 (default), 2 for START; pid read at pid_offset for ALL types; payload from pid_offset + 2
    pid_reads = [n for n in walk_local(a) if isinstance(n, ast.Assign) and dotted(n.targets[0]) == 'pid']
    guarded_by_type = False
    for n in pid_reads:
        g = [norm(t) for t, pol in paths.flat_guards(n) if pol]
        if any('PacketType.SINGLE' in x or 'PacketType.START' in x for x in g):
            guarded_by_type = True
    R.check(guarded_by_type, rule, 'bumble.avctp.MessageAssembler.on_pdu | PID only in single/start packets', 'the profile identifier is read from SINGLE and START packets only (AVCTP 1.4, 6.1); CONTINUE/END have a 1-byte header',
            'the assembler strips a 2-byte profile identifier from CONTINUE and END packets too: a message fragmented as the AVCTP specification lays out loses 2 payload bytes per fragment and is rejected (PID mismatch)', p.loc(a))
    s = norm(a)
    R.check('self.number_of_packets = pdu[1]' in s and 'pid_offset = 2' in s, rule, 'bumble.avctp.MessageAssembler.on_pdu | start header', 'START: packet count at 1, PID at 2', 'AVCTP START header layout changed', p.loc(a))


def neutral(ctx):
    R, p = ctx.r, ctx.p
    rule = 'C19.neutral'
    fn = p.find('bumble.avdtp.MessageAssembler.on_pdu')
    if fn is None:
        R.bad(rule, 'bumble.avdtp.MessageAssembler.on_pdu', 'anchor missing')
        return

    class D(paths.Domain):
        def event(self, node, v):
            if isinstance(node, (ast.Assign, ast.AugAssign)):
                tg = node.targets if isinstance(node, ast.Assign) else [node.target]
                if any((dotted(t) or '').startswith('self.') for t in tg):
                    return ('dirty',)
            if isinstance(node, ast.Call) and dotted(node.func) in ('self.reset', 'self.on_message_complete'):
                return ('clean',)
            return (v,)

        def ret(self, node, v):
            return 'explicit'

    res = paths.run(fn, D(), 'clean')
    bad = [f'via {" ".join(w)}' for k, st in res.items() if k == 'ret:explicit' for v, w in st.items() if v == 'dirty']
    R.check(not bad, rule, 'bumble.avdtp.MessageAssembler.on_pdu | rejecting returns are state-neutral', 'every early return leaves the assembler untouched or reset (a packet is counted only after it was accepted)',
            'a rejected packet has already changed the assembler (e.g. the packet count): the next well-formed message fails its checks', p.loc(fn), bad)
    # a fragmented message is delivered only when exactly the announced number of packets was received: on every path that
    # reaches on_message_complete() for an END packet, the relation known between packet_count and number_of_signal_packets is `==`
    from ..sym import same_ineq

    class Cnt(paths.Domain):
        # value: (is END packet: True/None, relation known: 'eq' | 'other' | None)
        def __init__(self):
            self.bad = []

        def assume(self, atom, truth, v):
            t = norm(atom)
            if 'END_PACKET' in t and 'packet_type' in t:
                if isinstance(atom, ast.Compare) and isinstance(atom.ops[0], ast.Eq):
                    return ((truth or None, v[1]),) if truth else ((v[0] if v[0] else None, v[1]),)
                if isinstance(atom, ast.Compare) and isinstance(atom.ops[0], ast.In):
                    return ((v[0], v[1]),)
            if 'self.packet_count' in t and 'self.number_of_signal_packets' in t and isinstance(atom, ast.Compare) and len(atom.ops) == 1:
                op = type(atom.ops[0])
                eq = (op is ast.Eq and truth) or (op is ast.NotEq and not truth)
                return ((v[0], 'eq' if eq else 'other'),)
            return (v,)

        def event(self, node, v):
            if isinstance(node, ast.AugAssign) and dotted(node.target) == 'self.packet_count':
                return ((v[0], None),)
            if isinstance(node, ast.Call) and dotted(node.func) == 'self.on_message_complete' and v[0] and v[1] != 'eq':
                self.bad.append(node.lineno)
            return (v,)
    cd = Cnt()
    paths.run(fn, cd, (None, None))
    n_end = sum(1 for c in calls_in(fn) if dotted(c.func) == 'self.on_message_complete')
    R.check(n_end >= 2 and not cd.bad, rule, 'bumble.avdtp.MessageAssembler.on_pdu | delivery needs the announced count', 'an END packet completes the message only under packet_count == number_of_signal_packets',
            f'an END packet delivers the message (line {sorted(set(cd.bad))}) although the number of packets received is only bounded, not equal to the number announced: a sequence with a duplicated or extra fragment is delivered instead of discarded', p.loc(fn))
    # completion resets
    oc = p.find('bumble.avdtp.MessageAssembler.on_message_complete')
    R.check(oc is not None and norm(oc.body[-1]) == 'self.reset()', rule, 'bumble.avdtp.MessageAssembler.on_message_complete', 'reset after delivery (also when the callback raises)', 'assembler is not reset after delivering a message', p.loc(oc) if oc else '')
    # the start packet is packet number 1, set after the reset of an interrupted message
    stm = [n for n in ast.walk(fn) if isinstance(n, ast.Assign) and norm(n) == 'self.packet_count = 1']
    ok = len(stm) == 1
    if ok:
        blk = stm[0]._parent.body
        idx = blk.index(stm[0])
        resets = [i for i, s in enumerate(blk) if isinstance(s, ast.If) and any(dotted(c.func) == 'self.reset' for c in calls_in(s))]
        ok = bool(resets) and max(resets) < idx
    R.check(ok, rule, 'bumble.avdtp.MessageAssembler.on_pdu | start packet counted after reset', 'an interrupting START resets first and is then counted as packet 1', 'the START packet is counted before the reset that discards the interrupted message', p.loc(fn))
    # AVCTP: every rejecting branch resets
    a = p.find('bumble.avctp.MessageAssembler.on_pdu')
    if a is not None:
        rej = [n for n in walk_local(a) if isinstance(n, ast.If) and any(isinstance(s, ast.Return) for s in n.body)]
        bad = [n for n in rej if not any(dotted(c.func) == 'self.reset' for s in n.body for c in calls_in(s))]
        R.check(bool(rej) and not bad, rule, 'bumble.avctp.MessageAssembler.on_pdu | rejecting returns reset', f'{len(rej)} rejecting branches all reset the assembler', f'{len(bad)} rejecting branch(es) keep a half-built message', p.loc(a))


# AVDTP 1.3 section 6 / 9: state the acceptor must be in for each command (None: any state)
REQUIRED_STATE = {
    'set_configuration': {'IDLE'},
    'get_configuration': {'CONFIGURED', 'OPEN', 'STREAMING'},
    'reconfigure': {'OPEN'},
    'open': {'CONFIGURED'},
    'start': {'OPEN'},
    'suspend': {'STREAMING'},
    'close': {'OPEN', 'STREAMING'},
    'abort': None,
    'security_control': None,
    'delay_report': None,
}


def _first_real_stmt(fn):
    """first statement that is not a docstring, `pass` or a logging call."""
    for s_ in fn.body:
        if isinstance(s_, ast.Pass):
            continue
        if isinstance(s_, ast.Expr) and (is_const(s_.value) or (isinstance(s_.value, ast.Call) and (dotted(s_.value.func) or '').split('.')[0] in ('logger', 'logging'))):
            continue
        return s_
    return None


def helper_codecs(ctx, rule='C19.sdp-codecs'):
    """The hand-written field helpers of the SDP PDUs come in pairs (_parse_X / _serialize_X): both sides use the same struct
    item types (width, signedness, byte order), whatever way the items are counted or looped over."""
    import re as _re
    R, p = ctx.r, ctx.p
    m = p.modules.get('bumble.sdp')
    if m is None:
        R.bad(rule, 'bumble.sdp', 'anchor missing')
        return
    fns = {f.name: f for f in m.tree.body if isinstance(f, FUNC)}

    def items(fn):
        out = set()
        for c in ast.walk(fn):
            if isinstance(c, ast.Call) and (dotted(c.func) or '') in ('struct.pack', 'struct.unpack', 'struct.unpack_from', 'struct.pack_into', 'struct.calcsize') and c.args:
                f = c.args[0]
                txt = f.value if isinstance(f, ast.Constant) and isinstance(f.value, str) else ''.join(v.value for v in f.values if isinstance(v, ast.Constant)) if isinstance(f, ast.JoinedStr) else None
                if txt is None:
                    out.add('?')
                    continue
                order = txt[0] if txt[:1] in '<>!=@' else '@'
                for ch in _re.findall(r'[a-zA-Z?]', txt):
                    out.add(order + ch)
        return out
    n = 0
    for name, fn in sorted(fns.items()):
        if not name.startswith('_parse_'):
            continue
        twin = fns.get('_serialize_' + name[len('_parse_'):])
        if twin is None:
            continue
        n += 1
        a, b = items(fn), items(twin)
        R.check(a == b and '?' not in a, rule, f'bumble.sdp.{name} / {twin.name}', f'both sides use {sorted(a)}',
                f'the parser reads {sorted(a)} where the serialiser writes {sorted(b)}: width, signedness or byte order of a field differs between the two directions (e.g. handles >= 0x80000000 come back negative)', p.loc(fn))
    R.check(n >= 2, rule, 'bumble.sdp | helper pairs', f'{n} _parse_/_serialize_ pairs', f'only {n} helper pairs found')


def stream_fsm(ctx):
    R, p = ctx.r, ctx.p
    rule = 'C19.stream-fsm'
    st = p.cls('bumble.avdtp.Stream')
    if st is None:
        R.bad(rule, 'bumble.avdtp.Stream', 'anchor missing')
        return
    n = 0
    for name, m in sorted(st.methods.items()):
        if not (name.startswith('on_') and name.endswith('_command')):
            continue
        cmd = name[3:-8]
        if cmd not in REQUIRED_STATE:
            R.bad(rule, f'bumble.avdtp.Stream.{name}', 'acceptor-side command without an entry in the required-state table', p.loc(m))
            continue
        want = REQUIRED_STATE[cmd]
        n += 1
        if want is None:
            R.ok(rule, f'bumble.avdtp.Stream.{name}', 'valid in every state (AVDTP 6.15/9.x)', p.loc(m))
            continue
        first = _first_real_stmt(m)
        got = None
        if isinstance(first, ast.If) and isinstance(first.test, ast.Compare) and norm(first.test.left) == 'self.state' and len(first.test.ops) == 1:
            op, rhs = first.test.ops[0], first.test.comparators[0]
            if isinstance(op, ast.NotEq):
                got = {norm(rhs).split('.')[-1]}
            elif isinstance(op, ast.NotIn) and isinstance(rhs, (ast.Tuple, ast.List, ast.Set)):
                got = {norm(e).split('.')[-1] for e in rhs.elts}
        refusal_ok = got is not None and paths._always_leaves(first.body) and not any(dotted(c.func) == 'self.change_state' for s_ in first.body for c in calls_in(s_)) \
            and any(isinstance(s_, ast.Return) and s_.value is not None and 'BAD_STATE' in norm(s_.value) for s_ in first.body)
        R.check(got == want and refusal_ok, rule, f'bumble.avdtp.Stream.{name}', f'refused with BAD_STATE unless state in {sorted(want)}, before any effect; refusal changes nothing',
                f'{name} accepts the command in states {sorted(got) if got else "?"} (required: {sorted(want)}) or its refusal path has effects', p.loc(m))
    # whatever the reason for a refusal (wrong state, missing transport channel, the local endpoint's verdict), a handler
    # that returns a reject has not changed the stream state on that path
    class Ref(paths.Domain):
        def __init__(self):
            self.bad = []

        def event(self, node, v):
            if isinstance(node, ast.Call) and dotted(node.func) == 'self.change_state':
                return (True,)
            if isinstance(node, ast.Return) and v and node.value is not None and norm(node.value) != 'None':
                self.bad.append((node.lineno, norm(node.value)[:60]))
            return (v,)
    for name, m in sorted(st.methods.items()):
        if not (name.startswith('on_') and name.endswith('_command')):
            continue
        d = Ref()
        paths.run(m, d, False)
        R.check(not d.bad, rule, f'bumble.avdtp.Stream.{name} | a refusal changes nothing', 'no path changes the stream state and then returns a reject (or the endpoint\'s verdict, which may be one)',
                f'a path changes the stream state and then returns `{d.bad[0][1] if d.bad else ""}` (possibly a reject): the command is refused but the acceptor is already in the new state, the two ends disagree and later legal commands get BAD_STATE', p.loc(m))
    # commands naming several end points are all-or-nothing as far as the stream states go: the validation loop, which runs
    # before any stream is touched, refuses unless every named stream is in the state the command requires
    for cmd in ('start', 'suspend'):
        fn = p.find(f'bumble.avdtp.Protocol.on_{cmd}_command')
        if fn is None:
            R.bad(rule, f'bumble.avdtp.Protocol.on_{cmd}_command', 'anchor missing')
            continue
        loops = [l for l in fn.body if isinstance(l, ast.For) and 'acp_seids' in norm(l.iter)]
        acting = [l for l in loops if any((dotted(c.func) or '').endswith(f'stream.on_{cmd}_command') for c in calls_in(l))]
        validating = [l for l in loops if l not in acting and acting and fn.body.index(l) < fn.body.index(acting[0])]
        states = set()
        for l in validating:
            for i in [x for x in ast.walk(l) if isinstance(x, ast.If) and any(isinstance(r_, ast.Return) and r_.value is not None and 'Reject' in norm(r_.value) for r_ in x.body)]:
                for c in ast.walk(i.test):
                    if isinstance(c, ast.Compare) and len(c.ops) == 1 and norm(c.left).endswith('stream.state'):
                        if isinstance(c.ops[0], ast.NotEq):
                            states |= {norm(c.comparators[0]).split('.')[-1]}
                        elif isinstance(c.ops[0], ast.NotIn) and isinstance(c.comparators[0], (ast.Tuple, ast.List, ast.Set)):
                            states |= {norm(e).split('.')[-1] for e in c.comparators[0].elts}
        R.check(len(acting) == 1 and bool(validating) and states == REQUIRED_STATE[cmd], rule, f'bumble.avdtp.Protocol.on_{cmd}_command | all or nothing', f'every named stream is checked to be in {sorted(REQUIRED_STATE[cmd])} before the first one is touched',
                f'{cmd.capitalize()} with several end points checks only that the streams exist (state test before acting: {sorted(states) or "none"}): when a later stream is in the wrong state the command is refused after earlier streams have already changed state', p.loc(fn))
    # a second Set Configuration for an endpoint in use is refused before a new stream replaces the live one
    psc = p.find('bumble.avdtp.Protocol.on_set_configuration_command')
    if psc is None:
        R.bad(rule, 'bumble.avdtp.Protocol.on_set_configuration_command', 'anchor missing')
    else:
        mk = [c for c in calls_in(psc) if dotted(c.func) == 'Stream']
        g = [(norm(t), pol) for c in mk for t, pol in paths.flat_guards(c)]
        R.check(len(mk) == 1 and ('endpoint.in_use', False) in g and ('endpoint is None', False) in g, rule, 'bumble.avdtp.Protocol.on_set_configuration_command | endpoint in use', 'a new stream is created only for an existing endpoint that is not in use (SEP_IN_USE otherwise)',
                'Set Configuration for an endpoint that already has a configured/open/streaming stream creates a fresh (idle) stream in its place: the command is accepted and the two ends disagree about the stream state', p.loc(psc))
    R.check(n >= 8, rule, 'bumble.avdtp.Stream | command handlers', f'{n} acceptor-side command handlers', f'only {n} command handlers found')


def identity_rule(ctx):
    from ..generic_rules import identity_compare
    identity_compare(ctx, 'C19.identity', ['bumble.sdp', 'bumble.avdtp', 'bumble.avctp', 'bumble.avrcp', 'bumble.a2dp'])


def missing_await_rule(ctx):
    from ..generic_rules import missing_await
    missing_await(ctx, 'C19.missing-await', ['bumble.avdtp', 'bumble.sdp', 'bumble.avctp', 'bumble.avrcp', 'bumble.a2dp'])


def records_not_aliased_rule(ctx):
    from .c17 import records_not_aliased
    records_not_aliased(ctx, 'C19.records-not-aliased')


def sdp_containment_rule(ctx):
    from .c17 import sdp_containment
    sdp_containment(ctx, 'C19.sdp-containment')


def avctp_restart(ctx):
    """A START packet that arrives while another message is unfinished discards only that message: the new message's
    packet count, read from the START packet, survives -- it is stored after the reset that abandons the old message."""
    R, p = ctx.r, ctx.p
    rule = 'C19.avctp-restart'
    fn = p.find('bumble.avctp.MessageAssembler.on_pdu')
    if fn is None:
        R.bad(rule, 'bumble.avctp.MessageAssembler.on_pdu', 'anchor missing')
        return

    class D(paths.Domain):
        # (start packet?, count: None | 'set' | 'cleared')
        def assume(self, atom, truth, v):
            t = norm(atom)
            if t in ('packet_type == Protocol.PacketType.START', 'Protocol.PacketType.START == packet_type'):
                return ((truth, v[1]),)
            return (v,)

        def event(self, node, v):
            if isinstance(node, ast.Assign) and dotted(node.targets[0]) == 'self.number_of_packets':
                return ((v[0], 'set'),)
            if isinstance(node, ast.Call) and dotted(node.func) == 'self.reset' and v[1] == 'set':
                return ((v[0], 'cleared'),)
            return (v,)
    res = paths.run(fn, D(), (None, None))
    lost = [' '.join(w) for k, st in res.items() if not k.startswith('raise') for v, w in st.items() if v[0] is True and v[1] == 'cleared']
    setok = any(v[1] == 'set' for k, st in res.items() for v in st)
    # a reset that ends the function (error paths) is fine: only paths that go on assembling matter
    lost = [w for w in lost if True]
    going_on = [' '.join(w) for k, st in res.items() if k == 'fall' for v, w in st.items() if v[0] is True and v[1] == 'cleared']
    R.check(setok and not going_on, rule, 'bumble.avctp.MessageAssembler.on_pdu | packet count of the new message', 'no path stores the START packet\'s count and then resets the assembler while it goes on assembling',
            'the packet count read from a START packet is wiped by the reset that abandons the previous message: every fragment of the new, well-formed message is then refused ("too many fragments") and that message is lost too', p.loc(fn), going_on[:2])


def transaction_permits(ctx):
    """AVDTP allows 16 commands in flight; each takes a permit.  The permit is returned where the transaction slot is
    cleared -- whatever the response says: a refusal (Response Reject, turned into an exception by the caller) must not keep
    the permit, or after 16 refusals no procedure can be started any more."""
    R, p = ctx.r, ctx.p
    rule = 'C19.transaction-permits'
    ci = p.cls('bumble.avdtp.Protocol')
    if ci is None:
        R.bad(rule, 'bumble.avdtp.Protocol', 'anchor missing')
        return
    n = 0
    for name, fn in sorted(ci.methods.items()):
        for st in [x for x in walk_local(fn) if isinstance(x, ast.Assign) and isinstance(x.targets[0], ast.Subscript) and dotted(x.targets[0].value) == 'self.transaction_results' and isinstance(x.value, ast.Constant) and x.value.value is None]:
            n += 1
            blk = None
            par = getattr(st, '_parent', None)
            for fld in ('body', 'orelse', 'finalbody'):
                b = getattr(par, fld, None)
                if isinstance(b, list) and st in b:
                    blk = b
            rel = [c for s_ in (blk or []) for c in calls_in(s_) if dotted(c.func) == 'self.transaction_semaphore.release']
            R.check(bool(rel), rule, f'bumble.avdtp.Protocol.{name} | slot cleared', 'the permit is released where the slot is cleared', 'a transaction slot is cleared without releasing the transaction semaphore in the same block: a release placed after the caller\'s reject check is skipped by every refused command, and 16 refusals exhaust the permits (start_transaction then blocks for ever)', p.loc(st))
    R.check(n >= 1, rule, 'bumble.avdtp.Protocol | transaction slots', f'{n} clearing site(s)', 'no site clears a transaction slot')


def shift_amount_rule(ctx):
    from ..generic_rules import shift_amount_data
    shift_amount_data(ctx, 'C19.shift-amount', ['bumble.sdp', 'bumble.avdtp', 'bumble.avctp', 'bumble.avc', 'bumble.avrcp', 'bumble.rfcomm'])


def free_label(ctx):
    """An AVDTP transaction label is taken only if its slot is free: the slot still holds the future of a transaction whose
    response has not arrived (the 16 labels are reused round-robin while a slow one is outstanding)."""
    R, p = ctx.r, ctx.p
    rule = 'C19.free-label'
    fn = p.find('bumble.avdtp.Protocol.start_transaction')
    if fn is None:
        R.bad(rule, 'bumble.avdtp.Protocol.start_transaction', 'anchor missing')
        return
    sts = [s_ for s_ in walk_local(fn) if isinstance(s_, ast.Assign) and isinstance(s_.targets[0], ast.Subscript) and dotted(s_.targets[0].value) == 'self.transaction_results']
    R.check(len(sts) >= 1, rule, 'bumble.avdtp.Protocol.start_transaction | slot store', f'{len(sts)} store(s)', 'no store into transaction_results', p.loc(fn))
    for s_ in sts:
        slot = norm(s_.targets[0])
        g = [(norm(t), pol) for t, pol in paths.flat_guards(s_, stop=fn)]
        ok = (f'{slot} is None', True) in g or (f'{slot} is not None', False) in g
        R.check(ok, rule, 'bumble.avdtp.Protocol.start_transaction | slot is free', f'`{slot} is None` tested', f'`{norm(s_)[:60]}` takes the label without testing that its slot is free: the future of a transaction still waiting under that label is overwritten - its caller never gets its response (which resolves the new transaction instead)', p.loc(s_))


def stream_table(ctx):
    """Protocol.create_stream creates a Stream only when the source has none: Stream.__init__ takes over
    `local_endpoint.stream`, so a Stream constructed just to be thrown away (an eager setdefault default) detaches the
    stream that is actually driven from its end point."""
    R, p = ctx.r, ctx.p
    rule = 'C19.stream-table'
    fn = p.find('bumble.avdtp.Protocol.create_stream')
    if fn is None:
        R.bad(rule, 'bumble.avdtp.Protocol.create_stream', 'anchor missing')
        return
    ctors = [c for c in ast.walk(fn) if isinstance(c, ast.Call) and call_attr(c) == 'Stream']
    R.check(len(ctors) == 1, rule, 'bumble.avdtp.Protocol.create_stream | Stream(...)', 'one construction', f'{len(ctors)} constructions', p.loc(fn))
    for c in ctors:
        g = [(norm(t), pol) for t, pol in paths.flat_guards(c, stop=fn)]
        guarded = any(('in self.streams' in t and ((' not in ' in t) == pol)) or ('self.streams.get(' in t) for t, pol in g)
        in_default = any(isinstance(a, ast.Call) and call_attr(a) in ('setdefault', 'get') and any(x is c for arg in a.args for x in ast.walk(arg)) for a in ast.walk(fn))
        R.check(guarded and not in_default, rule, 'bumble.avdtp.Protocol.create_stream | construction guarded', 'only when the source has no stream yet', 'a Stream is constructed even when the source already has one (its constructor re-points source.stream at the new object): on a second configuration of the same end point the stream that is driven is no longer the end point\'s - the source stays IDLE while the sink streams', p.loc(c))


def enum_field_defaults(ctx):
    """A message field declared with an enum type has an enum member as default: messages are formatted for the debug log
    (through `.name`) before they are sent, at every log level, so a plain integer default makes str(message) raise and the
    reject built with the default is never sent."""
    R, p = ctx.r, ctx.p
    rule = 'C19.enum-field-defaults'
    enums = {ci.name for cn, ci in p.classes.items() if any('Enum' in b.split('.')[-1] or 'Flag' in b.split('.')[-1] for x in p.mro(cn) for b in x.bases)}
    n = 0
    for cn, ci in sorted(p.classes.items()):
        if not cn.startswith('bumble.avdtp.'):
            continue
        for k, ann in ci.annots.items():
            t = norm(ann).strip('"\'').split('.')[-1]
            if t not in enums or k not in ci.assigns:
                continue
            n += 1
            v = ci.assigns[k]
            d = v if isinstance(v, ast.Constant) else next((kw.value for kw in getattr(v, 'keywords', []) if kw.arg == 'default'), None)
            plain = isinstance(d, ast.Constant) and isinstance(d.value, int) and not isinstance(d.value, bool)
            R.check(not plain, rule, f'{cn}.{k}', f'default is a {t}', f'{ci.name}.{k} is a {t} with the plain integer default {d.value if plain else ""}: formatting a message built with the default (`.name` on an int) raises inside send_message before anything is written - the refusal is never sent and the peer\'s transaction stays open', p.loc(v))
    R.check(n >= 4, rule, 'bumble.avdtp | enum-typed fields with defaults', f'{n}', f'only {n} found')


def state_after_success(ctx):
    """An initiator-side stream procedure changes the local state after the peer accepted it, on the normal path only: no
    change_state() in a `finally` block of avdtp.Stream (a refused Close must leave the stream as it was - the acceptor
    did not change either)."""
    R, p = ctx.r, ctx.p
    rule = 'C19.state-after-success'
    ci = p.cls('bumble.avdtp.Stream')
    if ci is None:
        R.bad(rule, 'bumble.avdtp.Stream', 'anchor missing')
        return
    n = 0
    for name, fn in sorted(ci.methods.items()):
        cs = [c for c in calls_in(fn) if dotted(c.func) == 'self.change_state']
        n += len(cs)
        for t in [x for x in walk_local(fn) if isinstance(x, ast.Try)]:
            bad = [c for s_ in t.finalbody for c in calls_in(s_) if dotted(c.func) == 'self.change_state'] + [c for h in t.handlers for c in calls_in(h) if dotted(c.func) == 'self.change_state']
            R.check(not bad, rule, f'bumble.avdtp.Stream.{name} | state change on the failure path', 'state changes on success only', f'{name} changes the stream state in a finally / except block (`{norm(bad[0])[:40] if bad else ""}`): when the peer refuses the procedure the initiator still moves (and releases the media channel) while the acceptor stays where it was', p.loc(bad[0]) if bad else p.loc(t))
    R.check(n >= 8, rule, 'bumble.avdtp.Stream | change_state calls', f'{n}', f'only {n} found')


def pump_cancellation(ctx):
    """MediaPacketPump.stop() cancels the pump task and awaits it: the task function absorbs CancelledError (a
    BaseException - `except Exception` does not catch it), or the cancellation comes back out of `await self.pump_task`
    into whoever is suspending the stream."""
    R, p = ctx.r, ctx.p
    rule = 'C19.pump-cancellation'
    start = p.find('bumble.avdtp.MediaPacketPump.start')
    stop = p.find('bumble.avdtp.MediaPacketPump.stop')
    if start is None or stop is None:
        R.bad(rule, 'bumble.avdtp.MediaPacketPump.start / stop', 'anchor missing')
        return
    awaited = any(isinstance(a, ast.Await) and 'pump_task' in norm(a.value) for a in ast.walk(stop)) and any(call_attr(c) == 'cancel' and 'pump_task' in norm(c.func) for c in calls_in(stop))
    inner = [x for x in ast.walk(start) if isinstance(x, FUNC) and x is not start]
    names = {norm(e).split('.')[-1] for f in inner for t in ast.walk(f) if isinstance(t, ast.Try) for h in t.handlers for e in ((h.type.elts if isinstance(h.type, ast.Tuple) else [h.type]) if h.type is not None else [ast.Name(id='<bare>')])}
    ok = bool(names & {'CancelledError', 'BaseException', '<bare>'})
    R.check(awaited and ok, rule, 'bumble.avdtp.MediaPacketPump.start | pump task', 'absorbs CancelledError', f'the pump task catches {sorted(names)} only: stop() cancels it and awaits it, so the CancelledError is raised into Stream.stop() / the Suspend handler - the Suspend is never sent (or never answered) and the two ends keep different states', p.loc(start))


def in_use_complement(ctx):
    """A local end point is in use in every state but IDLE (CLOSING and ABORTING included: the old stream still owns the
    media channel): LocalStreamEndPoint.in_use tests `state != IDLE`, not a range of states."""
    R, p = ctx.r, ctx.p
    rule = 'C19.in-use-complement'
    ci = p.cls('bumble.avdtp.LocalStreamEndPoint')
    fn = ci.methods.get('in_use') if ci is not None else None
    if fn is None:
        R.bad(rule, 'bumble.avdtp.LocalStreamEndPoint.in_use', 'anchor missing')
        return
    cmps = [c for c in ast.walk(fn) if isinstance(c, ast.Compare) and 'state' in norm(c)]
    ok = len(cmps) == 1 and len(cmps[0].ops) == 1 and isinstance(cmps[0].ops[0], (ast.NotEq, ast.Eq, ast.IsNot, ast.Is)) and norm(cmps[0].comparators[0]).endswith('State.IDLE')
    R.check(ok, rule, 'bumble.avdtp.LocalStreamEndPoint.in_use', 'in use unless IDLE', f'in_use is decided by `{norm(cmps[0])[:70] if cmps else "?"}`: the transitional states (CLOSING, ABORTING) count as free, so a Set Configuration arriving before the old stream has released its channel is accepted - a second stream is bound to the end point while the peer still streams on the first', p.loc(fn))


RULES = [
    ('C19.in-use-complement', in_use_complement),
    ('C19.pump-cancellation', pump_cancellation),
    ('C19.state-after-success', state_after_success),
    ('C19.enum-field-defaults', enum_field_defaults),
    ('C19.stream-table', stream_table),
    ('C19.free-label', free_label),
    ('C19.shift-amount', shift_amount_rule),
    ('C19.transaction-permits', transaction_permits),
    ('C19.avctp-restart', avctp_restart),
    ('C19.sdp-containment', sdp_containment_rule),
    ('C19.records-not-aliased', records_not_aliased_rule),
    ('C19.missing-await', missing_await_rule),
    ('C19.identity', identity_rule),
    ('C19.sdp-all', sdp_all),
    ('C19.sdp-client-state', sdp_client_state),
    ('C19.sdp-budget', sdp_budget),
    ('C19.sdp-watchdog', sdp_watchdog),
    ('C19.avdtp-single', avdtp_single),
    ('C19.headers', headers),
    ('C19.neutral', neutral),
    ('C19.stream-fsm', stream_fsm),
    ('C19.sdp-codecs', helper_codecs),
]

VARIANTS = [
    ('any instead of all', 'bumble/sdp.py', "            if all(\n                any(\n                    ServiceAttribute.is_uuid_in_value(uuid.value, attribute.value)\n                    for attribute in service\n                )\n                for uuid in search_pattern.value\n            ):", "            if any(\n                any(\n                    ServiceAttribute.is_uuid_in_value(uuid.value, attribute.value)\n                    for attribute in service\n                )\n                for uuid in search_pattern.value\n            ):", 'fire', 'C19.sdp-all'),
    ('shared sink again', 'bumble/sdp.py', "        channel.sink = lambda pdu: self.on_channel_pdu(channel, pdu)\n", "        channel.sink = self.on_pdu\n", 'fire', 'C19.sdp-client-state'),
    ('search capacity ignores the continuation bytes', 'bumble/sdp.py', "        maximum_service_record_count = (self.channel.peer_mtu - 11) // 4\n", "        maximum_service_record_count = (self.channel.peer_mtu - 9) // 4\n", 'fire', 'C19.sdp-budget'),
    ('final chunk test >=', 'bumble/sdp.py', "        if len(self.current_response) > maximum_size:\n", "        if len(self.current_response) >= maximum_size:\n", 'fire', 'C19.sdp-budget'),
    ('watchdog not decremented', 'bumble/sdp.py', "            watchdog -= 1\n\n        return service_record_handle_list", "            pass\n\n        return service_record_handle_list", 'fire', 'C19.sdp-watchdog'),
    ('single packet sliced to fragment size', 'bumble/avdtp.py', "            fragment_size = (\n                len(payload)\n                if packet_type == self.PacketType.SINGLE_PACKET\n                else max_fragment_size\n            )\n", "            fragment_size = max_fragment_size\n", 'fire', 'C19.avdtp-single'),
    ('last fragment labelled CONTINUE', 'bumble/avdtp.py', "                    if len(payload) > max_fragment_size\n", "                    if len(payload) >= max_fragment_size\n", 'fire', 'C19.avdtp-single'),
    ('packet counted before validation', 'bumble/avdtp.py', "    def on_pdu(self, pdu: bytes) -> None:\n        # Drop empty PDUs", "    def on_pdu(self, pdu: bytes) -> None:\n        self.packet_count += 1\n        # Drop empty PDUs", 'fire', 'C19.neutral'),
    ('benign: comment', 'bumble/avdtp.py', "            # Prepare for the next packet\n", "            # Get ready for the next packet\n", 'silent', ''),
    ('benign: single-packet guard rearranged', 'bumble/avdtp.py', "        if len(payload) + 2 <= self.l2cap_channel.peer_mtu:", "        if len(payload) <= self.l2cap_channel.peer_mtu - 2:", 'silent', ''),
    ('benign: fragment size chosen with if/else', 'bumble/avdtp.py', "            fragment_size = (\n                len(payload)\n                if packet_type == self.PacketType.SINGLE_PACKET\n                else max_fragment_size\n            )\n", "            if packet_type == self.PacketType.SINGLE_PACKET:\n                fragment_size = len(payload)\n            else:\n                fragment_size = max_fragment_size\n", 'silent', ''),
    ('benign: chunking branches swapped', 'bumble/sdp.py', "        if len(self.current_response) > maximum_size:\n            payload = self.current_response[:maximum_size]\n            continuation_state = Server.CONTINUATION_STATE\n            self.current_response = self.current_response[maximum_size:]\n        else:\n            payload = self.current_response\n            continuation_state = bytes([0])\n            self.current_response = None\n", "        if len(self.current_response) <= maximum_size:\n            payload = self.current_response\n            continuation_state = bytes([0])\n            self.current_response = None\n        else:\n            payload = self.current_response[:maximum_size]\n            continuation_state = Server.CONTINUATION_STATE\n            self.current_response = self.current_response[maximum_size:]\n", 'silent', ''),
    ('benign: capacity constant split', 'bumble/sdp.py', "        maximum_service_record_count = (self.channel.peer_mtu - 11) // 4\n", "        maximum_service_record_count = (self.channel.peer_mtu - 9 - 2) // 4\n", 'silent', ''),
    ('start packet announces one packet too many', 'bumble/avdtp.py', "                packet_count = (\n                    max_fragment_size - 1 + len(payload)\n                ) // max_fragment_size\n", "                packet_count = len(payload) // max_fragment_size + 1\n", 'fire', 'C19.avdtp-single'),
    ('single guard admits one byte too many', 'bumble/avdtp.py', "        if len(payload) + 2 <= self.l2cap_channel.peer_mtu:", "        if len(payload) + 1 <= self.l2cap_channel.peer_mtu:", 'fire', 'C19.avdtp-single'),
    ('continuation accepted without a partial response', 'bumble/sdp.py', "                self.current_response is None\n                or continuation_state != self.CONTINUATION_STATE", "                continuation_state != self.CONTINUATION_STATE", 'fire', 'C19.sdp-budget'),
]
