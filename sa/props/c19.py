"""C19 — SDP answers and AVDTP/AVCTP messages are reassembled exactly across PDUs."""
from __future__ import annotations

import ast
import struct

from .. import bits, fields, paths
from ..core import FUNC, call_attr, calls_in, const, dotted, is_const, kwarg, norm, slice_parts, text, walk_local

EXPLANATION = [
    'C19.sdp-all: match_services admits a record only under a universal test over the UUIDs of the pattern (all(... any(...)) or an equivalent for/else), never inside the per-UUID loop on the first hit.',
    'C19.sdp-client-state: the channel a reply is written to and the partial response used for continuation are selected by the channel the request arrived on.',
    'C19.sdp-budget: per-response capacities (peer_mtu - 11)//4 and peer_mtu - 9 equal header + fixed fields + continuation overhead computed from the PDU codec; the final chunk is the one that fits (len <= max) and leaves no partial response; a continuation is valid only if a partial response exists.',
    'C19.sdp-watchdog: every continuation loop of the client is bounded by a strictly decreasing watchdog.',
    'C19.avdtp-single: the single-packet guard and the amount written agree (a single packet carries the whole payload); fragments are peer_mtu - 3 bytes with headers of at most 3 bytes; the last fragment is labelled END (CONTINUE only while more than one fragment remains); the packet count is ceil(len/fragment).',
    'C19.headers: per packet type the AVCTP/AVDTP assembler skips exactly the header the sender (and the specification) writes.',
    'C19.neutral: the AVDTP assembler leaves its state untouched or reset on every rejecting return; a packet is counted only once it has been accepted.',
    'C19.stream-fsm: each AVDTP stream operation checks the state it requires on the acceptor side before changing it, and refusal paths do not change state.',
    'Not decided: equality of reassembled data for all sizes (runtime).',
]
ASSUMPTIONS = ['AVCTP 1.4 section 6.1: the profile identifier is present in single and start packets only (embedded as oracle)']

SRV = 'bumble.sdp.Server'


def _anc(n):
    q = getattr(n, '_parent', None)
    while q is not None:
        yield q
        q = getattr(q, '_parent', None)


def sdp_all(ctx):
    R, p = ctx.r, ctx.p
    rule = 'C19.sdp-all'
    fn = p.find(f'{SRV}.match_services')
    if fn is None:
        R.bad(rule, f'{SRV}.match_services', 'anchor missing')
        return
    param = fn.args.args[1].arg
    ins = [n for n in ast.walk(fn) if isinstance(n, ast.Assign) and isinstance(n.targets[0], ast.Subscript) and norm(n.targets[0].value) == 'matching_services']
    if not ins:
        R.bad(rule, f'{SRV}.match_services | insertion', 'no insertion into the result found', p.loc(fn))
        return
    for i in ins:
        # loops over the pattern that enclose the insertion
        inside = [a for a in _anc(i) if isinstance(a, ast.For) and f'{param}.value' in norm(a.iter)]
        ok = False
        why = ''
        if inside:
            lp = inside[0]
            in_else = any(i is x for s in lp.orelse for x in ast.walk(s))
            ok = in_else
            why = 'the record is admitted inside the loop over the pattern\'s UUIDs (on the first UUID found)'
        else:
            g = [t for t, pol in paths.flat_guards(i) if pol]
            for t in g:
                if isinstance(t, ast.Call) and call_attr(t) == 'all' and t.args and isinstance(t.args[0], ast.GeneratorExp) and f'{param}.value' in norm(t.args[0].generators[0].iter):
                    ok = True
            why = 'the insertion is not guarded by a universal test over the pattern\'s UUIDs'
        R.check(ok, rule, f'{SRV}.match_services | quantifier', 'a record is admitted only when every UUID of the pattern was found in it', f'{why}: a record matching any one UUID is returned', p.loc(i))
    iu = p.find('bumble.sdp.ServiceAttribute.is_uuid_in_value')
    if iu is not None:
        s = norm(iu)
        R.check('DataElement.UUID' in s and 'DataElement.SEQUENCE' in s and 'is_uuid_in_value(uuid, element)' in s.replace('ServiceAttribute.', ''), rule, 'bumble.sdp.ServiceAttribute.is_uuid_in_value', 'compares UUID elements and recurses into sequences', 'UUID containment test changed', p.loc(iu))


def sdp_client_state(ctx):
    R, p = ctx.r, ctx.p
    rule = 'C19.sdp-client-state'
    srv = p.cls(SRV)
    oc = srv.methods.get('on_connection') if srv else None
    if oc is None:
        R.bad(rule, f'{SRV}.on_connection', 'anchor missing')
        return
    cparam = oc.args.args[1].arg
    sinks = [n for n in walk_local(oc) if isinstance(n, ast.Assign) and (dotted(n.targets[0]) or '').endswith('.sink')]
    ok = False
    target = None
    for sk in sinks:
        v = sk.value
        names = {x.id for x in ast.walk(v) if isinstance(x, ast.Name)}
        if isinstance(v, (ast.Lambda, ast.Call)) and cparam in names:
            ok = True
            for c in ast.walk(v):
                if isinstance(c, ast.Call) and (dotted(c.func) or '').startswith('self.'):
                    target = dotted(c.func)[5:]
    R.check(ok, rule, f'{SRV}.on_connection | sink carries its channel', 'each client\'s sink hands the server the channel the PDU arrived on', 'all clients share one sink that does not say which channel a request came from: replies go to whichever client connected last', p.loc(oc))
    if not ok or target not in srv.methods:
        return
    h = srv.methods[target]
    hp = [a.arg for a in h.args.args]
    chp = hp[1] if len(hp) > 1 else None
    body = [norm(s) for s in h.body]
    sets_channel = any(b == f'self.channel = {chp}' for b in body)
    loads = any(f'self.current_response = self.current_responses.get({chp})' in b for b in body)
    tr = [s for s in h.body if isinstance(s, ast.Try)]
    stores = bool(tr) and any(norm(x) == f'self.current_responses[{chp}] = self.current_response' for x in tr[0].finalbody) and any(dotted(c.func) == 'self.on_pdu' for c in calls_in(tr[0]))
    R.check(sets_channel and loads and stores, rule, f'{SRV}.{target} | per-client routing', 'reply channel and continuation state are switched to the requesting client around the handling of each PDU', 'the reply channel / partial response is not selected by the requesting client (responses or continuations of different clients get mixed)', p.loc(h))
    sr = srv.methods.get('send_response')
    R.check(sr is not None and 'self.channel.write(response)' in norm(sr), rule, f'{SRV}.send_response', 'writes to the current request\'s channel', 'send_response changed', p.loc(sr) if sr else '')


def sdp_budget(ctx):
    R, p = ctx.r, ctx.p
    rule = 'C19.sdp-budget'
    srv = p.cls(SRV)
    pdu = p.cls('bumble.sdp.SDP_PDU')
    if srv is None or pdu is None:
        R.bad(rule, SRV, 'anchor missing')
        return
    hb = pdu.methods.get('__bytes__')
    hdr = None
    for c in calls_in(hb) if hb else []:
        if dotted(c.func) == 'struct.pack' and is_const(c.args[0]):
            hdr = struct.calcsize(const(c.args[0]))
    fb = pdu.methods.get('from_bytes')
    hdr_p = None
    for c in calls_in(fb) if fb else []:
        if dotted(c.func) == 'struct.unpack_from' and is_const(c.args[0]):
            hdr_p = struct.calcsize(const(c.args[0]))
    R.check(hdr == 5 and hdr_p == 5, rule, 'bumble.sdp.SDP_PDU | header', '5-byte header (>BHH) on both sides', f'SDP header sizes: write {hdr}, read {hdr_p}', p.loc(pdu.node))
    cs = srv.assigns.get('CONTINUATION_STATE')
    cont = len(const(cs.args[0])) if isinstance(cs, ast.Call) and cs.args and is_const(cs.args[0]) else None
    R.check(cont == 2, rule, f'{SRV}.CONTINUATION_STATE', 'continuation state is 2 bytes (length byte + 1 byte)', f'continuation state literal has {cont} bytes', '')
    # search response: header + total count (2) + current count (2) + handles (4 each) + continuation
    ss = srv.methods.get('on_sdp_service_search_request')
    if ss is not None and hdr and cont:
        need = hdr + 2 + 2 + cont
        v = [norm(n.value) for n in walk_local(ss) if isinstance(n, ast.Assign) and dotted(n.targets[0]) == 'maximum_service_record_count']
        R.check(v == [f'(self.channel.peer_mtu - {need}) // 4'], rule, f'{SRV}.on_sdp_service_search_request | capacity', f'(peer_mtu - {need}) // 4 handles: {hdr} header + 2 + 2 counts + {cont} continuation', f'capacity {v} does not equal (peer_mtu - {need}) // 4', p.loc(ss))
        s = norm(ss)
        R.check('service_record_handles_remaining = service_record_handles[maximum_service_record_count:]' in s and 'service_record_handles = service_record_handles[:maximum_service_record_count]' in s, rule, f'{SRV}.on_sdp_service_search_request | split', 'sent prefix and kept remainder split at the same index', 'handle list split changed', p.loc(ss))
    for hname in ('on_sdp_service_attribute_request', 'on_sdp_service_search_attribute_request'):
        h = srv.methods.get(hname)
        if h is None:
            R.bad(rule, f'{SRV}.{hname}', 'anchor missing')
            continue
        need = hdr + 2 + cont if hdr and cont else None
        v = [norm(n.value) for n in walk_local(h) if isinstance(n, ast.Assign) and dotted(n.targets[0]) == 'maximum_attribute_byte_count']
        R.check(v == [f'min(request.maximum_attribute_byte_count, self.channel.peer_mtu - {need})'], rule, f'{SRV}.{hname} | capacity', f'min(requested, peer_mtu - {need}): {hdr} header + 2 byte count + {cont} continuation', f'capacity {v} does not equal peer_mtu - {need}', p.loc(h))
    g = srv.methods.get('get_next_response_payload')
    if g is not None:
        iff = next((n for n in g.body if isinstance(n, ast.If)), None)
        ok = iff is not None and norm(iff.test) == 'len(self.current_response) > maximum_size'
        if ok:
            more = {dotted(n.targets[0]): (slice_parts(n.value) or norm(n.value)) for n in iff.body if isinstance(n, ast.Assign)}
            last = {dotted(n.targets[0]): norm(n.value) for n in iff.orelse if isinstance(n, ast.Assign)}
            ok = more.get('payload') == ('self.current_response', '0', 'maximum_size') and more.get('self.current_response') == ('self.current_response', 'maximum_size', None) and more.get('continuation_state') == 'Server.CONTINUATION_STATE' \
                and last.get('payload') == 'self.current_response' and last.get('continuation_state') == 'bytes([0])' and last.get('self.current_response') == 'None'
        R.check(ok, rule, f'{SRV}.get_next_response_payload', 'more chunks only while len > max; the chunk that fits is final (no continuation, partial response dropped); split at the same index', 'chunking of a continued response changed: a response whose length is a multiple of the capacity is left with an empty partial response', p.loc(g))
    cc = srv.methods.get('check_continuation')
    if cc is not None:
        s = norm(cc)
        R.check('self.current_response is None or continuation_state != self.CONTINUATION_STATE' in s and 'if len(continuation_state) > 1:' in s, rule, f'{SRV}.check_continuation', 'a continuation is refused only when no partial response exists (None) or the state does not match', 'validity test of a continuation request changed', p.loc(cc))


def sdp_watchdog(ctx):
    R, p = ctx.r, ctx.p
    rule = 'C19.sdp-watchdog'
    cli = p.cls('bumble.sdp.Client')
    if cli is None:
        R.bad(rule, 'bumble.sdp.Client', 'anchor missing')
        return
    n = 0
    for name in ('search_services', 'search_attributes', 'get_attributes'):
        m = cli.methods.get(name)
        if m is None:
            R.bad(rule, f'bumble.sdp.Client.{name}', 'anchor missing')
            continue
        lp = [x for x in walk_local(m) if isinstance(x, ast.While)]
        ok = len(lp) == 1 and norm(lp[0].test) == 'watchdog > 0' and norm(lp[0].body[-1]) == 'watchdog -= 1' and not any(isinstance(x, ast.Continue) for x in walk_local(lp[0]))
        init = [norm(x.value) for x in walk_local(m) if isinstance(x, ast.Assign) and dotted(x.targets[0]) == 'watchdog']
        n += 1
        R.check(ok and init == ['SDP_CONTINUATION_WATCHDOG'], rule, f'bumble.sdp.Client.{name}', 'continuation loop bounded by a watchdog that decreases on every iteration', 'continuation loop is not bounded by a decreasing watchdog: a peer that always answers "more" keeps the client looping', p.loc(m))
        s = norm(m)
        R.check('continuation_state = response.continuation_state' in s and 'len(continuation_state) == 1' in s.replace('continuation_state[0] == 0', 'len(continuation_state) == 1') or 'response.continuation_state' in s, rule, f'bumble.sdp.Client.{name} | continuation echoed', 'the next request carries the state the server returned', 'continuation state handling changed', p.loc(m))
    try:
        wd = p.module_const('bumble.sdp', 'SDP_CONTINUATION_WATCHDOG')
        R.check(1 <= wd <= 1024, rule, 'bumble.sdp.SDP_CONTINUATION_WATCHDOG', f'{wd}', f'watchdog constant {wd} out of range', '')
    except Exception:
        R.bad(rule, 'bumble.sdp.SDP_CONTINUATION_WATCHDOG', 'anchor missing')


def avdtp_single(ctx):
    R, p = ctx.r, ctx.p
    rule = 'C19.avdtp-single'
    fn = p.find('bumble.avdtp.Protocol.send_message')
    if fn is None:
        R.bad(rule, 'bumble.avdtp.Protocol.send_message', 'anchor missing')
        return
    d = {dotted(n.targets[0]): norm(n.value) for n in walk_local(fn) if isinstance(n, ast.Assign) and len(n.targets) == 1 and isinstance(n.targets[0], ast.Name)}
    R.check(d.get('max_fragment_size') == 'self.l2cap_channel.peer_mtu - 3', rule, 'bumble.avdtp.Protocol.send_message | fragment size', 'fragments of peer_mtu - 3 bytes leave room for the 3-byte start header', f'max_fragment_size = {d.get("max_fragment_size")}', p.loc(fn))
    guard = next((n for n in fn.body if isinstance(n, ast.If) and 'SINGLE_PACKET' in norm(n)), None)
    R.check(guard is not None and norm(guard.test) == 'len(payload) + 2 <= self.l2cap_channel.peer_mtu', rule, 'bumble.avdtp.Protocol.send_message | single-packet guard', 'single packet iff payload + 2-byte header fits the peer MTU', f'single-packet guard is `{norm(guard.test) if guard else None}`', p.loc(fn))
    # the amount written for a single packet is the whole payload
    fs = [n.value for n in walk_local(fn) if isinstance(n, ast.Assign) and dotted(n.targets[0]) == 'fragment_size']
    ok = len(fs) == 1 and isinstance(fs[0], ast.IfExp) and norm(fs[0].test) == 'packet_type == self.PacketType.SINGLE_PACKET' and norm(fs[0].body) == 'len(payload)' and norm(fs[0].orelse) == 'max_fragment_size'
    writes = [c for c in calls_in(fn) if dotted(c.func) == 'self.l2cap_channel.write']
    wr_ok = len(writes) == 1 and norm(writes[0].args[0]) == 'header + payload[:fragment_size]'
    adv = [slice_parts(n.value) for n in walk_local(fn) if isinstance(n, ast.Assign) and dotted(n.targets[0]) == 'payload' and slice_parts(n.value)]
    R.check(ok and wr_ok and adv == [('payload', 'fragment_size', None)], rule, 'bumble.avdtp.Protocol.send_message | guard/slice agreement', 'a single packet carries all of the payload the guard admitted; what is written is what is consumed',
            'the single-packet guard admits payloads the slice then truncates (or written and consumed amounts differ): the tail goes out as a stray packet', p.loc(fn))
    # headers: single 2, start 3, others 1
    hdrs = [len(n.value.args[0].elts) for n in walk_local(fn) if isinstance(n, ast.Assign) and dotted(n.targets[0]) == 'header' and isinstance(n.value, ast.Call) and n.value.args and isinstance(n.value.args[0], ast.List)]
    R.check(sorted(hdrs) == [1, 2, 3], rule, 'bumble.avdtp.Protocol.send_message | header sizes', 'single 2, start 3, continue/end 1 byte', f'header sizes {hdrs}', p.loc(fn))
    # CONTINUE only while more than one fragment remains
    ife = [n for n in ast.walk(fn) if isinstance(n, ast.IfExp) and 'CONTINUE_PACKET' in norm(n)]
    ok = len(ife) == 1 and norm(ife[0].test) == 'len(payload) > max_fragment_size' and norm(ife[0].body).endswith('CONTINUE_PACKET') and norm(ife[0].orelse).endswith('END_PACKET')
    R.check(ok, rule, 'bumble.avdtp.Protocol.send_message | last fragment is END', 'CONTINUE iff more than one fragment remains (len > fragment), else END', 'the CONTINUE/END decision is not `len(payload) > max_fragment_size`: a message whose length is a multiple of the fragment size never gets its END packet', p.loc(fn))
    pc = [norm(n.value) for n in walk_local(fn) if isinstance(n, ast.Assign) and dotted(n.targets[0]) == 'packet_count']
    R.check(pc == ['(max_fragment_size - 1 + len(payload)) // max_fragment_size'], rule, 'bumble.avdtp.Protocol.send_message | packet count', 'ceil(len(payload) / fragment)', f'packet count {pc}', p.loc(fn))
    fh = [norm(n.value) for n in walk_local(fn) if isinstance(n, ast.Assign) and dotted(n.targets[0]) == 'first_header_byte']
    R.check(fh == ['transaction_label << 4 | packet_type << 2 | message.message_type'], rule, 'bumble.avdtp.Protocol.send_message | first header byte', 'label @4, packet type @2, message type @0', f'first header byte {fh}', p.loc(fn))
    asm = p.find('bumble.avdtp.MessageAssembler.on_pdu')
    if asm is not None:
        s = norm(asm)
        R.check('transaction_label = pdu[0] >> 4' in s and 'Protocol.PacketType(pdu[0] >> 2 & 3)' in s and 'Message.MessageType(pdu[0] & 3)' in s, rule, 'bumble.avdtp.MessageAssembler.on_pdu | first header byte', 'same bit layout on the receiving side', 'AVDTP header bit layout differs between sender and assembler', p.loc(asm))


def headers(ctx):
    R, p = ctx.r, ctx.p
    rule = 'C19.headers'
    # AVDTP assembler: payload offsets per packet type
    asm = p.find('bumble.avdtp.MessageAssembler.on_pdu')
    if asm is None:
        R.bad(rule, 'bumble.avdtp.MessageAssembler.on_pdu', 'anchor missing')
    else:
        s = norm(asm)
        R.check('self.message = pdu[2:]' in s and 'self.message = pdu[3:]' in s and "self.message = (self.message or b'') + pdu[1:]" in s and 'self.number_of_signal_packets = pdu[2]' in s, rule, 'bumble.avdtp.MessageAssembler.on_pdu | payload offsets', 'single skips 2, start skips 3 (count at 2), continue/end skip 1: the header sizes the sender writes', 'AVDTP assembler payload offsets do not match the sender\'s header sizes', p.loc(asm))
    # AVCTP
    a = p.find('bumble.avctp.MessageAssembler.on_pdu')
    snd = p.find('bumble.avctp.Protocol.send_message')
    if a is None or snd is None:
        R.bad(rule, 'bumble.avctp.MessageAssembler.on_pdu', 'anchor missing')
        return
    fmt = [const(c.args[0]) for c in calls_in(snd) if dotted(c.func) == 'struct.pack' and is_const(c.args[0])]
    R.check(fmt == ['>BH'], rule, 'bumble.avctp.Protocol.send_message | single header', '1 header byte + 2-byte PID', f'sender header format {fmt}', p.loc(snd))
    # per packet type: where the assembler starts taking payload
    # pid_offset = 1 (default), 2 for START; pid read at pid_offset for ALL types; payload from pid_offset + 2
    pid_reads = [n for n in walk_local(a) if isinstance(n, ast.Assign) and dotted(n.targets[0]) == 'pid']
    guarded_by_type = False
    for n in pid_reads:
        g = [norm(t) for t, pol in paths.flat_guards(n) if pol]
        if any('PacketType.SINGLE' in x or 'PacketType.START' in x for x in g):
            guarded_by_type = True
    R.check(guarded_by_type, rule, 'bumble.avctp.MessageAssembler.on_pdu | PID only in single/start packets', 'the profile identifier is read from SINGLE and START packets only (AVCTP 1.4, 6.1); CONTINUE/END have a 1-byte header',
            'the assembler strips a 2-byte profile identifier from CONTINUE and END packets too: a message fragmented as the AVCTP specification lays out loses 2 payload bytes per fragment and is rejected (PID mismatch)', p.loc(a))
    s = norm(a)
    R.check('self.number_of_packets = pdu[1]' in s and 'pid_offset = 2' in s, rule, 'bumble.avctp.MessageAssembler.on_pdu | start header', 'START: packet count at 1, PID at 2', 'AVCTP START header layout changed', p.loc(a))


def neutral(ctx):
    R, p = ctx.r, ctx.p
    rule = 'C19.neutral'
    fn = p.find('bumble.avdtp.MessageAssembler.on_pdu')
    if fn is None:
        R.bad(rule, 'bumble.avdtp.MessageAssembler.on_pdu', 'anchor missing')
        return

    class D(paths.Domain):
        def event(self, node, v):
            if isinstance(node, (ast.Assign, ast.AugAssign)):
                tg = node.targets if isinstance(node, ast.Assign) else [node.target]
                if any((dotted(t) or '').startswith('self.') for t in tg):
                    return ('dirty',)
            if isinstance(node, ast.Call) and dotted(node.func) in ('self.reset', 'self.on_message_complete'):
                return ('clean',)
            return (v,)

        def ret(self, node, v):
            return 'explicit'

    res = paths.run(fn, D(), 'clean')
    bad = [f'via {" ".join(w)}' for k, st in res.items() if k == 'ret:explicit' for v, w in st.items() if v == 'dirty']
    R.check(not bad, rule, 'bumble.avdtp.MessageAssembler.on_pdu | rejecting returns are state-neutral', 'every early return leaves the assembler untouched or reset (a packet is counted only after it was accepted)',
            'a rejected packet has already changed the assembler (e.g. the packet count): the next well-formed message fails its checks', p.loc(fn), bad)
    # completion resets
    oc = p.find('bumble.avdtp.MessageAssembler.on_message_complete')
    R.check(oc is not None and norm(oc.body[-1]) == 'self.reset()', rule, 'bumble.avdtp.MessageAssembler.on_message_complete', 'reset after delivery (also when the callback raises)', 'assembler is not reset after delivering a message', p.loc(oc) if oc else '')
    # the start packet is packet number 1, set after the reset of an interrupted message
    stm = [n for n in ast.walk(fn) if isinstance(n, ast.Assign) and norm(n) == 'self.packet_count = 1']
    ok = len(stm) == 1
    if ok:
        blk = stm[0]._parent.body
        idx = blk.index(stm[0])
        resets = [i for i, s in enumerate(blk) if isinstance(s, ast.If) and any(dotted(c.func) == 'self.reset' for c in calls_in(s))]
        ok = bool(resets) and max(resets) < idx
    R.check(ok, rule, 'bumble.avdtp.MessageAssembler.on_pdu | start packet counted after reset', 'an interrupting START resets first and is then counted as packet 1', 'the START packet is counted before the reset that discards the interrupted message', p.loc(fn))
    # AVCTP: every rejecting branch resets
    a = p.find('bumble.avctp.MessageAssembler.on_pdu')
    if a is not None:
        rej = [n for n in walk_local(a) if isinstance(n, ast.If) and any(isinstance(s, ast.Return) for s in n.body)]
        bad = [n for n in rej if not any(dotted(c.func) == 'self.reset' for s in n.body for c in calls_in(s))]
        R.check(bool(rej) and not bad, rule, 'bumble.avctp.MessageAssembler.on_pdu | rejecting returns reset', f'{len(rej)} rejecting branches all reset the assembler', f'{len(bad)} rejecting branch(es) keep a half-built message', p.loc(a))


# AVDTP 1.3 section 6 / 9: state the acceptor must be in for each command (None: any state)
REQUIRED_STATE = {
    'set_configuration': {'IDLE'},
    'get_configuration': {'CONFIGURED', 'OPEN', 'STREAMING'},
    'reconfigure': {'OPEN'},
    'open': {'CONFIGURED'},
    'start': {'OPEN'},
    'suspend': {'STREAMING'},
    'close': {'OPEN', 'STREAMING'},
    'abort': None,
    'security_control': None,
    'delay_report': None,
}


def stream_fsm(ctx):
    R, p = ctx.r, ctx.p
    rule = 'C19.stream-fsm'
    st = p.cls('bumble.avdtp.Stream')
    if st is None:
        R.bad(rule, 'bumble.avdtp.Stream', 'anchor missing')
        return
    n = 0
    for name, m in sorted(st.methods.items()):
        if not (name.startswith('on_') and name.endswith('_command')):
            continue
        cmd = name[3:-8]
        if cmd not in REQUIRED_STATE:
            R.bad(rule, f'bumble.avdtp.Stream.{name}', 'acceptor-side command without an entry in the required-state table', p.loc(m))
            continue
        want = REQUIRED_STATE[cmd]
        n += 1
        if want is None:
            R.ok(rule, f'bumble.avdtp.Stream.{name}', 'valid in every state (AVDTP 6.15/9.x)', p.loc(m))
            continue
        first = next((x for x in m.body if not (isinstance(x, ast.Expr) and is_const(x.value))), None)
        got = None
        if isinstance(first, ast.If) and isinstance(first.test, ast.Compare) and norm(first.test.left) == 'self.state' and len(first.test.ops) == 1:
            op, rhs = first.test.ops[0], first.test.comparators[0]
            if isinstance(op, ast.NotEq):
                got = {norm(rhs).split('.')[-1]}
            elif isinstance(op, ast.NotIn) and isinstance(rhs, (ast.Tuple, ast.List, ast.Set)):
                got = {norm(e).split('.')[-1] for e in rhs.elts}
        refusal_ok = got is not None and paths._always_leaves(first.body) and not any(dotted(c.func) == 'self.change_state' for s_ in first.body for c in calls_in(s_)) \
            and any(isinstance(s_, ast.Return) and s_.value is not None and 'BAD_STATE' in norm(s_.value) for s_ in first.body)
        R.check(got == want and refusal_ok, rule, f'bumble.avdtp.Stream.{name}', f'refused with BAD_STATE unless state in {sorted(want)}, before any effect; refusal changes nothing',
                f'{name} accepts the command in states {sorted(got) if got else "?"} (required: {sorted(want)}) or its refusal path has effects', p.loc(m))
    R.check(n >= 8, rule, 'bumble.avdtp.Stream | command handlers', f'{n} acceptor-side command handlers', f'only {n} command handlers found')


RULES = [
    ('C19.sdp-all', sdp_all),
    ('C19.sdp-client-state', sdp_client_state),
    ('C19.sdp-budget', sdp_budget),
    ('C19.sdp-watchdog', sdp_watchdog),
    ('C19.avdtp-single', avdtp_single),
    ('C19.headers', headers),
    ('C19.neutral', neutral),
    ('C19.stream-fsm', stream_fsm),
]

VARIANTS = [
    ('any instead of all', 'bumble/sdp.py', "            if all(\n                any(\n                    ServiceAttribute.is_uuid_in_value(uuid.value, attribute.value)\n                    for attribute in service\n                )\n                for uuid in search_pattern.value\n            ):", "            if any(\n                any(\n                    ServiceAttribute.is_uuid_in_value(uuid.value, attribute.value)\n                    for attribute in service\n                )\n                for uuid in search_pattern.value\n            ):", 'fire', 'C19.sdp-all'),
    ('shared sink again', 'bumble/sdp.py', "        channel.sink = lambda pdu: self.on_channel_pdu(channel, pdu)\n", "        channel.sink = self.on_pdu\n", 'fire', 'C19.sdp-client-state'),
    ('search capacity ignores the continuation bytes', 'bumble/sdp.py', "        maximum_service_record_count = (self.channel.peer_mtu - 11) // 4\n", "        maximum_service_record_count = (self.channel.peer_mtu - 9) // 4\n", 'fire', 'C19.sdp-budget'),
    ('final chunk test >=', 'bumble/sdp.py', "        if len(self.current_response) > maximum_size:\n", "        if len(self.current_response) >= maximum_size:\n", 'fire', 'C19.sdp-budget'),
    ('watchdog not decremented', 'bumble/sdp.py', "            watchdog -= 1\n\n        return service_record_handle_list", "            pass\n\n        return service_record_handle_list", 'fire', 'C19.sdp-watchdog'),
    ('single packet sliced to fragment size', 'bumble/avdtp.py', "            fragment_size = (\n                len(payload)\n                if packet_type == self.PacketType.SINGLE_PACKET\n                else max_fragment_size\n            )\n", "            fragment_size = max_fragment_size\n", 'fire', 'C19.avdtp-single'),
    ('last fragment labelled CONTINUE', 'bumble/avdtp.py', "                    if len(payload) > max_fragment_size\n", "                    if len(payload) >= max_fragment_size\n", 'fire', 'C19.avdtp-single'),
    ('packet counted before validation', 'bumble/avdtp.py', "    def on_pdu(self, pdu: bytes) -> None:\n        # Drop empty PDUs", "    def on_pdu(self, pdu: bytes) -> None:\n        self.packet_count += 1\n        # Drop empty PDUs", 'fire', 'C19.neutral'),
    ('benign: comment', 'bumble/avdtp.py', "            # Prepare for the next packet\n", "            # Get ready for the next packet\n", 'silent', ''),
]
