"""C03 — one HCI command outstanding; every command answered exactly once."""
from __future__ import annotations

import ast
from collections import namedtuple

from .. import paths
from ..core import FUNC, call_attr, calls_in, chain, dotted, kwarg, text, walk_local, norm, is_const, const

EXPLANATION = [
    "C03.lmp-answer-result: the peer's LMP accepted / not-accepted answers settle the pending-command futures with set_result(status) (their done-callbacks read future.result() as a status).",
    'C03.nop-events: Host.on_hci_command_complete_event and on_hci_command_status_event reach on_command_processed only on paths where event.command_opcode is known to be non-zero.',
    'C03.connect-ind-address: Controller.create_le_connection announces in CONNECT_IND the same address expression under which it registers its own Connection.',
    'C03.parse-guard-scope: the try of Controller.on_packet whose handler answers an unparseable command does not contain the dispatch to the command handlers.',
    'C03.cis-disconnect: the CIS branch of on_hci_disconnect_command concludes locally through on_le_cis_disconnected (which also removes a peripheral-side entry), in the same block in which it tells the peer.',
    'C03.abandoned-multiset: Host.abandoned_commands (one entry per response still owed) is created once and changed only by append / remove of a single opcode.',
    "C03.command-parse-guard: Controller.on_packet parses the raw packet under a catch-all handler that answers a command packet with a Command Status for the opcode read from the bytes; HCI_Object.format_fields (behind every packet's __str__, evaluated for the debug log before dispatch) takes max() over its rows only when there are rows.",
    'C03.address-equality: (shared with C06) Address.__eq__ compares the bytes and the public / random kind only: a pending LE Create Connection naming an identity-typed peer address matches the advertiser and is concluded.',
    'C03.status-helper: Controller._send_hci_command_status sends exactly one event and returns nothing: handlers that end with `return self._send_hci_command_status(...)` give the dispatcher nothing to turn into a second Command Status.',
    'C03.match-arms: in the match statements of the anchored modules no class arm comes after an arm for one of its base classes (class patterns are isinstance tests in order: the later arm would never run).',
    "C03.ready-gate: while the host is not ready (reset in progress) Host.on_packet still dispatches the Command Complete / Command Status whose opcode is the pending command's: a command queued behind reset() cannot lose its response and block the command semaphore.",
    "C03.le-connection-concluded: every exit of Controller.create_le_connection has emitted an LE Connection Complete event and cleared pending_le_connection (path rule), the 'already connected to this peer' exit included.",
    "C03.response-match: in Host.on_command_processed an event whose opcode differs from the pending command's does not resolve the pending future (path rule over the comparison). OPEN FINDING on the current tree (the mismatch is only logged), kept because the repair fails an existing test.",
    "C03.flag-width: every `<flag>.value.to_bytes(N)` in the virtual controller fits: the flag type's highest member (evaluated from the enum source) needs at most 8N bits, or the value is masked to the field first.",
    "C03.identity: no `is` / `is not` comparison in the anchored modules has an operand declared as a number, byte string or string (identity of equal integers holds only inside CPython's small-integer cache, so such a test is right for values up to 256 and wrong afterwards).",
    'C03.lmp-pending: Controller.send_lmp_packet returns on every path a future created by that very call and registers it under (peer, opcode) (same rule as C06.lmp-pending): a repeated procedure towards the same peer is not concluded by the stale answer of the previous one.',
    'C03.ll-coverage: every link-layer control PDU class the virtual controller constructs in a send_ll_control_pdu call has a matching `case` in on_ll_control_pdu (otherwise the HCI procedure that sent it is accepted as pending and never concluded, in one of the two roles).',
    'C03.host-complete: a Command Complete that only carries credits (opcode 0) never concludes the pending command: on_command_processed / set_result are reached only on paths where `event.command_opcode == 0` is excluded (symbolic path facts); the pending future is resolved once, under `if self.pending_response`.',
    'C03.lmp-answers: each classic LMP request the virtual controller accepts is answered by exactly one response naming that request; the responder side answers the request it received, and in every function unit of a responder (method body or nested callback) no path reaches the local conclusion of the procedure (or the normal exit) without the LMP answer having been sent or handed to a nested callback that sends it on all its paths.',
    'C03.solicited-replies: for every HCI event with which the virtual controller asks its host to accept or refuse a procedure a peer has pending (Connection Request, LE CIS Request) the controller implements every reply command of the specification, and a refusal is sent on to the peer.',
    'C03.host-send: typestate walk of Host._send_command over all normal and '
    'exceptional exits (acquire -> pending slots set -> send; every exit clears '
    'both slots and reaches the release), who-may-send census of '
    'send_hci_packet call sites, locked()-guard on every other release.',
    'C03.controller-reply: for every registered HCI command class (and the '
    'unknown-opcode case) compose class kind x handler path summary (reply '
    'calls per path, returns value/None) x the dispatcher\'s own branches and '
    'require exactly one Command Complete/Status. A send to the virtual link (send_ll_control_pdu / send_lmp_packet) may raise '
    'InvalidArgumentError when nobody on the link owns the destination: on that exit the handler must have replied exactly once itself.',
    'C03.procedures: every procedure accepted as pending reaches its '
    'completion event, a registered continuation or a pending slot on every '
    'path; cancel concludes the pending procedure. For all ten procedures the link send is modelled as possibly raising '
    '(peer unreachable or gone from the link): the exceptional exit after acceptance must also have concluded the procedure.',
    'Not decided: opcode matching under delivery delays, liveness when the peer '
    'stops answering without leaving the link (schedules).',
]
ASSUMPTIONS = [
    'asyncio callbacks run to completion (no pre-emption between statements without await)',
    'Controller.link is never None: every assignment is `x or <constructor>()` (checked on every run)',
    'implicit exceptions inside controller handlers are not modelled (only explicit control flow)',
]

HOST = 'bumble.host.Host'
CTRL = 'bumble.controller.Controller'


# ---------------------------------------------------------------------------
# C03.host-send
# ---------------------------------------------------------------------------
HS = namedtuple('HS', 'acq pr pc sent clr_r clr_c rel considered resp bad')


class HostSendDomain(paths.Domain):
    implicit_raise = True
    cancel_at_await = True  # the caller of send_command may be cancelled while it waits for the semaphore or the response

    def __init__(self, fn, resp_var, release_ifs):
        self.fn = fn
        self.resp_var = resp_var
        self.release_ifs = release_ifs

    def _in_release_if(self, atom):
        n = atom
        while n is not None and n is not self.fn:
            p = getattr(n, '_parent', None)
            if p in self.release_ifs and self._within(atom, p.test):
                return True
            n = p
        return False

    @staticmethod
    def _within(node, root):
        return any(x is node for x in ast.walk(root))

    def event(self, node, v: HS):
        if isinstance(node, ast.Await) and isinstance(node.value, ast.Call) and dotted(node.value.func) == 'self.command_semaphore.acquire':
            return (v._replace(acq=1),)
        if isinstance(node, ast.Call):
            c = dotted(node.func) or ''
            if c == 'self.command_semaphore.acquire':
                if isinstance(getattr(node, '_parent', None), ast.Await):
                    return (v,)  # held only once the await has completed (a cancellation while waiting holds nothing)
                return (v._replace(acq=1),)
            if c == 'self.command_semaphore.release':
                return (v._replace(rel=1),)
            if c == 'self.send_hci_packet':
                bad = v.bad
                if not (v.acq and v.pr and v.pc):
                    bad = 'command handed to the transport before the semaphore is held and both pending slots are set'
                return (v._replace(sent=1, bad=bad),)
        if isinstance(node, ast.Assign):
            for t in node.targets:
                d = dotted(t)
                none = isinstance(node.value, ast.Constant) and node.value.value is None
                if d == 'self.pending_response':
                    v = v._replace(clr_r=1) if none else v._replace(pr=1, clr_r=0, bad=v.bad or (None if v.acq else 'pending_response set before acquire'))
                elif d == 'self.pending_command':
                    v = v._replace(clr_c=1) if none else v._replace(pc=1, clr_c=0, bad=v.bad or (None if v.acq else 'pending_command set before acquire'))
                elif d == self.resp_var:
                    v = v._replace(resp=0 if none else 1)
        if isinstance(node, ast.AnnAssign) and dotted(node.target) == self.resp_var:
            none = node.value is None or (isinstance(node.value, ast.Constant) and node.value.value is None)
            v = v._replace(resp=0 if none else 1)
        return (v,)

    def may_raise(self, call):
        c = dotted(call.func) or ''
        # the logger and the semaphore release do not raise
        if c.startswith('logger.') or c in ('self.command_semaphore.release', 'self.command_semaphore.locked', 'color'):
            return False
        # creating a future on the running loop does not fail
        if c == 'asyncio.get_running_loop' or call_attr(call) == 'create_future':
            return False
        return True

    def assume(self, atom, truth, v: HS):
        if self._in_release_if(atom):
            v = v._replace(considered=1)
            t = norm(atom)
            if t == f'{self.resp_var} is None' and not v.resp and not truth:
                return ()
            if t == f'{self.resp_var} is not None' and not v.resp and truth:
                return ()
        return (v,)


def host_send(ctx):
    R, p = ctx.r, ctx.p
    rule = 'C03.host-send'
    fn = p.find(f'{HOST}._send_command')
    if fn is None:
        R.bad(rule, f'{HOST}._send_command', 'anchor missing: ' + f'{HOST}._send_command')
        return
    # Host.on_packet drops every packet but the Reset Command Complete while `ready` is False: waiting for the command in
    # flight (flush() takes the command semaphore) must therefore happen before `ready` is cleared, never after
    rs = p.find(f'{HOST}.reset')
    op = p.find(f'{HOST}.on_packet')
    if rs is None or op is None:
        R.bad(rule, f'{HOST}.reset / on_packet', 'anchor missing')
    else:
        late = []

        class Order(paths.Domain):
            def event(self, node, v):
                if isinstance(node, ast.Assign) and dotted(node.targets[0]) == 'self.ready' and norm(node.value) == 'False':
                    return (True,)
                if isinstance(node, ast.Assign) and dotted(node.targets[0]) == 'self.ready' and norm(node.value) == 'True':
                    return (False,)
                if isinstance(node, ast.Call) and dotted(node.func) == 'self.flush' and v:
                    late.append(node.lineno)
                return (v,)
        paths.run(rs, Order(), False)
        gated = any(isinstance(n, ast.If) and 'self.ready' in norm(n.test) for n in walk_local(op))
        R.check(gated and not late and any(dotted(c.func) == 'self.flush' for c in calls_in(rs)), rule, f'{HOST}.reset | waits for the pending command while still ready', 'flush() (which takes the command semaphore) is awaited before `ready` is cleared',
                f'reset() clears `ready` and then waits for the command semaphore (line {sorted(set(late))}): the response of a command in flight is dropped by on_packet (host not ready), its caller never resumes and reset() never gets the semaphore', p.loc(rs))
    # the local that receives the awaited response
    resp_var = None
    for n in walk_local(fn):
        if isinstance(n, ast.Assign) and isinstance(n.value, ast.Await) and 'pending_response' in text(n.value):
            resp_var = dotted(n.targets[0])
    release_ifs = set()
    for n in walk_local(fn):
        if isinstance(n, ast.If) and any(
            dotted(c.func) == 'self.command_semaphore.release' for c in calls_in(n) if any(c is x for s in n.body for x in ast.walk(s))
        ):
            release_ifs.add(n)
    dom = HostSendDomain(fn, resp_var or '<none>', release_ifs)
    res = paths.run(fn, dom, HS(0, 0, 0, 0, 0, 0, 0, 0, 0, None))
    key = f'{HOST}._send_command'
    n_paths = 0
    for kind, st in res.items():
        if kind == 'raise:AssertionError':
            continue  # a failed assert means the invariant was already broken
        for v, w in st.items():
            n_paths += 1
            where = f'{kind} via {" ".join(w)}'
            if v.bad:
                R.bad(rule, f'{key} | order', v.bad, p.loc(fn), where)
            if not v.acq:
                continue  # exception/cancel while waiting for the semaphore: nothing held
            if not (v.clr_r and v.clr_c) and (v.pr or v.pc):
                R.bad(rule, f'{key} | exit leaves pending slot set', f'exit {kind} leaves pending_command/pending_response set', p.loc(fn), where)
            if kind.startswith('raise'):
                if not v.rel:
                    R.bad(rule, f'{key} | exceptional exit keeps the semaphore', f'exit {kind} (no response received) does not release command_semaphore', p.loc(fn), where)
            elif not (v.rel or v.considered):
                R.bad(rule, f'{key} | normal exit skips release', f'exit {kind} does not reach the conditional release', p.loc(fn), where)
            if kind.startswith('ret') and not v.sent:
                R.bad(rule, f'{key} | returns without sending', 'returns a response without having sent the command', p.loc(fn), where)
    sent_any = any(v.sent for st in res.values() for v in st)
    R.check(sent_any, rule, f'{key} | sends', 'command is handed to send_hci_packet after acquire with both pending slots set', 'no path sends the command', p.loc(fn))
    if not any(o.status == 'bad' and o.key.startswith(key) for o in R.obs):
        R.ok(rule, f'{key} | exits', f'{n_paths} abstract exit states: every exit after acquire clears both pending slots; every exceptional exit releases; every normal exit reaches the conditional release', p.loc(fn))
    if not resp_var:
        R.bad(rule, f'{key} | response await', 'no `x = await ...pending_response...` found', p.loc(fn))

    # release sites elsewhere in Host: guarded by locked() or paired with an acquire in the same function
    host = p.cls(HOST)
    n_rel = 0
    for name, m in sorted(host.methods.items()):
        for c in calls_in(m):
            if dotted(c.func) == 'self.command_semaphore.release':
                n_rel += 1
                k = f'{HOST}.{name} | release'
                if m is fn:
                    continue
                guards = [norm(t) for t, pol in paths.flat_guards(c) if pol]
                has_locked = any('self.command_semaphore.locked()' in g for g in guards)
                paired = any(dotted(x.func) == 'self.command_semaphore.acquire' and x.lineno < c.lineno for x in calls_in(m))
                R.check(has_locked or paired, rule, k, 'release guarded by locked() or paired with acquire', 'release of command_semaphore neither guarded by locked() nor paired with an acquire', p.loc(c))
    # who may send a command
    who_may_send(ctx, rule)


ALLOWED_SENDERS = {
    # vendor firmware download before the host is `ready`, with its own pacing
    'bumble.drivers.intel': 'Intel firmware download: own pacing before host is ready',
    'bumble.drivers.rtk': 'Realtek firmware drop command: fire and forget before reset',
}


def _looks_like_command(arg, fn) -> bool:
    t = text(arg)
    if isinstance(arg, ast.Call):
        return (call_attr(arg) or '').endswith('_Command')
    if isinstance(arg, ast.Name) and fn is not None:
        # parameter annotated as a command, or assigned from a *_Command constructor
        for a in fn.args.args + fn.args.kwonlyargs:
            if a.arg == arg.id and a.annotation is not None and 'Command' in text(a.annotation):
                return True
        for n in walk_local(fn):
            if isinstance(n, ast.Assign) and any(dotted(x) == arg.id for x in n.targets):
                if isinstance(n.value, ast.Call) and (call_attr(n.value) or '').endswith('_Command'):
                    return True
        return 'command' in arg.id.lower()
    return 'command' in t.lower()


def who_may_send(ctx, rule):
    R, p = ctx.r, ctx.p
    prog = ctx.wide if ctx.tier == 'thorough' else p
    n = 0
    for fn in prog.functions(''):
        m = fn._module
        if m.name == 'bumble.controller':
            continue
        for c in calls_in(fn, include_lambda=True):
            if call_attr(c) != 'send_hci_packet' or not c.args:
                continue
            if paths_enclosing_function(c) is not fn:
                continue
            recv = dotted(c.func.value) if isinstance(c.func, ast.Attribute) else ''
            cls = prog.class_of(fn)
            if recv == 'self' and (cls is None or cls.qual != HOST):
                continue  # some other class's own send_hci_packet
            if not _looks_like_command(c.args[0], fn):
                continue
            n += 1
            q = prog.qual_of(fn)
            key = f'{q} | send_hci_packet({norm(c.args[0])[:60]})'
            if q == f'{HOST}._send_command':
                R.ok(rule, key, 'the one sanctioned command send site', prog.loc(c))
            elif m.name in ALLOWED_SENDERS:
                R.ok(rule, key, 'named exception: ' + ALLOWED_SENDERS[m.name], prog.loc(c))
            else:
                R.bad(rule, key, 'an HCI command is handed to the transport outside Host._send_command (bypasses the one-outstanding discipline)', prog.loc(c))
    # nobody else writes to the sink directly
    for fn in prog.functions('bumble.host'):
        for c in calls_in(fn):
            if dotted(c.func) == 'self.hci_sink.on_packet' and prog.qual_of(fn) != f'{HOST}.send_hci_packet':
                R.bad(rule, f'{prog.qual_of(fn)} | hci_sink.on_packet', 'packet handed to the sink outside Host.send_hci_packet', prog.loc(c))
    R.floor(rule, 5)


def paths_enclosing_function(node):
    p = getattr(node, '_parent', None)
    while p is not None and not isinstance(p, FUNC):
        p = getattr(p, '_parent', None)
    return p


# ---------------------------------------------------------------------------
# C03.controller-reply
# ---------------------------------------------------------------------------
def command_classes(p):
    """[(ClassInfo, kind)] for every class registered with @HCI_Command.command
    or @HCI_SyncCommand.sync_command(...); kind in sync/async/plain."""
    out = []
    for c in p.classes.values():
        if c.module.name != 'bumble.hci' and not c.module.name.startswith('bumble.vendor') and not c.module.name.startswith('bumble.drivers'):
            continue
        deco = [text(d) for d in c.node.decorator_list]
        if not any(d.endswith('HCI_Command.command') or 'sync_command(' in d for d in deco):
            continue
        kind = 'plain'
        if p.is_subclass(c.qual, 'bumble.hci.HCI_SyncCommand'):
            kind = 'sync'
        elif p.is_subclass(c.qual, 'bumble.hci.HCI_AsyncCommand'):
            kind = 'async'
        out.append((c, kind))
    return sorted(out, key=lambda x: x[0].qual)


def link_never_none(ctx, rule) -> bool:
    """Justify pruning of `self.link is None`: census of assignments."""
    R, p = ctx.r, ctx.p
    ok, n = True, 0
    for fn in p.functions('bumble'):
        for s in walk_local(fn):
            if isinstance(s, (ast.Assign, ast.AnnAssign)):
                targets = s.targets if isinstance(s, ast.Assign) else [s.target]
                for t in targets:
                    if isinstance(t, ast.Attribute) and t.attr == 'link':
                        cls = p.class_of(fn)
                        owner = dotted(t.value)
                        if not ((owner == 'self' and cls and cls.qual == CTRL) or owner in ('controller', 'self.controller')):
                            continue
                        n += 1
                        v = s.value
                        good = (
                            isinstance(v, ast.BoolOp) and isinstance(v.op, ast.Or) and isinstance(v.values[-1], ast.Call)
                        ) or isinstance(v, ast.Call)
                        if not good:
                            ok = False
    R.check(ok and n >= 1, rule, f'{CTRL}.link | non-None census', f'{n} assignment(s), all of the form `x or <ctor>()`: guards on `link is None` are infeasible', 'Controller.link may be None: pruning of link guards is not justified', '')
    return ok and n >= 1


CS = namedtuple('CS', 'n')


class ReplyCount(paths.Domain):
    """Counts reply events in a controller command handler."""

    def __init__(self, prune_link, summaries=None, self_methods=None):
        self.prune_link = prune_link
        self.summaries = summaries or {}

    @staticmethod
    def is_reply(call) -> int:
        a = call_attr(call)
        if a == '_send_hci_command_status':
            return 1
        if a == 'send_hci_packet' and call.args and isinstance(call.args[0], ast.Call):
            inner = call_attr(call.args[0]) or ''
            if inner in ('HCI_Command_Complete_Event', 'HCI_Command_Status_Event'):
                return 1
        return 0

    def may_raise(self, call):
        # the virtual link raises InvalidArgumentError when nobody on the link owns the destination address
        if call_attr(call) in ('send_ll_control_pdu', 'send_lmp_packet'):
            return 'InvalidArgumentError'
        return False

    def event(self, node, v):
        if isinstance(node, ast.Call):
            k = self.is_reply(node)
            if not k:
                d = dotted(node.func) or ''
                if d.startswith('self.') and d.count('.') == 1:
                    s = self.summaries.get(d[5:])
                    if s:
                        return tuple({min(2, v + x) for x in s})
            if k:
                return (min(2, v + k),)
        return (v,)

    def assume(self, atom, truth, v):
        if self.prune_link:
            t = norm(atom)
            if t == 'self.link is None':
                return () if truth else (v,)
            if t == 'self.link is not None' or t == 'self.link':
                return (v,) if truth else ()
        return (v,)

    def ret(self, node, v):
        val = node.value
        if val is None or (isinstance(val, ast.Constant) and val.value is None):
            return 'none'
        if isinstance(val, ast.Call) and call_attr(val) == '_send_hci_command_status':
            return 'none'  # returns None (checked: the helper has no return value)
        return 'value'


DS = namedtuple('DS', 'sync none n')


class DispatchDomain(paths.Domain):
    """Evaluate the dispatcher for a fixed (is_sync, handler returned None)."""

    def __init__(self, result_var, command_var):
        self.result_var, self.command_var = result_var, command_var

    def event(self, node, v: DS):
        if isinstance(node, ast.Call) and ReplyCount.is_reply(node):
            return (v._replace(n=min(2, v.n + 1)),)
        return (v,)

    def assume(self, atom, truth, v: DS):
        t = norm(atom)
        if t.startswith(f'isinstance({self.command_var},') and 'HCI_SyncCommand' in t:
            return (v,) if truth == bool(v.sync) else ()
        if t == f'{self.result_var} is None':
            return (v,) if truth == bool(v.none) else ()
        if t == f'{self.result_var} is not None':
            return (v,) if truth != bool(v.none) else ()
        return (v,)


def controller_reply(ctx):
    R, p = ctx.r, ctx.p
    rule = 'C03.controller-reply'
    ctl = p.cls(CTRL)
    disp = p.find(f'{CTRL}.on_hci_command_packet')
    dflt = p.find(f'{CTRL}.on_hci_command')
    stat = p.find(f'{CTRL}._send_hci_command_status')
    for q, n in ((f'{CTRL}.on_hci_command_packet', disp), (f'{CTRL}.on_hci_command', dflt), (f'{CTRL}._send_hci_command_status', stat)):
        if n is None:
            R.bad(rule, q, f'anchor missing: {q}')
    if disp is None or dflt is None or stat is None or ctl is None:
        return
    prune = link_never_none(ctx, rule)

    # --- the dispatcher: how is the handler found, which variable is the result
    handler_pat = None
    result_var = None
    default_name = None
    for n in walk_local(disp):
        if isinstance(n, ast.Call) and call_attr(n) == 'getattr' and len(n.args) == 3:
            default_name = dotted(n.args[2])
        if isinstance(n, ast.JoinedStr):
            s = ''.join(x.value if isinstance(x, ast.Constant) else '{' + norm(x.value) + '}' for x in n.values)
            if s.startswith('on_'):
                handler_pat = s
        if isinstance(n, (ast.Assign, ast.AnnAssign)) and isinstance(n.value, ast.Call) and dotted(n.value.func) == 'handler':
            result_var = dotted(n.targets[0] if isinstance(n, ast.Assign) else n.target)
    command_var = disp.args.args[1].arg if len(disp.args.args) > 1 else 'command'
    ok = R.check(
        handler_pat == 'on_{' + f'{command_var}.name.lower()' + '}' and default_name == 'self.on_hci_command' and result_var,
        rule, f'{CTRL}.on_hci_command_packet | dispatch idiom',
        f'handler = getattr(self, f"{handler_pat}", {default_name}); result in `{result_var}`',
        f'dispatch idiom not recognised (pattern={handler_pat!r} default={default_name!r} result={result_var!r})',
        p.loc(disp))
    if not ok:
        return
    dtable = {}
    for sync in (1, 0):
        for none in (1, 0):
            res = paths.run(disp, DispatchDomain(result_var, command_var), DS(sync, none, 0))
            counts = {v.n for st in paths.normal_exits(res).values() for v in [st]} if False else {v.n for v in paths.normal_exits(res)}
            dtable[(sync, none)] = counts
    R.extra['dispatcher_table'] = {f'sync={s},handler_returned_none={n}': sorted(c) for (s, n), c in dtable.items()}

    # reply constructors carry the command's opcode and a positive credit
    for fn, label in ((disp, 'Command Complete'), (stat, 'Command Status')):
        for c in calls_in(fn):
            nm = call_attr(c) or ''
            if nm in ('HCI_Command_Complete_Event', 'HCI_Command_Status_Event'):
                npk = kwarg(c, 'num_hci_command_packets')
                opc = kwarg(c, 'command_opcode')
                good_n = npk is not None and is_const(npk) and const(npk) >= 1
                if fn is disp:
                    good_o = opc is not None and norm(opc) == f'{command_var}.op_code'
                else:
                    params = [a.arg for a in fn.args.args]
                    good_o = opc is not None and isinstance(opc, ast.Name) and opc.id in params
                R.check(good_n, rule, f'{p.qual_of(fn)} | {nm}.num_hci_command_packets', f'literal {text(npk)} >= 1 (host may send the next command)', f'{label} does not return a command credit (num_hci_command_packets={text(npk)})', p.loc(c))
                R.check(good_o, rule, f'{p.qual_of(fn)} | {nm}.command_opcode', f'opcode taken from {text(opc)}', f'{label} does not carry the opcode of the command being answered ({text(opc)})', p.loc(c))
    # all _send_hci_command_status callers pass <command>.op_code of their own parameter
    # helper summaries for methods that reply on behalf of handlers (depth 1..3)
    summaries = {}
    for _ in range(3):
        for name, m in ctl.methods.items():
            if name.startswith('on_hci_') or name in ('_send_hci_command_status', 'send_hci_packet', 'on_hci_command_packet'):
                continue
            if not any(ReplyCount.is_reply(c) or (dotted(c.func) or '')[5:] in summaries for c in calls_in(m)):
                continue
            res = paths.run(m, ReplyCount(prune, summaries), 0)
            cs = set(paths.normal_exits(res))
            if cs and cs != {0}:
                summaries[name] = cs

    # --- handler summaries
    handlers = {n: m for n, m in ctl.methods.items() if n.startswith('on_hci_') and n.endswith('_command') and m is not dflt}
    hsum = {}
    for name, m in sorted(handlers.items()):
        res = paths.run(m, ReplyCount(prune, summaries), 0)
        outs = set()
        wit = {}
        for kind, st in res.items():
            if kind == 'raise:InvalidArgumentError':
                # the peer cannot be reached: the handler is left by the exception, the dispatcher adds nothing
                for v, w in st.items():
                    outs.add(('unreachable-peer', v))
                    wit[('unreachable-peer', v)] = w
                continue
            if kind.startswith('raise'):
                continue
            rk = 'none' if kind in ('fall', 'ret:none') else 'value'
            for v, w in st.items():
                outs.add((rk, v))
                wit[(rk, v)] = w
        hsum[name] = (outs, wit)
    dsum = paths.run(dflt, ReplyCount(prune, summaries), 0)
    douts = set()
    for kind, st in dsum.items():
        if kind.startswith('raise'):
            continue
        rk = 'none' if kind in ('fall', 'ret:none') else 'value'
        for v in st:
            douts.add((rk, v))

    # --- compose per registered class
    classes = command_classes(p)
    kinds = {'sync': 0, 'async': 0, 'plain': 0}
    cases = [(c.name, kind, c) for c, kind in classes] + [('<unknown opcode: generic HCI_Command>', 'plain', None)]
    n_with_handler = 0
    for cname, kind, c in cases:
        kinds[kind] += 1
        hname = 'on_' + cname.lower()
        if c is not None and hname in handlers:
            outs, wit = hsum[hname]
            via = f'{CTRL}.{hname}'
            loc = p.loc(handlers[hname])
            n_with_handler += 1
        else:
            outs, wit = douts, {}
            via = f'{CTRL}.on_hci_command (default)'
            loc = p.loc(dflt)
        sync = 1 if kind == 'sync' else 0
        problems = []
        for rk, n in sorted(outs):
            if rk == 'unreachable-peer':
                if n != 1:
                    problems.append(f'the link send raises (peer not reachable) with {n} reply call(s) made: the command gets {n} replies' + (f' (via {" ".join(wit.get((rk, n), ()))})' if wit.get((rk, n)) else ''))
                continue
            for d in sorted(dtable[(sync, 1 if rk == 'none' else 0)]):
                total = n + d
                if total != 1:
                    problems.append(
                        f'path returning {rk} with {n} reply call(s) in the handler + {d} from the dispatcher = {total} replies'
                        + (f' (via {" ".join(wit.get((rk, n), ()))})' if wit.get((rk, n)) else '')
                    )
        key = f'{cname} | {kind} | {via.split(".")[-1]}'
        if problems:
            R.bad(rule, key, f'{cname} ({kind}) handled by {via}: ' + '; '.join(problems), loc)
        else:
            R.ok(rule, key, f'exactly one Command Complete/Status on each of {len(outs)} abstract path outcome(s)', loc)
    R.extra['command_classes'] = kinds
    R.extra['handlers'] = len(handlers)
    # handlers that match no registered class are dead code (dispatch by name)
    names = {('on_' + c.name.lower()) for c, _ in classes}
    for hname, m in sorted(handlers.items()):
        if hname not in names:
            R.bad(rule, f'{CTRL}.{hname} | unreachable handler', 'handler name matches no registered command class (dispatch is by class name)', p.loc(m))
    R.floor(rule, 190, 'command classes')


# ---------------------------------------------------------------------------
# C03.procedures
# ---------------------------------------------------------------------------
def _calls_named(fn, names):
    return [c for c in calls_in(fn, include_lambda=True) if call_attr(c) in names]


def _constructs(fn, cls_name):
    return [c for c in calls_in(fn, include_lambda=True) if call_attr(c) == cls_name]


class Reach:
    """Intra-class reachability: does method `m` (transitively, depth<=4,
    through self.<method>() calls and add_done_callback/lambda bodies) contain
    a construction of event class E or a call to one of `targets`?"""

    def __init__(self, p, ci):
        self.p, self.ci = p, ci

    def reaches(self, fn, pred, depth=4, seen=None):
        seen = seen or set()
        if id(fn) in seen:
            return False
        seen.add(id(fn))
        for n in walk_local(fn, include_lambda=True):
            if isinstance(n, ast.Call) and pred(n):
                return True
        if depth == 0:
            return False
        for n in walk_local(fn, include_lambda=True):
            tgt = None
            if isinstance(n, ast.Call):
                d = dotted(n.func) or ''
                if d.startswith('self.') and d.count('.') == 1:
                    tgt = d[5:]
            elif isinstance(n, ast.Attribute) and isinstance(n.value, ast.Name) and n.value.id == 'self' and n.attr in self.ci.methods:
                tgt = n.attr  # method value passed as a callback
            if tgt and tgt in self.ci.methods:
                if self.reaches(self.ci.methods[tgt], pred, depth - 1, seen):
                    return True
        # nested functions defined in fn (closures used as callbacks)
        for n in ast.walk(fn):
            if isinstance(n, FUNC) and n is not fn:
                if self.reaches(n, pred, depth - 1, seen):
                    return True
        return False


PS = namedtuple('PS', 'status concluded')


class ProcDomain(paths.Domain):
    """After a PENDING/SUCCESS Command Status, every path must conclude:
    emit the completion (directly or through a helper that reaches it), hand
    the procedure to the link / a continuation, or store the pending slot."""

    def __init__(self, reach, conclude_pred, prune_link, error_status=True, peer_may_be_absent=False):
        self.reach, self.conclude_pred, self.prune = reach, conclude_pred, prune_link
        self.peer_may_be_absent = peer_may_be_absent

    def may_raise(self, call):
        # the virtual link raises when nobody owns the destination address
        if self.peer_may_be_absent and (call_attr(call) in ('send_ll_control_pdu', 'send_lmp_packet') or (dotted(call.func) or '').startswith('self.link.')):
            return 'InvalidArgumentError'
        return None

    def event(self, node, v: PS):
        if isinstance(node, ast.Call):
            if call_attr(node) == '_send_hci_command_status' and node.args:
                st = text(node.args[0])
                accepted = st.endswith('.PENDING') or st.endswith('.SUCCESS') or st.endswith('COMMAND_STATUS_PENDING')
                return (v._replace(status='accepted' if accepted else 'refused'),)
            if self.conclude_pred(node):
                return (v._replace(concluded=1),)
            d = dotted(node.func) or ''
            if d.startswith('self.') and d.count('.') == 1 and d[5:] in self.reach.ci.methods:
                if self.reach.reaches(self.reach.ci.methods[d[5:]], self.conclude_pred):
                    return (v._replace(concluded=1),)
        if isinstance(node, ast.Assign):
            for t in node.targets:
                if self.conclude_pred(t):
                    return (v._replace(concluded=1),)
        return (v,)

    def assume(self, atom, truth, v):
        if self.prune:
            t = norm(atom)
            if t == 'self.link is None':
                return () if truth else (v,)
            if t in ('self.link is not None', 'self.link'):
                return (v,) if truth else ()
        return (v,)

    def loop_nonempty(self, stmt):
        # loops over the command's own parameter arrays: the specification
        # gives every such count a minimum of 1 (e.g. CIS_Count 0x01..0x1F)
        return 'command.' in text(stmt.iter)


def procedures(ctx):
    R, p = ctx.r, ctx.p
    rule = 'C03.procedures'
    ctl = p.cls(CTRL)
    if ctl is None:
        R.bad(rule, CTRL, 'anchor missing: ' + CTRL)
        return
    reach = Reach(p, ctl)
    prune = True

    def ctor(*names):
        return lambda n: isinstance(n, ast.Call) and call_attr(n) in names

    def any_of(*preds):
        return lambda n: any(pr(n) for pr in preds)

    def link_call(*names):
        return lambda n: isinstance(n, ast.Call) and (dotted(n.func) or '').startswith('self.link.') and call_attr(n) in names

    def send_pdu(*pdus):
        # self.send_ll_control_pdu(addr, ll.X(...)) / self.send_lmp_packet(addr, lmp.X(...))
        def pred(n):
            if not isinstance(n, ast.Call) or call_attr(n) not in ('send_ll_control_pdu', 'send_lmp_packet'):
                return False
            return any(isinstance(a, ast.Call) and call_attr(a) in pdus for a in n.args)
        return pred

    def slot_store(attr):
        return lambda n: isinstance(n, ast.Attribute) and isinstance(n.ctx, ast.Store) and dotted(n) == f'self.{attr}'

    def method_ref(name):
        # add_done_callback(lambda: self.name(...)) is found through Reach; here: direct call
        return lambda n: isinstance(n, ast.Call) and dotted(n.func) == f'self.{name}'

    # (start handler, what concludes or continues the procedure after acceptance, response arm that must reach completion)
    PROCS = [
        ('on_hci_le_create_connection_command', any_of(slot_store('pending_le_connection'), ctor('HCI_LE_Connection_Complete_Event', 'HCI_LE_Enhanced_Connection_Complete_Event')), 'LE create connection'),
        ('on_hci_le_extended_create_connection_command', any_of(slot_store('pending_le_connection'), ctor('HCI_LE_Connection_Complete_Event', 'HCI_LE_Enhanced_Connection_Complete_Event')), 'LE extended create connection'),
        ('on_hci_create_connection_command', any_of(ctor('HCI_Connection_Complete_Event'), lambda n: isinstance(n, ast.Call) and call_attr(n) == 'add_done_callback', send_pdu('LmpHostConnectionReq')), 'classic create connection'),
        ('on_hci_disconnect_command', any_of(ctor('HCI_Disconnection_Complete_Event'), send_pdu('TerminateInd', 'LmpDetach'), link_call('disconnect', 'classic_disconnect', 'classic_sco_disconnect', 'disconnect_cis')), 'disconnect'),
        ('on_hci_le_read_remote_features_command', any_of(ctor('HCI_LE_Read_Remote_Features_Complete_Event'), send_pdu('FeatureReq', 'PeripheralFeatureReq')), 'LE read remote features'),
        ('on_hci_read_remote_supported_features_command', any_of(ctor('HCI_Read_Remote_Supported_Features_Complete_Event'), send_pdu('LmpFeaturesReq')), 'read remote supported features'),
        ('on_hci_read_remote_extended_features_command', any_of(ctor('HCI_Read_Remote_Extended_Features_Complete_Event'), send_pdu('LmpFeaturesReqExt')), 'read remote extended features'),
        ('on_hci_remote_name_request_command', any_of(ctor('HCI_Remote_Name_Request_Complete_Event'), send_pdu('LmpNameReq')), 'remote name request'),
        ('on_hci_le_enable_encryption_command', any_of(ctor('HCI_Encryption_Change_Event', 'HCI_Encryption_Change_V2_Event'), send_pdu('EncReq'), link_call('on_connection_encrypted')), 'LE enable encryption'),
        ('on_hci_le_create_cis_command', any_of(ctor('HCI_LE_CIS_Established_Event'), send_pdu('CisReq'), link_call('create_cis')), 'LE create CIS'),
        ('on_hci_accept_connection_request_command', any_of(ctor('HCI_Connection_Complete_Event'), method_ref('on_classic_connection_complete'), lambda n: isinstance(n, ast.Call) and call_attr(n) == 'add_done_callback'), 'classic accept connection'),
    ]
    for hname, pred, label in PROCS:
        fn = ctl.methods.get(hname)
        key = f'{CTRL}.{hname} | {label}'
        if fn is None:
            R.bad(rule, key, f'anchor missing: {CTRL}.{hname}')
            continue
        absent = True  # the peer may not (or no longer) be on the link: the virtual link raises when nobody owns the destination
        dom = ProcDomain(reach, pred, prune, peer_may_be_absent=absent)
        res = paths.run(fn, dom, PS(None, 0))
        bad = []
        n = 0
        for kind, st in res.items():
            if kind.startswith('raise'):
                if absent and kind == 'raise:InvalidArgumentError':
                    for v, w in st.items():
                        if v.status == 'accepted' and not v.concluded:
                            bad.append(f'the link send raises (peer not reachable) after acceptance and nothing concludes the procedure, via {" ".join(w)}')
                continue
            for v, w in st.items():
                n += 1
                if v.status == 'accepted' and not v.concluded:
                    bad.append(f'{kind} via {" ".join(w)}')
        if bad:
            R.bad(rule, key, f'{label}: accepted with a PENDING/SUCCESS status but a path reaches neither the completion event, a continuation nor a pending slot', p.loc(fn), bad)
        else:
            R.ok(rule, key, f'{n} abstract exit(s): after acceptance every path reaches the completion event, a link/LL/LMP continuation or the pending slot', p.loc(fn))
    R.extra['procedures'] = len(PROCS)

    # the contract the controller's `except InvalidArgumentError` conclusions rely on: a control PDU / LMP packet for an
    # address nobody on the link owns is refused with that exception (not dropped silently), and delivered otherwise
    for lname, finder in (('send_ll_control_pdu', 'find_le_controller'), ('send_lmp_packet', 'find_classic_controller')):
        lf = p.find(f'bumble.link.LocalLink.{lname}')
        if lf is None:
            R.bad(rule, f'bumble.link.LocalLink.{lname}', 'anchor missing')
            continue

        class LinkD(paths.Domain):
            # value: (destination known to exist: True/False/None, delivered)
            def assume(self, atom, truth, v):
                t = norm(atom)
                names = {x.id for x in ast.walk(atom) if isinstance(x, ast.Name)}
                if finder in t or (names and all(n_ in targets for n_ in names)):
                    return ((truth, v[1]),)
                if t.endswith(' is None') and names & targets:
                    return ((not truth, v[1]),)
                if t.endswith(' is not None') and names & targets:
                    return ((truth, v[1]),)
                return (v,)

            def event(self, node, v):
                if isinstance(node, ast.Call) and call_attr(node) in ('call_soon', 'on_ll_control_pdu', 'on_lmp_packet'):
                    return ((v[0], True),)
                return (v,)
        targets = {dotted(n.targets[0]) for n in ast.walk(lf) if isinstance(n, ast.Assign) and finder in norm(n.value)} | {dotted(n.target) for n in ast.walk(lf) if isinstance(n, ast.NamedExpr) and finder in norm(n.value)}
        res = paths.run(lf, LinkD(), (None, False))
        silent = sorted(f'{k}: destination absent, returns normally' for k, st in res.items() if not k.startswith('raise') for v in st if v[0] is False)
        raises = any(k == 'raise:InvalidArgumentError' or k.startswith('raise:') and 'InvalidArgumentError' in k for k in res)
        undelivered = sorted(f'{k}: destination present, nothing scheduled' for k, st in res.items() if not k.startswith('raise') for v in st if v[0] is not False and not v[1])
        R.check(raises and not silent and not undelivered, rule, f'bumble.link.LocalLink.{lname} | unreachable destination is an error', 'an address nobody owns raises InvalidArgumentError; otherwise the packet is scheduled for delivery',
                f'{lname} returns normally for an address nobody on the link owns ({silent[:1] or undelivered[:1]}): the controller\'s conclusions for an unreachable peer (Page Timeout, response timeout) never run and the accepted procedure stays pending for ever', p.loc(lf))
    # pending slot `pending_le_connection`: every store of a non-None value is
    # released (set to None) by the completion path and by the cancel command,
    # and the cancel command emits the completion event.
    slot = 'pending_le_connection'
    clears, stores = [], []
    for name, m in ctl.methods.items():
        for n in walk_local(m):
            if isinstance(n, ast.Assign) and any(dotted(t) == f'self.{slot}' for t in n.targets):
                none = isinstance(n.value, ast.Constant) and n.value.value is None
                (clears if none else stores).append(name)
    cancel = ctl.methods.get('on_hci_le_create_connection_cancel_command')
    key = f'{CTRL}.on_hci_le_create_connection_cancel_command | cancel concludes'
    if cancel is None:
        R.bad(rule, key, 'anchor missing: on_hci_le_create_connection_cancel_command')
    elif stores:
        completes = reach.reaches(cancel, ctor('HCI_LE_Connection_Complete_Event', 'HCI_LE_Enhanced_Connection_Complete_Event'))
        clears_slot = reach.reaches(cancel, lambda n: False) or any(
            isinstance(n, ast.Assign) and any(dotted(t) == f'self.{slot}' for t in n.targets) for n in walk_local(cancel)
        ) or any(
            (dotted(c.func) or '')[5:] in clears for c in calls_in(cancel) if (dotted(c.func) or '').startswith('self.')
        )
        R.check(completes and clears_slot, rule, key, 'cancel clears the pending slot and emits the connection-complete event with an error status',
                f'LE Create Connection Cancel answers but does not conclude the pending procedure (clears slot: {bool(clears_slot)}, emits LE Connection Complete: {bool(completes)})', p.loc(cancel))
    R.check(bool(stores) and bool(clears), rule, f'{CTRL}.{slot} | slot has store and release', f'stored in {sorted(set(stores))}, released in {sorted(set(clears))}', f'pending slot stores={stores} clears={clears}', '')

    # response arms: the LL / LMP response handlers reach the completion events
    arms = [
        ('on_ll_control_pdu', ['HCI_LE_Read_Remote_Features_Complete_Event']),
        ('on_lmp_packet', ['HCI_Read_Remote_Supported_Features_Complete_Event', 'HCI_Read_Remote_Extended_Features_Complete_Event', 'HCI_Remote_Name_Request_Complete_Event']),
    ]
    for hname, events in arms:
        fn = ctl.methods.get(hname)
        if fn is None:
            R.bad(rule, f'{CTRL}.{hname}', f'anchor missing: {CTRL}.{hname}')
            continue
        for ev in events:
            R.check(reach.reaches(fn, ctor(ev)), rule, f'{CTRL}.{hname} | reaches {ev}', 'response handler reaches the completion event', f'no path from {hname} constructs {ev}: the pending procedure is never concluded', p.loc(fn))
    R.floor(rule, 12)


def lmp_answers(ctx):
    """Sibling consistency of LMP answers: a responder (one controller method,
    closures included) answers exactly one request opcode, and every LMP
    request whose returned future has a continuation is answered somewhere."""
    R, p = ctx.r, ctx.p
    rule = 'C03.lmp-answers'
    ctl = p.cls(CTRL)
    if ctl is None:
        R.bad(rule, CTRL, 'anchor missing: ' + CTRL)
        return
    lmpm = p.modules.get('bumble.lmp')
    req_opcode = {}
    if lmpm:
        for c in p.classes.values():
            if c.module is lmpm and 'opcode' in c.assigns:
                req_opcode[c.name] = text(c.assigns['opcode']).split('.')[-1]
    ANSWERS = ('LmpAccepted', 'LmpNotAccepted', 'LmpAcceptedExt', 'LmpNotAcceptedExt')
    answered = {}
    n_resp = 0
    for name, m in sorted(ctl.methods.items()):
        ops = {}
        for c in ast.walk(m):
            if isinstance(c, ast.Call) and call_attr(c) in ANSWERS and c.args:
                ops.setdefault(text(c.args[0]).split('.')[-1], []).append(c)
        if not ops:
            continue
        n_resp += 1
        for o in ops:
            answered.setdefault(o, []).append(name)
        R.check(len(ops) == 1, rule, f'{CTRL}.{name} | answers one request', f'all {sum(map(len, ops.values()))} LMP answer(s) name {sorted(ops)[0]}',
                f'responder answers different requests on different paths: {sorted(ops)} (the peer waiting for one of them is never released)', p.loc(m))
    # every outcome answered: in each function unit of a responder (the method body, each nested callback on its own),
    # no path reaches the local conclusion of the procedure (on_classic_*_complete), or the normal exit when the unit
    # has no such conclusion, without the LMP answer having been sent (or handed to a nested callback that sends it)
    class AnsDomain(paths.Domain):
        def __init__(self, delegates, has_conclusion):
            self.delegates, self.has_conclusion, self.bad = delegates, has_conclusion, []

        def event(self, node, v):
            if isinstance(node, ast.Call):
                if call_attr(node) in ANSWERS and node.args:
                    return (True,)
                if call_attr(node) == 'add_done_callback' and node.args and text(node.args[0]) in self.delegates:
                    return (True,)
                d = dotted(node.func) or ''
                if d.startswith('self.on_classic_') and d.endswith('_complete') and not v:
                    self.bad.append(node.lineno)
            return (v,)

        def assume(self, atom, truth, v):
            return (v,)
    n_units = 0
    for name, m in sorted(ctl.methods.items()):
        units = [m] + [x for x in ast.walk(m) if isinstance(x, FUNC) and x is not m]
        answering = [u for u in units if any(isinstance(c, ast.Call) and call_attr(c) in ANSWERS and c.args for c in walk_local(u))]
        if not answering or name == 'on_lmp_packet':
            continue
        nested_answering = {u.name for u in answering if u is not m}
        for u in answering:
            concl = [c for c in walk_local(u) if isinstance(c, ast.Call) and (dotted(c.func) or '').startswith('self.on_classic_') and (dotted(c.func) or '').endswith('_complete')]
            dom = AnsDomain(nested_answering, bool(concl))
            res = paths.run(u, dom, False)
            silent_exit = [k for k, st in res.items() if not k.startswith('raise') for v in st if not v]
            n_units += 1
            key = f'{CTRL}.{name}' + ('' if u is m else f'.{u.name}') + ' | every outcome answered'
            if concl:
                R.check(not dom.bad, rule, key, f'every path to the {len(concl)} local conclusion(s) has sent the LMP answer first',
                        f'a path concludes the procedure locally (line {sorted(set(dom.bad))[:3]}) without answering the peer: the initiator\'s pending command is never completed', p.loc(u))
            else:
                R.check(not silent_exit, rule, key, 'every normal path sends the LMP answer', 'a normal path returns without answering the peer\'s request: its continuation never runs', p.loc(u))
    R.check(n_units >= 4, rule, f'{CTRL} | answering units', f'{n_units} answering function units analysed', f'only {n_units} answering units found')
    # requests with a continuation
    awaited = {}
    for name, m in ctl.methods.items():
        for n in ast.walk(m):
            tgt = val = None
            if isinstance(n, ast.Assign) and len(n.targets) == 1:
                tgt, val = n.targets[0], n.value
            if isinstance(val, ast.Call) and call_attr(val) == 'send_lmp_packet' and len(val.args) == 2 and isinstance(val.args[1], ast.Call):
                cls = call_attr(val.args[1])
                var = dotted(tgt)
                used = any(isinstance(x, ast.Call) and dotted(x.func) == f'{var}.add_done_callback' for x in ast.walk(m)) or any(isinstance(x, ast.Await) and dotted(x.value) == var for x in ast.walk(m))
                if used and cls in req_opcode:
                    awaited.setdefault(req_opcode[cls], []).append(name)
    for o, where in sorted(awaited.items()):
        R.check(o in answered, rule, f'{CTRL} | {o} answered', f'request sent with a continuation in {sorted(set(where))}, answered in {sorted(set(answered.get(o, [])))}',
                f'{o} is sent with a continuation in {sorted(set(where))} but no responder constructs an LMP (not-)accepted for it', '')
    R.check(n_resp >= 3 and len(awaited) >= 2, rule, f'{CTRL} | coverage', f'{n_resp} responders, {len(awaited)} awaited request kinds', f'only {n_resp} responders / {len(awaited)} awaited requests recognised')



# HCI events with which a controller asks its host to decide about a procedure that a *peer* has pending, and the
# commands with which the host answers (Core Vol 4 Part E 7.7.4, 7.7.65.25).  A controller that raises the event but
# does not implement a reply command answers UNKNOWN_HCI_COMMAND to its own host and never tells the peer.
SOLICITED = {
    'HCI_Connection_Request_Event': ('HCI_Accept_Connection_Request_Command', 'HCI_Reject_Connection_Request_Command'),
    'HCI_LE_CIS_Request_Event': ('HCI_LE_Accept_CIS_Request_Command', 'HCI_LE_Reject_CIS_Request_Command'),
}


def solicited_replies(ctx):
    R, p = ctx.r, ctx.p
    rule = 'C03.solicited-replies'
    ctl = p.cls(CTRL)
    if ctl is None:
        R.bad(rule, CTRL, 'anchor missing')
        return
    raised = {call_attr(c) for m in ctl.methods.values() for c in calls_in(m, include_lambda=True)}
    n = 0
    for ev, replies in sorted(SOLICITED.items()):
        if ev not in raised:
            continue
        for cmd in replies:
            n += 1
            h = 'on_' + cmd.lower()
            fn = ctl.methods.get(h)
            R.check(fn is not None, rule, f'{CTRL} | {ev} -> {cmd}', f'the controller raises {ev} and implements the reply {cmd}',
                    f'the controller raises {ev} but has no handler for {cmd}: the host\'s refusal is answered with UNKNOWN_HCI_COMMAND, nothing is sent to the peer and the peer\'s pending procedure is never concluded', p.loc(ctl.node))
            if fn is not None and 'reject' in h:
                # a refusal tells the peer
                tells = any(call_attr(c) in ('send_lmp_packet', 'send_ll_control_pdu') for c in calls_in(fn, include_lambda=True))
                R.check(tells, rule, f'{CTRL}.{h} | peer told', 'the refusal is sent to the peer', 'the refusal is concluded locally only: the peer keeps waiting', p.loc(fn))
    R.check(n >= 4, rule, f'{CTRL} | soliciting events', f'{n} (event, reply command) pairs examined', f'only {n} pairs examined')


def host_complete(ctx):
    """A Command Complete with opcode 0 only carries credits: it must not conclude the pending command."""
    from .. import sym
    R, p = ctx.r, ctx.p
    rule = 'C03.host-complete'
    fn = p.find('bumble.host.Host.on_hci_command_complete_event')
    if fn is None:
        R.bad(rule, 'bumble.host.Host.on_hci_command_complete_event', 'anchor missing')
        return
    bad = []
    seen = []

    class D(sym.Sym):
        def on_event(self, node, extra, facts, store):
            if isinstance(node, ast.Call) and (dotted(node.func) in ('self.on_command_processed', 'self.pending_response.set_result')):
                seen.append(node)
                if not sym.holds(facts, 'event.command_opcode == 0', False):
                    bad.append(f'L{node.lineno}: reached without `event.command_opcode == 0` being excluded')
            return extra
    paths.run(fn, D(), sym.Sym.init())
    R.check(bool(seen) and not bad, rule, 'bumble.host.Host.on_hci_command_complete_event | credit-only event', 'the pending command is concluded only on paths where the event names a command (opcode != 0)',
            'a Command Complete that only carries credits (opcode 0) is handed to the caller waiting for a response: the caller receives a reply for another opcode and the real reply finds nobody waiting', p.loc(fn), bad[:2])
    # the status event has no credit-only form but both funnel into on_command_processed, which resolves the one pending future
    cp = p.find('bumble.host.Host.on_command_processed')
    if cp is not None:
        sets = [c for c in calls_in(cp) if dotted(c.func) == 'self.pending_response.set_result']
        g = [[norm(t) for t, pol in paths.flat_guards(c) if pol] for c in sets]
        R.check(len(sets) == 1 and g == [['self.pending_response']], rule, 'bumble.host.Host.on_command_processed | resolves the pending future', 'exactly one set_result, only when a caller is waiting', 'the pending response future is not resolved exactly once under `if self.pending_response`', p.loc(cp))



def ll_coverage(ctx):
    """Every link-layer control PDU the virtual controller can send is handled by the controller that receives it."""
    R, p = ctx.r, ctx.p
    rule = 'C03.ll-coverage'
    c = p.cls('bumble.controller.Controller')
    h = p.find('bumble.controller.Controller.on_ll_control_pdu')
    if c is None or h is None:
        R.bad(rule, 'bumble.controller.Controller.on_ll_control_pdu', 'anchor missing')
        return
    sent = {}
    m = p.module('bumble.controller')
    for call in ast.walk(m.tree):
        if isinstance(call, ast.Call) and call_attr(call) == 'send_ll_control_pdu' and call.args:
            a = call.args[-1]
            if isinstance(a, ast.Call) and (dotted(a.func) or '').startswith('ll.'):
                sent.setdefault(dotted(a.func)[3:], call)
    handled = set()
    for mt in ast.walk(h):
        if isinstance(mt, ast.Match):
            for case in mt.cases:
                for pt in ast.walk(case.pattern):
                    if isinstance(pt, ast.MatchClass) and (dotted(pt.cls) or '').startswith('ll.'):
                        handled.add(dotted(pt.cls)[3:])
    for name, call in sorted(sent.items()):
        R.check(name in handled, rule, f'bumble.controller.Controller.on_ll_control_pdu | ll.{name}', 'sent by the controller and matched by the receiving controller',
                f'the controller sends ll.{name} (in {p.qual_of(call)}) but no `case ll.{name}()` handles it on the receiving side: the procedure that sent it is accepted as pending and never concluded', p.loc(call))
    R.check(len(sent) >= 8, rule, 'bumble.controller | LL control PDUs sent', f'{len(sent)} PDU classes sent, {len(handled)} handled', f'only {len(sent)} sent PDU classes found')


def lmp_pending_rule(ctx):
    from . import c06
    c06.lmp_pending(ctx, rule='C03.lmp-pending')


def identity_rule(ctx):
    from ..generic_rules import identity_compare
    identity_compare(ctx, 'C03.identity', ['bumble.host', 'bumble.controller', 'bumble.link'])


def flag_width(ctx):
    from ..generic_rules import to_bytes_width
    to_bytes_width(ctx, 'C03.flag-width', ['bumble.controller'])


def response_match(ctx):
    """each caller receives the response that carries its own command's opcode.
    (a) a command whose sender gave up (timeout, cancellation) is remembered, and its late response is dropped instead of
        resolving the next sender;
    (b) any other event whose opcode differs from the pending command's does not resolve the pending future either
        (OPEN FINDING: only logged; the suite requires this leniency)."""
    R, p = ctx.r, ctx.p
    rule = 'C03.response-match'
    cp = p.find('bumble.host.Host.on_command_processed')
    sc = p.find('bumble.host.Host._send_command')
    if cp is None or sc is None:
        R.bad(rule, 'bumble.host.Host.on_command_processed / _send_command', 'anchor missing')
        return
    # the list of abandoned opcodes: appended to in a handler of _send_command that catches the timeout and the cancellation
    lists = set()
    for h in [x for x in ast.walk(sc) if isinstance(x, ast.ExceptHandler)]:
        names = {text(t).split('.')[-1] for t in (h.type.elts if isinstance(h.type, ast.Tuple) else [h.type] if h.type is not None else [])}
        for c in calls_in(h):
            if call_attr(c) in ('append', 'add') and c.args and norm(c.args[0]).endswith('.op_code') and (dotted(c.func.value) or '').startswith('self.'):
                if {'TimeoutError', 'CancelledError'} <= names or h.type is None or 'BaseException' in names:
                    lists.add(dotted(c.func.value))
    R.check(len(lists) == 1, rule, 'bumble.host.Host._send_command | abandoned commands remembered', f'timeout and cancellation record the opcode in {sorted(lists)}',
            'a command whose sender gives up (response timeout, cancellation) is not remembered: its late response cannot be told from the response to the next command', p.loc(sc))
    ab = next(iter(lists), 'self.abandoned_commands')

    class D(paths.Domain):
        # value: (opcode relation, abandoned?, resolved?)
        def assume(self, atom, truth, v):
            rel, aband, res = v
            if isinstance(atom, ast.Compare) and len(atom.ops) == 1:
                sides = {norm(atom.left), norm(atom.comparators[0])}
                if isinstance(atom.ops[0], (ast.Eq, ast.NotEq)) and sides == {'self.pending_command.op_code', 'event.command_opcode'}:
                    differs = truth if isinstance(atom.ops[0], ast.NotEq) else not truth
                    return (('differs' if differs else 'same', aband, res),)
                if isinstance(atom.ops[0], (ast.In, ast.NotIn)) and norm(atom.left) == 'event.command_opcode' and norm(atom.comparators[0]) == ab:
                    isin = truth if isinstance(atom.ops[0], ast.In) else not truth
                    return ((rel, isin, res),)
            return (v,)

        def event(self, node, v):
            if isinstance(node, ast.Call) and dotted(node.func) == 'self.pending_response.set_result':
                return ((v[0], v[1], True),)
            return (v,)
    res = paths.run(cp, D(), (None, None, False))
    ex = paths.normal_exits(res)
    compared = any(v[0] in ('same', 'differs') for v in ex)
    R.check(compared, rule, 'bumble.host.Host.on_command_processed | opcode compared', 'the event opcode is compared with the pending command', 'the opcode of the event is no longer compared with the pending command', p.loc(cp))
    late = [' '.join(w) for v, w in ex.items() if v[0] == 'differs' and v[1] is True and v[2]]
    seen = any(v[0] == 'differs' and v[1] is True for v in ex)
    R.check(seen and not late, rule, 'bumble.host.Host.on_command_processed | late response dropped', 'an event for an abandoned command\'s opcode leaves the pending future alone',
            'the late response to a command whose sender timed out / was cancelled resolves the pending future of the next command: that caller receives a response carrying another opcode', p.loc(cp), late[:2])
    bad = [' '.join(w) for v, w in ex.items() if v[0] == 'differs' and v[1] is not True and v[2]]
    R.check(not bad, rule, 'bumble.host.Host.on_command_processed | mismatch resolves the caller', 'an event for another opcode leaves the pending future alone',
            'an event whose opcode differs from the pending command (and that is not owed to an abandoned command) is only logged and still resolves the pending future: a controller answering with the wrong opcode hands the caller a foreign response', p.loc(cp), bad[:2])


def le_connection_concluded(ctx):
    """An accepted LE Create Connection stays in `pending_le_connection` until it is concluded.  `create_le_connection`
    runs when the wanted advertiser is heard: every way out of it has emitted an LE (Enhanced) Connection Complete event
    and cleared the pending slot -- otherwise the host's connect() waits for ever while every later advertisement takes
    the same dead exit."""
    R, p = ctx.r, ctx.p
    rule = 'C03.le-connection-concluded'
    fn = p.find('bumble.controller.Controller.create_le_connection')
    if fn is None:
        R.bad(rule, 'bumble.controller.Controller.create_le_connection', 'anchor missing')
        return

    class D(paths.Domain):
        # value: (event sent?, pending cleared?)
        def event(self, node, v):
            sent, cleared = v
            if isinstance(node, ast.Call) and dotted(node.func) in ('self.send_hci_packet',) and node.args and isinstance(node.args[0], ast.Call) and 'Connection_Complete_Event' in (dotted(node.args[0].func) or ''):
                sent = True
            if isinstance(node, ast.Assign) and any(dotted(t) == 'self.pending_le_connection' for t in node.targets) and isinstance(node.value, ast.Constant) and node.value.value is None:
                cleared = True
            return ((sent, cleared),)
    res = paths.run(fn, D(), (False, False))
    ex = paths.normal_exits(res)
    bad = [f'{" ".join(w)} (event sent: {v[0]}, pending cleared: {v[1]})' for v, w in ex.items() if v != (True, True)]
    R.check(not bad and bool(ex), rule, 'bumble.controller.Controller.create_le_connection | every exit concludes', f'{len(ex)} exit state(s): Connection Complete emitted and pending_le_connection cleared on each',
            'create_le_connection can return without emitting LE Connection Complete / without clearing pending_le_connection: the accepted LE Create Connection is never concluded (the host\'s connect() waits for ever)', p.loc(fn), bad[:3])


def ready_gate(ctx):
    """While the host is not `ready` (reset in progress) it drops what the controller sends -- except the response to the
    command it has in flight: that caller holds the command semaphore, so dropping its response blocks every later
    command (reset()'s own included)."""
    R, p = ctx.r, ctx.p
    rule = 'C03.ready-gate'
    fn = p.find('bumble.host.Host.on_packet')
    if fn is None:
        R.bad(rule, 'bumble.host.Host.on_packet', 'anchor missing')
        return
    calls = [c for c in calls_in(fn) if dotted(c.func) == 'self.on_hci_packet']
    R.check(len(calls) == 1, rule, 'bumble.host.Host.on_packet | dispatch', 'one dispatch to on_hci_packet', f'{len(calls)} dispatch sites', p.loc(fn))
    if len(calls) != 1:
        return
    # the guard under which the packet is dispatched
    node, test = calls[0], None
    while getattr(node, '_parent', None) is not None and node is not fn:
        par = node._parent
        if isinstance(par, ast.If) and node in par.body and any(isinstance(x, ast.Attribute) and dotted(x) == 'self.ready' for x in ast.walk(par.test)):
            test = par.test
            break
        node = par
    if test is None:
        R.ok(rule, 'bumble.host.Host.on_packet | gate', 'packets are dispatched whatever `ready` is', p.loc(fn))
        return
    disj = test.values if isinstance(test, ast.BoolOp) and isinstance(test.op, ast.Or) else [test]

    def matches_pending(d):
        for c in ast.walk(d):
            if isinstance(c, ast.Compare) and len(c.ops) == 1 and isinstance(c.ops[0], ast.Eq):
                sides = {norm(c.left), norm(c.comparators[0])}
                if any(x.endswith('.command_opcode') for x in sides) and 'self.pending_command.op_code' in sides:
                    return True
        return False
    R.check(any(matches_pending(d) for d in disj), rule, 'bumble.host.Host.on_packet | response to the command in flight', 'accepted even while the host is not ready',
            'while `ready` is False only the Reset completion is let through: the response to a command that was queued behind reset() is dropped, its caller keeps the command semaphore and reset() waits for it for ever', p.loc(fn))


def match_arms_rule(ctx):
    from ..generic_rules import match_arm_shadowing
    match_arm_shadowing(ctx, 'C03.match-arms', ['bumble.controller', 'bumble.host'])


def status_helper(ctx):
    """Handlers of asynchronous commands send their Command Status through `_send_hci_command_status` and several end with
    `return self._send_hci_command_status(...)`.  The dispatcher sends a Command Status of its own whenever a handler
    returns something: the helper therefore returns nothing, or those commands are answered twice."""
    R, p = ctx.r, ctx.p
    rule = 'C03.status-helper'
    fn = p.find('bumble.controller.Controller._send_hci_command_status')
    disp = p.find('bumble.controller.Controller.on_hci_command_packet')
    if fn is None or disp is None:
        R.bad(rule, 'bumble.controller.Controller._send_hci_command_status / on_hci_command_packet', 'anchor missing')
        return
    rets = [r for r in walk_local(fn) if isinstance(r, ast.Return) and r.value is not None and not (isinstance(r.value, ast.Constant) and r.value.value is None)]
    sends = [c for c in calls_in(fn) if dotted(c.func) == 'self.send_hci_packet']
    R.check(not rets and len(sends) == 1, rule, 'bumble.controller.Controller._send_hci_command_status', 'sends one event and returns nothing',
            'the status helper returns a value: handlers that end with `return self._send_hci_command_status(...)` hand it to the dispatcher, which then sends a second Command Status for the same command (the duplicate is taken as the answer to the next command)', p.loc(fn))
    ctl = p.cls('bumble.controller.Controller')
    n = sum(1 for m in ctl.methods.values() for r in walk_local(m) if isinstance(r, ast.Return) and isinstance(r.value, ast.Call) and dotted(r.value.func) == 'self._send_hci_command_status') if ctl else 0
    R.ok(rule, 'bumble.controller.Controller | handlers returning the helper\'s result', f'{n} handlers rely on the helper returning None', p.loc(disp))


def address_equality_rule(ctx):
    from .c06 import address_equality
    address_equality(ctx, 'C03.address-equality')


def command_parse_guard(ctx):
    """Every command packet is answered, also one whose parameters cannot be parsed and one whose formatting for the debug
    log would fail: Controller.on_packet parses under a catch-all handler that sends a Command Status carrying the opcode
    read from the raw bytes when the packet is a command; and the formatter used by every packet's __str__ does not raise
    on a packet whose only fields are empty lists."""
    R, p = ctx.r, ctx.p
    rule = 'C03.command-parse-guard'
    fn = p.find('bumble.controller.Controller.on_packet')
    ff = p.find('bumble.hci.HCI_Object.format_fields')
    if fn is None or ff is None:
        R.bad(rule, 'bumble.controller.Controller.on_packet / bumble.hci.HCI_Object.format_fields', 'anchor missing')
        return
    parse = [c for c in calls_in(fn) if (dotted(c.func) or '').endswith('HCI_Packet.from_bytes')]
    ok = False
    for c in parse:
        a, prev = getattr(c, '_parent', None), c
        while a is not None and a is not fn:
            if isinstance(a, ast.Try) and any(prev is s_ or any(prev is x for x in ast.walk(s_)) for s_ in a.body):
                for h in a.handlers:
                    catch_all = h.type is None or text(h.type).split('.')[-1] in ('Exception', 'BaseException')
                    sends = [x for x in calls_in(h) if dotted(x.func) in ('self._send_hci_command_status', 'self.send_hci_packet')]
                    ok = ok or (catch_all and bool(sends))
            prev, a = a, getattr(a, '_parent', None)
    R.check(len(parse) == 1 and ok, rule, 'bumble.controller.Controller.on_packet | parse failure answered', 'a command that does not parse is answered with a Command Status for its opcode',
            'Controller.on_packet parses the packet outside any handler (or its handler sends nothing): a command with truncated / ill-sized parameters gets no Command Complete or Command Status, the host waits for ever and holds the command semaphore', p.loc(fn))
    # the formatter: max()/min() over the rows only when there are rows
    from ..sym import exits
    bad = []
    for c in [x for x in walk_local(ff) if isinstance(x, ast.Call) and dotted(x.func) in ('max', 'min') and kwarg(x, 'default') is None and len(x.args) == 1 and isinstance(x.args[0], (ast.GeneratorExp, ast.ListComp, ast.Name))]:
        seq = x_ = c.args[0]
        src = seq.generators[0].iter if isinstance(seq, (ast.GeneratorExp, ast.ListComp)) else seq
        nm = norm(src)
        guards = [(norm(t), pol) for t, pol in paths.flat_guards(c, stop=ff)]
        if not any((g == nm and pol) or (g == f'not {nm}' and not pol) or (g == nm and pol is True) for g, pol in guards) and not any(g == nm and not pol for g, pol in []):
            # accepted form: an earlier `if not rows: return`
            if not any(g == nm and pol for g, pol in guards):
                bad.append(c)
    R.check(not bad, rule, 'bumble.hci.HCI_Object.format_fields | no rows', 'max() over the formatted rows is reached only when there are rows',
            'format_fields takes max() of an empty sequence for an object whose only fields are empty lists: str(packet) raises, and packets are formatted for the debug log before they are handled, so such a command is never answered', p.loc(ff))


def abandoned_multiset(ctx):
    """Host.abandoned_commands holds one entry per response still owed: two callers may have given up on the same opcode.
    It is changed only by append(opcode) and remove(opcode) (one entry at a time) and never rebuilt."""
    R, p = ctx.r, ctx.p
    rule = 'C03.abandoned-multiset'
    ci = p.cls(HOST)
    if ci is None:
        R.bad(rule, HOST, 'anchor missing')
        return
    n = 0
    for name, fn in sorted(ci.methods.items()):
        for st in [x for x in walk_local(fn) if isinstance(x, (ast.Assign, ast.AugAssign, ast.AnnAssign)) and any(dotted(t) == 'self.abandoned_commands' for t in (x.targets if isinstance(x, ast.Assign) else [x.target]))]:
            n += 1
            R.check(name == '__init__', rule, f'{HOST}.{name} | {norm(st)[:50]}', 'created once', f'{name} rebuilds abandoned_commands (`{norm(st)[:60]}`): dropping every entry of an opcode forgets that a second response for it is still owed, and that late response is handed to the next caller', p.loc(st))
        for c in [x for x in calls_in(fn) if isinstance(x.func, ast.Attribute) and dotted(x.func.value) == 'self.abandoned_commands']:
            n += 1
            R.check(c.func.attr in ('append', 'remove'), rule, f'{HOST}.{name} | abandoned_commands.{c.func.attr}', 'one entry added / removed', f'abandoned_commands.{c.func.attr}(...) changes more than one entry', p.loc(c))
    R.check(n >= 3, rule, f'{HOST} | abandoned_commands', f'{n} uses', f'only {n} uses found')


def cis_disconnect(ctx):
    """Disconnecting a CIS from the host goes through the same local conclusion as a CIS terminated by the peer
    (on_le_cis_disconnected), which also removes a peripheral-side entry: a hand-written completion in the command handler
    leaves the entry behind, and the next set-up of the same CIS is reported under the stale handle."""
    R, p = ctx.r, ctx.p
    rule = 'C03.cis-disconnect'
    fn = p.find(f'{CTRL}.on_hci_disconnect_command')
    if fn is None:
        R.bad(rule, f'{CTRL}.on_hci_disconnect_command', 'anchor missing')
        return
    tells = [c for c in calls_in(fn) if any(isinstance(x, ast.Call) and call_attr(x) == 'CisTerminateInd' for x in ast.walk(c)) and dotted(c.func) == 'self._notify_peer_of_teardown']
    R.check(len(tells) == 1, rule, f'{CTRL}.on_hci_disconnect_command | CIS branch', 'one branch tells the peer with CisTerminateInd', f'{len(tells)} branches', p.loc(fn))
    for c in tells:
        st = c
        while not isinstance(getattr(st, '_parent', None), (ast.If, ast.For, ast.While, ast.Try) + FUNC):
            st = st._parent
        par = st._parent
        blk = par.body if st in par.body else par.orelse
        local = [x for s_ in blk for x in calls_in(s_) if dotted(x.func) == 'self.on_le_cis_disconnected']
        R.check(bool(local), rule, f'{CTRL}.on_hci_disconnect_command | local conclusion', 'the branch concludes through on_le_cis_disconnected', 'the CIS branch emits its own Disconnection Complete instead of calling on_le_cis_disconnected: a peripheral-side CIS entry is never removed, so a second set-up of the same (CIG, CIS) is reported under the old handle and the accepted CIS request is never concluded', p.loc(c))


def parse_guard_scope(ctx):
    """The catch-all handler of Controller.on_packet that answers an unparseable command covers the parsing only: the
    dispatch to the command handler is outside it, or a handler that raises after it has sent its own Command Status gets a
    second one from the fallback."""
    R, p = ctx.r, ctx.p
    rule = 'C03.parse-guard-scope'
    fn = p.find(f'{CTRL}.on_packet')
    if fn is None:
        R.bad(rule, f'{CTRL}.on_packet', 'anchor missing')
        return
    n = 0
    for t in [x for x in walk_local(fn) if isinstance(x, ast.Try)]:
        if not any(dotted(c.func) in ('self._send_hci_command_status', 'self.send_hci_packet') for h in t.handlers for c in calls_in(h)):
            continue
        n += 1
        inside = [c for s_ in t.body + t.orelse for c in calls_in(s_) if dotted(c.func) in ('self.on_hci_packet', 'self.on_hci_command_packet')]
        R.check(not inside, rule, f'{CTRL}.on_packet | answering handler', 'covers the parsing only', f'`{norm(inside[0])[:50] if inside else ""}` runs inside the try whose handler sends a Command Status: a command handler that raises after replying (the peer left the link) is answered a second time for the same opcode', p.loc(inside[0]) if inside else p.loc(t))
    R.check(n == 1, rule, f'{CTRL}.on_packet | answering handlers', 'one', f'{n} found')


def connect_ind_address(ctx, rule='C03.connect-ind-address'):
    """The address the central announces in CONNECT_IND is the one it registers its own end of the link under (and sends
    its LL control PDUs from): the peer files the link under the announced address and drops control PDUs from any other."""
    R, p = ctx.r, ctx.p
    fn = p.find(f'{CTRL}.create_le_connection')
    if fn is None:
        R.bad(rule, f'{CTRL}.create_le_connection', 'anchor missing')
        return
    ind = [c for c in ast.walk(fn) if isinstance(c, ast.Call) and call_attr(c) == 'ConnectInd']
    con = [c for c in ast.walk(fn) if isinstance(c, ast.Call) and call_attr(c) == 'Connection' and kwarg(c, 'self_address') is not None]
    if len(ind) != 1 or len(con) != 1:
        R.bad(rule, f'{CTRL}.create_le_connection', f'{len(ind)} ConnectInd / {len(con)} Connection constructions (anchor)', p.loc(fn))
        return
    a, b = kwarg(ind[0], 'initiator_address'), kwarg(con[0], 'self_address')
    R.check(a is not None and norm(a) == norm(b), rule, f'{CTRL}.create_le_connection', f'both use `{norm(b)}`', f'CONNECT_IND announces `{norm(a) if a is not None else None}` while the central registers the link under `{norm(b)}`: with a public own address the peer files the link under another address, drops the central\'s LL control PDUs (feature exchange, CIS request never concluded) and cannot route its termination back', p.loc(ind[0]))


def nop_events(ctx):
    """A Command Complete / Command Status event for opcode 0 answers no command (it only carries
    Num_HCI_Command_Packets): on both handlers the path on which `event.command_opcode == 0` never reaches
    on_command_processed, which would resolve the pending caller with it."""
    R, p = ctx.r, ctx.p
    rule = 'C03.nop-events'
    for name in ('on_hci_command_complete_event', 'on_hci_command_status_event'):
        fn = p.find(f'{HOST}.{name}')
        if fn is None:
            R.bad(rule, f'{HOST}.{name}', 'anchor missing')
            continue
        reached = []

        class D(paths.Domain):
            def assume(self, atom, truth, v):
                t = norm(atom).replace(' ', '')
                if t in ('event.command_opcode==0', '0==event.command_opcode'):
                    return ('nop' if truth else 'cmd',)
                if t in ('event.command_opcode!=0', '0!=event.command_opcode', 'event.command_opcode'):
                    return ('cmd' if truth else 'nop',)
                return (v,)

            def event(self, node, v):
                if isinstance(node, ast.Call) and dotted(node.func) == 'self.on_command_processed' and v != 'cmd':
                    reached.append(node)
                return (v,)
        paths.run(fn, D(), 'any')
        R.check(not reached, rule, f'{HOST}.{name}', 'opcode 0 is not handed to on_command_processed', f'{name} passes an event for opcode 0 (flow control only) to on_command_processed: the caller of the command in flight receives it as its response', p.loc(reached[0]) if reached else p.loc(fn))


def lmp_answer_result(ctx):
    """The futures of classic_pending_commands are read by done-callbacks with `future.result()` as a status code: the peer\'s
    answer - accepted or not - settles them with set_result(status).  set_exception makes the callback raise inside the
    event loop, and the completion event it was going to send (Connection Complete with the error, Role Change ...) never
    reaches the host."""
    R, p = ctx.r, ctx.p
    rule = 'C03.lmp-answer-result'
    fn = p.find(f'{CTRL}.on_lmp_packet')
    if fn is None:
        R.bad(rule, f'{CTRL}.on_lmp_packet', 'anchor missing')
        return
    settles = [c for c in calls_in(fn) if call_attr(c) in ('set_result', 'set_exception') and dotted(c.func.value) == 'future']
    bad = [c for c in settles if call_attr(c) == 'set_exception']
    readers = [c for m_ in [p.modules.get('bumble.controller')] if m_ is not None for c in ast.walk(m_.tree) if isinstance(c, ast.Call) and call_attr(c) == 'result' and dotted(c.func.value) == 'future']
    R.check(len(settles) >= 2 and not bad and len(readers) >= 2, rule, f'{CTRL}.on_lmp_packet', f'{len(settles)} settle sites use set_result; {len(readers)} callbacks read future.result()', f'`{norm(bad[0])[:60] if bad else ""}`: the done-callbacks read the status with future.result(), which now raises - a procedure the peer refused (Create Connection rejected, role switch not accepted) is never concluded by its completion event', p.loc(bad[0]) if bad else p.loc(fn))


RULES = [
    ('C03.lmp-answer-result', lmp_answer_result),
    ('C03.nop-events', nop_events),
    ('C03.connect-ind-address', connect_ind_address),
    ('C03.parse-guard-scope', parse_guard_scope),
    ('C03.cis-disconnect', cis_disconnect),
    ('C03.abandoned-multiset', abandoned_multiset),
    ('C03.command-parse-guard', command_parse_guard),
    ('C03.address-equality', address_equality_rule),
    ('C03.status-helper', status_helper),
    ('C03.match-arms', match_arms_rule),
    ('C03.ready-gate', ready_gate),
    ('C03.le-connection-concluded', le_connection_concluded),
    ('C03.response-match', response_match),
    ('C03.flag-width', flag_width),
    ('C03.identity', identity_rule),
    ('C03.lmp-pending', lmp_pending_rule),
    ('C03.ll-coverage', ll_coverage),
    ('C03.host-complete', host_complete),
    ('C03.lmp-answers', lmp_answers),
    ('C03.solicited-replies', solicited_replies),
    ('C03.host-send', host_send),
    ('C03.controller-reply', controller_reply),
    ('C03.procedures', procedures),
]

# (name, file, old, new, 'fire'|'silent', rule that must fire)
VARIANTS = [
    ('host: send before acquire', 'bumble/host.py',
     '        await self.command_semaphore.acquire()\n\n        # Nothing can be sent, and no response will come, once the transport is lost\n',
     '        self.send_hci_packet(command)\n        await self.command_semaphore.acquire()\n\n        # Nothing can be sent, and no response will come, once the transport is lost\n',
     'fire', 'C03.host-send'),
    ('host: finally no longer clears pending_command', 'bumble/host.py',
     "        finally:\n            self.pending_command = None\n            self.pending_response = None\n            if response is None or (",
     "        finally:\n            self.pending_response = None\n            if response is None or (",
     'fire', 'C03.host-send'),
    ('host: release only when a response arrived', 'bumble/host.py',
     "            if response is None or (\n                response.num_hci_command_packets and self.command_semaphore.locked()\n            ):",
     "            if response is not None and (\n                response.num_hci_command_packets and self.command_semaphore.locked()\n            ):",
     'fire', 'C03.host-send'),
    ('host: second command send site', 'bumble/host.py',
     "    def send_sco_sdu(self, connection_handle: int, sdu: bytes) -> None:\n",
     "    def send_reset_now(self) -> None:\n        self.send_hci_packet(hci.HCI_Reset_Command())\n\n    def send_sco_sdu(self, connection_handle: int, sdu: bytes) -> None:\n",
     'fire', 'C03.host-send'),
    ('host: benign rename of local', 'bumble/host.py',
     '            return response\n        except (asyncio.TimeoutError, asyncio.CancelledError):\n',
     '            return response  # the awaited response\n        except (asyncio.TimeoutError, asyncio.CancelledError):\n',
     'silent', ''),
    ('controller: dispatcher drops status for async+value', 'bumble/controller.py',
     "            self._send_hci_command_status(\n                getattr(result, 'status', hci.HCI_ErrorCode.SUCCESS), command.op_code\n            )\n",
     "            logger.error('unexpected %s', result)\n",
     'fire', 'C03.controller-reply'),
    ('controller: handler loses its status on one branch', 'bumble/controller.py',
     "        if self.pending_le_connection:\n            self._send_hci_command_status(\n                hci.HCI_ErrorCode.COMMAND_DISALLOWED_ERROR, command.op_code\n            )\n            return None\n\n        self.pending_le_connection = command\n\n        # Say that the connection is pending\n        self._send_hci_command_status(hci.HCI_COMMAND_STATUS_PENDING, command.op_code)\n        return None\n",
     "        if self.pending_le_connection:\n            return None\n\n        self.pending_le_connection = command\n\n        # Say that the connection is pending\n        self._send_hci_command_status(hci.HCI_COMMAND_STATUS_PENDING, command.op_code)\n        return None\n",
     'fire', 'C03.controller-reply'),
    ('controller: command complete with zero credits', 'bumble/controller.py',
     "                hci.HCI_Command_Complete_Event(\n                    num_hci_command_packets=1,",
     "                hci.HCI_Command_Complete_Event(\n                    num_hci_command_packets=0,",
     'fire', 'C03.controller-reply'),
    ('controller: cancel stops clearing the slot', 'bumble/controller.py',
     "        # the Command Complete event for this command)\n        self.pending_le_connection = None\n",
     "        # the Command Complete event for this command)\n",
     'fire', 'C03.procedures'),
    ('controller: disconnect forgets unknown handles', 'bumble/controller.py',
     "                    status=hci.HCI_ErrorCode.UNKNOWN_CONNECTION_IDENTIFIER_ERROR,\n                    connection_handle=handle,\n                    reason=command.reason,\n                )\n            )\n\n        return None\n",
     "                    status=hci.HCI_ErrorCode.UNKNOWN_CONNECTION_IDENTIFIER_ERROR,\n                    connection_handle=handle,\n                    reason=command.reason,\n                )\n            ) if False else None\n\n        return None\n",
     'fire', 'C03.procedures'),
    ('controller: benign `return None` -> `return`', 'bumble/controller.py',
     "        self.pending_le_connection = command\n\n        # Say that the connection is pending\n        self._send_hci_command_status(hci.HCI_COMMAND_STATUS_PENDING, command.op_code)\n        return None\n",
     "        self.pending_le_connection = command\n\n        # Say that the connection is pending\n        self._send_hci_command_status(hci.HCI_COMMAND_STATUS_PENDING, command.op_code)\n        return\n",
     'silent', ''),
    ('credit-only event completes the pending command', 'bumble/host.py', "                self.command_semaphore.release()\n\n            return\n\n        return self.on_command_processed(event)", "                self.command_semaphore.release()\n\n        return self.on_command_processed(event)", 'fire', 'C03.host-complete'),
    ('benign: opcode test written the other way round', 'bumble/host.py', "        if event.command_opcode == 0:\n            # This is used just for the Num_HCI_Command_Packets field", "        if 0 == event.command_opcode:\n            # This is used just for the Num_HCI_Command_Packets field", 'silent', ''),
]
