"""C12 — a GATT client sees exactly the server's database, values and notifications."""
from __future__ import annotations

import ast
import re

from .. import paths
from ..core import FUNC, call_attr, calls_in, const, dotted, is_const, kwarg, norm, text, walk_local

EXPLANATION = [
    'C12.max-value-inclusive: every comparison against GATT_MAX_ATTRIBUTE_VALUE_SIZE in the GATT server keeps a value of exactly that size legal (strict `>` to reject).',
    'C12.service-identity: Client.on_service_discovered decides "already known" by comparing handles (no UUID-based lookup).',
    "C12.discovery-exits: no exit of Client.discover_descriptors / discover_attributes depends on sizes (MTU, len(...)): the loops end on the server's answers only.",
    'C12.total-mappers: shared with C10: display mappers are total (a Find Information Response with 128-bit UUIDs must format, or it is never sent).',
    'C12.included-first: Server.add_service registers unregistered included services before it adds its own service declaration; add_services skips services already registered.',
    'C12.space-after-match: in on_att_find_by_type_value_request the response room is decremented only after attributes.append(...) in the same block (consumed by reported entries, not by examined candidates).',
    'C12.copy-update: in the GATT modules no container looked up in a table is replaced by a rebuilt copy bound to the local only (`subs = subs - {s}`): the table keeps the old object and the unsubscribe is lost.',
    'C12.subscribe-order: Client.subscribe registers the subscriber (setdefault / add on the subscriber tables) before the awaited CCCD write on every path.',
    'C12.accessor-argument: Attribute.read_value / write_value pass each dynamic-value accessor the kind of object its signature declares (AttributeValue: the Connection; AttributeValueV2: the bearer).',
    "C12.eatt-mtu: each LeCreditBasedChannel handler that learns the peer's MTU from a connection response recomputes att_mtu afterwards, and no GATT / device code assigns a bearer's att_mtu from outside: both ends of an enhanced bearer hold min(own, peer).",
    "C12.truncation-bound: the value of a notification and of an indication is cut at exactly bearer.att_mtu - 3 (linear-form equality, through single-assignment locals): no other bound (such as the server's preferred MTU) shortens it.",
    'C12.mtu-fresh: in the async methods of gatt_client.Client no local copy of the ATT_MTU (self.mtu) taken before an await is used after it: the long-read threshold is the MTU current when the response arrives.',
    'C12.fanout-independent: Server._notify_or_indicate_subscribers starts one task per subscribed bearer and awaits them together; nothing is awaited inside a loop over the bearers.',
    'C12.integer-arithmetic: no true division in the anchored modules: sizes and budgets are integers (a fractional budget admits one entry too many).',
    'C12.missing-await: inside async functions no call that resolves (through the declared type of self.<attr>, or self) to a coroutine method is returned or dropped without await.',
    'C12.sdu-boundary: LeCreditBasedChannel.process_output closes the SDU it is assembling as soon as one queued packet has been consumed entirely (path rule over the assembling loop): a notification / response written on an enhanced bearer arrives as its own PDU.',
    'C12.encode-once: the fan-out functions of notify / indicate pass the application\'s `value` through unchanged, and the single-bearer helpers encode exactly once (read_value(bearer) if value is None else attribute.encode_value(value)).',
    'C12.mtu-agreement: both ends adopt min(what this side announced, what the peer announced) as ATT_MTU (same rule as C10.mtu-agreement): long reads continue exactly where the first response ended and values are truncated to the MTU the client computed.',
    'C12.late-binding: no closure that is created inside a loop and kept (a sink, an event listener, a callback) reads the loop\'s variables freely; values are bound per iteration (default argument or functools.partial), so each bearer\'s callback serves its own bearer.',
    'C12.indication-slot: indications are built in one place, sent under the per-bearer semaphore, and the pending-confirmation slot is cleared in `finally` (same rule as C10.indication-slot): one lost confirmation cannot stop later indications.',
    'C12.include-agreement: the include declaration written by the server (<HH included-service handle, end group handle, then a 16-bit UUID only) is read back by the client with the same layout; the proxy range is those two fields and a UUID absent from the declaration is read from the included service\'s own declaration (the first field), as Vol 3 Part G 4.5.1 prescribes.',
    'C12.uuid-wire: in gatt/gatt_client/gatt_server a UUID is never serialised with bytes(uuid) for a PDU; every site uses to_pdu_bytes(), which expands 32-bit UUIDs.',
    'C12.subscriber-lifetime: every per-bearer table the notify/indicate/CCCD paths consult is dropped in Server.on_disconnection.',
    'C12.client-group-ends: in the client, every characteristic declaration of a response closes the previous characteristic at handle-1 and is recorded on every path of the per-declaration loop (filtering by UUID happens after the ranges are final).',
    'C12.progress: every request loop of gatt_client.Client (services, service by UUID, included services, characteristics, '
    'descriptors, attributes) advances its start handle, on every back edge, to one more than a handle taken from the response '
    'list it just validated: the list is tested non-empty first, every item is checked to be >= the previous start (monotonic '
    'guard that leaves), and the loop condition bounds the start handle.',
    'C12.kind: from the indicate_* APIs of the server only the Indication PDU constructor is reachable, from notify_* only the '
    'Notification constructor (call-graph reachability with the constant `indicate` flag propagated).',
    'C12.cccd-bits: notification paths test CCCD bit 0x01, indication paths bit 0x02, on both server and client; the client '
    'registers the subscriber in the table of the kind it writes.',
    'C12.no-skip: range responses of the server are contiguous prefixes: no `continue` in a fill loop depends on response state '
    '(accumulated list, entry format, remaining space), otherwise the client resumes after an attribute it never saw.',
    'C12.group-ends: add_service assigns group end handles after the last attribute of each group.',
    'Not decided: structural equality of discovered trees and values (runtime).',
]
ASSUMPTIONS = ['the peer may send any response sequence; termination is argued from strict monotonic progress of a bounded handle']

CLI = 'bumble.gatt_client.Client'
SRV = 'bumble.gatt_server.Server'


def _anc(node):
    p_ = getattr(node, '_parent', None)
    while p_ is not None:
        yield p_
        p_ = getattr(p_, '_parent', None)


def progress(ctx):
    R, p = ctx.r, ctx.p
    rule = 'C12.progress'
    cli = p.cls(CLI)
    if cli is None:
        R.bad(rule, CLI, f'anchor missing: {CLI}')
        return
    n = 0
    for name, m in sorted(cli.methods.items()):
        if not name.startswith('discover_'):
            continue
        for loop in [x for x in walk_local(m) if isinstance(x, ast.While)]:
            sends = [a for a in walk_local(loop) if isinstance(a, ast.Await) and 'self.send_request' in norm(a)]
            if not sends:
                continue
            n += 1
            key = f'{CLI}.{name} | loop@{[l.lineno for l in walk_local(m) if isinstance(l, ast.While)].index(loop.lineno) + 1}'
            # progress variable = the variable passed as starting_handle in the request
            reqs = [c for c in calls_in(loop) if kwarg(c, 'starting_handle') is not None]
            if not reqs:
                R.bad(rule, key, 'request inside the loop has no starting_handle argument', p.loc(loop))
                continue
            pv = dotted(kwarg(reqs[0], 'starting_handle'))
            probs = []
            # (c) loop condition bounds pv
            cond = norm(loop.test)
            from ..sym import cmp_sides
            cs = cmp_sides(loop.test)
            if not (cs is not None and cs[0] == pv and re.match(r'^(\w+|0xFFFF|65535)$', cs[2])):
                probs.append(f'loop condition `{cond}` does not bound {pv}')
            # back-edge assignments of pv: must be the last statement of the loop body
            assigns = [s for s in walk_local(loop) if isinstance(s, ast.Assign) and any(dotted(t) == pv for t in s.targets)]
            if len(assigns) != 1 or loop.body[-1] is not assigns[0]:
                probs.append(f'{pv} is not advanced exactly once at the end of every iteration ({len(assigns)} assignments)')
                R.bad(rule, key, '; '.join(probs), p.loc(loop))
                continue
            adv = assigns[0]
            # any `continue` would skip the advance
            if any(isinstance(x, ast.Continue) and next(a for a in _anc(x) if isinstance(a, (ast.While, ast.For))) is loop for x in walk_local(loop)):
                probs.append('a `continue` skips the advance of the start handle')
            v = adv.value
            src_list = idx = None
            acc = None
            m1 = re.match(r'^(response\.\w+)\[-1\]\[(\d)\] \+ 1$', norm(v))
            m2 = re.match(r'^(\w+)\[-1\]\.handle \+ 1$', norm(v))
            if m1:
                src_list, idx = m1.group(1), int(m1.group(2))
            elif m2:
                acc = m2.group(1)
            else:
                probs.append(f'progress expression `{norm(v)}` is not <validated list>[-1][k] + 1')
            # per-item loop over the response list
            item_loops = [f for f in walk_local(loop) if isinstance(f, ast.For) and norm(f.iter).startswith('response.')]
            if not item_loops:
                probs.append('no per-item validation loop over the response list')
            else:
                il = item_loops[0]
                lst = norm(il.iter)
                tvars = [dotted(e) for e in (il.target.elts if isinstance(il.target, ast.Tuple) else [il.target])]
                # monotonic guard: first statement tests `<v0> < pv` (possibly or-ed) and leaves
                g = il.body[0] if il.body else None
                guarded = set()
                if isinstance(g, ast.If) and paths._always_leaves(g.body):
                    atoms = [cmp_sides(a) for a in (g.test.values if isinstance(g.test, ast.BoolOp) and isinstance(g.test.op, ast.Or) else [g.test])]
                    atoms = [a for a in atoms if a is not None and a[1] == '<' and re.match(r'^\w+$', a[0]) and re.match(r'^\w+$', a[2])]
                    for small, _, big in atoms:
                        if big == pv:
                            guarded.add(small)
                    for small, _, big in atoms:
                        if big in guarded:
                            guarded.add(small)
                if not guarded:
                    probs.append(f'items of {lst} are not checked against the previous start handle ({pv}) before use')
                if src_list is not None:
                    if src_list != lst:
                        probs.append(f'progress is taken from {src_list} but the validated list is {lst}')
                    elif idx >= len(tvars) or tvars[idx] not in guarded:
                        probs.append(f'progress uses element [{idx}] of the items, which the monotonic guard does not cover (guarded: {sorted(guarded)})')
                if acc is not None:
                    apps = [c for c in calls_in(il) if dotted(c.func) == f'{acc}.append' and c.args]
                    ok = False
                    for c in apps:
                        obj = dotted(c.args[0])
                        for s in walk_local(il):
                            if isinstance(s, ast.Assign) and dotted(s.targets[0]) == obj and isinstance(s.value, ast.Call) and len(s.value.args) >= 2:
                                if dotted(s.value.args[1]) in guarded:
                                    ok = True
                    if not ok:
                        probs.append(f'progress uses {acc}[-1].handle, but the objects appended to {acc} do not carry the guarded handle')
                # (a) non-empty guard dominating the advance
                empt = [s for s in loop.body if isinstance(s, ast.If) and norm(s.test) == f'not {lst}' and paths._always_leaves(s.body)]
                if not empt or empt[0].lineno > adv.lineno:
                    probs.append(f'no `if not {lst}: break` before the advance (an empty response repeats the same request forever)')
            R.check(not probs, rule, key, f'{pv} strictly increases on every back edge (validated, non-empty, bounded by `{cond}`)', '; '.join(probs), p.loc(loop))
    R.floor(rule, 6, 'request loops')


# ---------------------------------------------------------------------------
def kind(ctx):
    R, p = ctx.r, ctx.p
    rule = 'C12.kind'
    srv = p.cls(SRV)
    if srv is None:
        R.bad(rule, SRV, f'anchor missing: {SRV}')
        return

    def reach(fn_name, consts, seen):
        """set of PDU constructor names reachable from method fn_name with
        known constant parameters `consts` (name -> bool)."""
        if (fn_name, tuple(sorted(consts.items()))) in seen:
            return set()
        seen.add((fn_name, tuple(sorted(consts.items()))))
        m = srv.methods.get(fn_name)
        if m is None:
            return set()
        out = set()

        def walk(node):
            if isinstance(node, ast.IfExp) and isinstance(node.test, ast.Name) and node.test.id in consts:
                walk(node.body if consts[node.test.id] else node.orelse)
                return
            if isinstance(node, ast.If) and isinstance(node.test, ast.Name) and node.test.id in consts:
                for s in (node.body if consts[node.test.id] else node.orelse):
                    walk(s)
                return
            if isinstance(node, ast.Call):
                nm = call_attr(node)
                if nm in ('ATT_Handle_Value_Notification', 'ATT_Handle_Value_Indication'):
                    out.add(nm)
                d = dotted(node.func) or ''
                if d.startswith('self.') and d[5:] in srv.methods:
                    callee = srv.methods[d[5:]]
                    params = [a.arg for a in callee.args.args[1:]]
                    cc = {}
                    for i, a in enumerate(node.args):
                        if i < len(params) and isinstance(a, ast.Constant) and isinstance(a.value, bool):
                            cc[params[i]] = a.value
                    for kw in node.keywords:
                        if kw.arg and isinstance(kw.value, ast.Constant) and isinstance(kw.value.value, bool):
                            cc[kw.arg] = kw.value.value
                    out.update(reach(d[5:], cc, seen))
            if isinstance(node, ast.Attribute) and isinstance(node.value, ast.Name) and node.value.id == 'self' and node.attr in srv.methods and not (isinstance(getattr(node, '_parent', None), ast.Call) and node._parent.func is node):
                out.update(reach(node.attr, {}, seen))  # method value used as a callback
            for ch in ast.iter_child_nodes(node):
                if isinstance(ch, FUNC + (ast.ClassDef,)):
                    continue
                walk(ch)

        for s in m.body:
            walk(s)
        return out

    want = {
        'indicate_subscriber': {'ATT_Handle_Value_Indication'}, 'indicate_subscribers': {'ATT_Handle_Value_Indication'},
        'notify_subscriber': {'ATT_Handle_Value_Notification'}, 'notify_subscribers': {'ATT_Handle_Value_Notification'},
    }
    for api, exp in sorted(want.items()):
        if api not in srv.methods:
            R.bad(rule, f'{SRV}.{api}', f'anchor missing: {SRV}.{api}')
            continue
        got = reach(api, {}, set())
        R.check(got == exp, rule, f'{SRV}.{api}', f'reaches only {sorted(exp)}', f'{api} can send {sorted(got)} (expected only {sorted(exp)}): the value goes out as the wrong kind of PDU', p.loc(srv.methods[api]))
    # the device-level API forwards to the same-named server API
    dev = p.cls('bumble.device.Device')
    if dev is not None:
        for api in sorted(want):
            m = dev.methods.get(api)
            if m is None:
                continue
            calls = {call_attr(c) for c in calls_in(m) if 'gatt_server' in (dotted(c.func) or '')}
            R.check(calls == {api}, rule, f'bumble.device.Device.{api}', f'forwards to gatt_server.{api}', f'Device.{api} forwards to {sorted(calls)}', p.loc(m))


def cccd_bits(ctx):
    R, p = ctx.r, ctx.p
    rule = 'C12.cccd-bits'
    srv, cli = p.cls(SRV), p.cls(CLI)
    if srv is None or cli is None:
        R.bad(rule, SRV, 'anchor missing')
        return
    for mname, bit in (('_notify_single_subscriber', '1'), ('_indicate_single_bearer', '2')):
        m = srv.methods.get(mname)
        if m is None:
            R.bad(rule, f'{SRV}.{mname}', 'anchor missing')
            continue
        tests = [norm(a) for n in walk_local(m) if isinstance(n, ast.If) for a in (n.test.values if isinstance(n.test, ast.BoolOp) else [n.test]) if 'cccd[0] &' in norm(a)]
        R.check(tests == [f'cccd[0] & {bit} == 0'], rule, f'{SRV}.{mname} | CCCD bit', f'skips unless bit 0x0{bit} of the bearer\'s CCCD is set', f'subscription test is {tests}', p.loc(m))
        # the subscription consulted is the one of this bearer and this attribute
        gets = [norm(n.value) for n in walk_local(m) if isinstance(n, ast.Assign) and dotted(n.targets[0]) in ('subscribers', 'cccd')]
        R.check(sorted(gets) == sorted(['self.subscribers.get(bearer)', 'subscribers.get(attribute.handle)']), rule, f'{SRV}.{mname} | per bearer, per handle', 'CCCD looked up by (bearer, attribute.handle)', f'CCCD lookup is {gets}', p.loc(m))
    wc = srv.methods.get('write_cccd')
    if wc is not None:
        d = {dotted(n.targets[0]): norm(n.value) for n in walk_local(wc) if isinstance(n, ast.Assign) and len(n.targets) == 1 and isinstance(n.targets[0], ast.Name)}
        R.check(d.get('notify_enabled') == 'value[0] & 1 != 0' and d.get('indicate_enabled') == 'value[0] & 2 != 0', rule, f'{SRV}.write_cccd | bits', 'notify = bit 0, indicate = bit 1', f'write_cccd decodes {d.get("notify_enabled")}, {d.get("indicate_enabled")}', p.loc(wc))
        st = [norm(n) for n in walk_local(wc) if isinstance(n, ast.Assign) and isinstance(n.targets[0], ast.Subscript)]
        R.check('cccds[characteristic.handle] = value' in st and d.get('cccds') == 'self.subscribers.setdefault(bearer, {})', rule, f'{SRV}.write_cccd | stored per bearer and handle', 'subscribers[bearer][handle] = value', f'CCCD stored as {st}', p.loc(wc))
    bits = p.cls('bumble.gatt.ClientCharacteristicConfigurationBits')
    if bits is not None:
        v = {k: const(x) for k, x in bits.assigns.items() if is_const(x)}
        R.check(v.get('NOTIFICATION') == 1 and v.get('INDICATION') == 2, rule, 'bumble.gatt.ClientCharacteristicConfigurationBits', 'NOTIFICATION=1, INDICATION=2', f'CCCD bit constants: {v}', '')
    sub = cli.methods.get('subscribe')
    if sub is not None:
        pairs = set()
        for blk in ast.walk(sub):
            if isinstance(blk, (ast.If,)):
                for body in (blk.body, blk.orelse):
                    b = {dotted(s.targets[0]): norm(s.value) for s in body if isinstance(s, ast.Assign)}
                    if 'bits' in b and 'subscribers' in b:
                        pairs.add((b['bits'].split('.')[-1], b['subscribers']))
        R.check(pairs == {('NOTIFICATION', 'self.notification_subscribers'), ('INDICATION', 'self.indication_subscribers')}, rule, f'{CLI}.subscribe | bit and table agree', 'NOTIFICATION <-> notification_subscribers, INDICATION <-> indication_subscribers', f'subscribe pairs {sorted(pairs)}', p.loc(sub))
        wr = [c for c in calls_in(sub) if call_attr(c) == 'write_value']
        R.check(len(wr) == 1 and norm(wr[0].args[1]) == "struct.pack('<H', bits)", rule, f'{CLI}.subscribe | writes the chosen bits', "writes pack('<H', bits) to the CCCD", 'the CCCD write does not carry the chosen bits', p.loc(sub))
    for hname, table, confirm in (('on_att_handle_value_notification', 'notification_subscribers', False), ('on_att_handle_value_indication', 'indication_subscribers', True)):
        m = cli.methods.get(hname)
        if m is None:
            R.bad(rule, f'{CLI}.{hname}', 'anchor missing')
            continue
        tabs = {x.attr for x in ast.walk(m) if isinstance(x, ast.Attribute) and x.attr.endswith('_subscribers')}
        R.check(tabs == {table}, rule, f'{CLI}.{hname} | table', f'delivers to {table}', f'handler reads {sorted(tabs)}', p.loc(m))
        if confirm:
            sends = [c for c in calls_in(m) if call_attr(c) == 'send_confirmation' or call_attr(c) == 'ATT_Handle_Value_Confirmation']
            guarded = [c for c in sends if any(isinstance(a, (ast.If, ast.For)) for a in _anc(c) if a is not m and not isinstance(a, FUNC))]
            class Conf(paths.Domain):
                def event(self, node, v):
                    if isinstance(node, ast.Call) and call_attr(node) == 'send_confirmation':
                        return (v + 1,)
                    return (v,)
            res = paths.run(m, Conf(), 0)
            silent = sorted(f'{k}: {v} confirmation(s)' for k, st in res.items() if not k.startswith('raise') for v in st if v != 1)
            R.check(bool(sends) and not guarded and not silent, rule, f'{CLI}.{hname} | always confirms', 'every normal path sends exactly one confirmation (also when nobody subscribed)',
                    'an indication can be left unconfirmed (e.g. when no subscriber is registered): the server holds its per-bearer indication slot until the 30 s timeout and every later indication is starved', p.loc(m), silent[:3])


def no_skip(ctx):
    R, p = ctx.r, ctx.p
    rule = 'C12.no-skip'
    srv = p.cls(SRV)
    if srv is None:
        R.bad(rule, SRV, 'anchor missing')
        return
    n = 0
    for name, m in sorted(srv.methods.items()):
        if not (name.startswith('on_att_') and any(isinstance(x, ast.Assign) and dotted(x.targets[0]) == 'pdu_space_available' for x in walk_local(m))):
            continue
        for loop in [x for x in walk_local(m) if isinstance(x, (ast.For, ast.AsyncFor))]:
            apps = [c for c in calls_in(loop) if isinstance(c.func, ast.Attribute) and c.func.attr == 'append']
            if not apps:
                continue
            if 'set_of_handles' in norm(loop.iter):
                continue  # handle lists are explicit, not ranges
            n += 1
            state = {'pdu_space_available'} | {dotted(c.func.value) for c in apps}
            for s in walk_local(loop):
                if isinstance(s, (ast.Assign, ast.AugAssign)):
                    for t in (s.targets if isinstance(s, ast.Assign) else [s.target]):
                        d = dotted(t)
                        if d and '.' not in d:
                            state.add(d)
            bad = []
            for c in [x for x in walk_local(loop) if isinstance(x, ast.Continue)]:
                names = set()
                for a in _anc(c):
                    if a is loop:
                        break
                    if isinstance(a, ast.If):  # direct control dependence only
                        names |= {x.id for x in ast.walk(a.test) if isinstance(x, ast.Name)}
                # values read from the attribute under test are per-item, not response state
                dep = (names & state) - {dotted(loop.target)} - _per_item_locals(loop)
                if dep:
                    bad.append(f'line {c.lineno}: skip depends on {sorted(dep)}')
            R.check(not bad, rule, f'{SRV}.{name} | contiguous prefix', 'no attribute inside the range is skipped for reasons of format or space (only `break` ends the fill)',
                    'an attribute in the requested range can be skipped while later ones are still returned (' + '; '.join(bad) + '): the client resumes after the last handle and never sees it', p.loc(loop))
    R.floor(rule, 4, 'range fill loops')


def _per_item_locals(loop):
    """locals assigned directly from the loop variable's own value (per item):
    e.g. attribute_value = await attribute.read_value(bearer)."""
    out = set()
    lv = dotted(loop.target)
    for s in walk_local(loop):
        if isinstance(s, ast.Assign) and len(s.targets) == 1 and isinstance(s.targets[0], ast.Name):
            if any(isinstance(x, ast.Name) and x.id == lv for x in ast.walk(s.value)) and not any(isinstance(x, ast.Name) and x.id == s.targets[0].id for x in ast.walk(s.value)):
                # ...but a variable that is also compared with its previous value is state
                pass
    return out


def group_ends(ctx):
    R, p = ctx.r, ctx.p
    rule = 'C12.group-ends'
    m = p.find(f'{SRV}.add_service')
    if m is None:
        R.bad(rule, f'{SRV}.add_service', 'anchor missing')
        return
    char_loop = next((x for x in walk_local(m) if isinstance(x, ast.For) and 'characteristics' in norm(x.iter)), None)
    if char_loop is None:
        R.bad(rule, f'{SRV}.add_service | characteristic loop', 'loop over service.characteristics not found', p.loc(m))
        return
    body = char_loop.body
    ends = [i for i, s in enumerate(body) if isinstance(s, ast.Assign) and 'end_group_handle' in norm(s.targets[0])]
    adds = [i for i, s in enumerate(body) if any(dotted(c.func) == 'self.add_attribute' for c in calls_in(s))]
    ok = bool(ends) and bool(adds) and min(ends) > max(adds) and all(norm(body[i].value) == 'self.attributes[-1].handle' for i in ends)
    tg = {norm(body[i].targets[0]) for i in ends}
    R.check(ok and tg == {'characteristic_declaration.end_group_handle', 'characteristic.end_group_handle'}, rule, f'{SRV}.add_service | characteristic group end', 'declaration and value get end_group_handle = last attribute added for the characteristic',
            'characteristic group end is not assigned from the last attribute of the group after all of them were added', p.loc(char_loop))
    top = m.body
    sidx = [i for i, s in enumerate(top) if isinstance(s, ast.Assign) and norm(s.targets[0]) == 'service.end_group_handle']
    lidx = [i for i, s in enumerate(top) if isinstance(s, (ast.For,))]
    ok = bool(sidx) and bool(lidx) and sidx[-1] > max(lidx) and norm(top[sidx[-1]].value) == 'self.attributes[-1].handle'
    R.check(ok, rule, f'{SRV}.add_service | service group end', 'service.end_group_handle = last attribute, after includes and characteristics', 'service group end is not assigned after the last attribute of the service', p.loc(m))
    decl = [c for c in calls_in(char_loop) if call_attr(c) == 'CharacteristicDeclaration']
    ok = len(decl) == 1 and norm(decl[0].args[1]) == 'self.next_handle() + 1'
    order = [norm(c.args[0]) for s in body for c in calls_in(s) if dotted(c.func) == 'self.add_attribute' and c.args][:2]
    R.check(ok and order == ['characteristic_declaration', 'characteristic'], rule, f'{SRV}.add_service | value handle', 'declaration announces next_handle()+1 and the value attribute is added right after the declaration', 'the value handle announced in the declaration is not the handle the value attribute receives', p.loc(char_loop))



def subscriber_lifetime(ctx):
    """A subscription lives as long as its bearer: the table the notify paths read is dropped when the bearer goes away."""
    R, p = ctx.r, ctx.p
    rule = 'C12.subscriber-lifetime'
    m = p.find(f'{SRV}.on_disconnection')
    if m is None:
        R.bad(rule, f'{SRV}.on_disconnection', 'anchor missing')
        return
    bearer = m.args.args[1].arg
    dropped = set()
    for c in calls_in(m):
        if call_attr(c) == 'pop' and c.args and norm(c.args[0]) == bearer:
            recv = c.func.value
            d = dotted(recv)
            if d and d.startswith('self.'):
                dropped.add(d[5:])
            elif isinstance(recv, ast.Name):
                # `for table in (self.a, self.b): table.pop(bearer, None)`
                for f in walk_local(m):
                    if isinstance(f, ast.For) and isinstance(f.target, ast.Name) and f.target.id == recv.id and isinstance(f.iter, (ast.Tuple, ast.List)):
                        dropped |= {dotted(e)[5:] for e in f.iter.elts if (dotted(e) or '').startswith('self.')}
    for n in walk_local(m):
        if isinstance(n, ast.Delete):
            for t in n.targets:
                if isinstance(t, ast.Subscript) and norm(t.slice) == bearer and (dotted(t.value) or '').startswith('self.'):
                    dropped.add(dotted(t.value)[5:])
    # tables the notify / indicate paths consult per bearer
    read = set()
    for mname in ('_notify_single_subscriber', '_indicate_single_bearer', 'write_cccd', 'read_cccd'):
        f = p.find(f'{SRV}.{mname}')
        for x in ast.walk(f) if f is not None else []:
            if isinstance(x, ast.Call) and call_attr(x) in ('get', 'setdefault') and x.args and norm(x.args[0]) == 'bearer' and (dotted(x.func.value) or '').startswith('self.'):
                read.add(dotted(x.func.value)[5:])
    R.check('subscribers' in read and read <= dropped, rule, f'{SRV}.on_disconnection | per-bearer subscription state', f'drops {sorted(dropped)}; notify/indicate paths consult {sorted(read)}',
            f'the server keeps {sorted(read - dropped)} for a bearer that is gone: the next client that gets the same connection handle receives notifications it never subscribed to', p.loc(m))


def client_group_ends(ctx):
    """Every characteristic declaration in a response ends the previous characteristic's handle range."""
    R, p = ctx.r, ctx.p
    rule = 'C12.client-group-ends'
    m = p.find(f'{CLI}.discover_characteristics')
    if m is None:
        R.bad(rule, f'{CLI}.discover_characteristics', 'anchor missing')
        return
    loop = next((x for x in ast.walk(m) if isinstance(x, ast.For) and norm(x.iter) == 'response.attributes'), None)
    if loop is None:
        R.bad(rule, f'{CLI}.discover_characteristics | per-declaration loop', 'loop over response.attributes not found', p.loc(m))
        return
    hvar = loop.target.elts[0].id if isinstance(loop.target, ast.Tuple) else None

    class D(paths.Domain):
        # v = (closed, appended)
        def event(self, node, v):
            closed, appended = v
            if isinstance(node, ast.Assign) and any(norm(t).endswith('[-1].end_group_handle') for t in node.targets):
                if hvar and norm(node.value) == f'{hvar} - 1':
                    closed = True
            if isinstance(node, ast.Call) and call_attr(node) == 'append':
                appended = True
            return ((closed, appended),)

        def assume(self, atom, truth, v):
            closed, appended = v
            # `if characteristics:` false: there is no previous characteristic to close
            if isinstance(atom, ast.Name) and not truth:
                closed = True
            return ((closed, appended),)

        def ret(self, node, v):
            return 'abort'
    res = paths.run_block(loop.body, D(), (False, False))
    bad = []
    n = 0
    for k, st in res.items():
        if k.startswith('ret') or k.startswith('raise'):
            continue
        for (closed, appended), w in st.items():
            n += 1
            if not closed:
                bad.append(f'a declaration is passed over without ending the previous characteristic ({" ".join(w)})')
            if not appended:
                bad.append(f'a declaration is not recorded ({" ".join(w)})')
    R.check(n >= 1 and not bad, rule, f'{CLI}.discover_characteristics | every declaration ends the previous group', 'each declaration closes the previous characteristic at handle - 1 and is recorded, before any filtering',
            'a characteristic declaration can be skipped without closing the previous characteristic: its handle range then swallows the neighbours (descriptor discovery returns foreign attributes)', p.loc(loop), bad[:2])
    # the last one ends with the service, and filtering happens after the ranges are final
    s = norm(m)
    R.check('characteristics[-1].end_group_handle = service.end_group_handle' in s, rule, f'{CLI}.discover_characteristics | last group', 'the last characteristic ends with the service', 'the last characteristic is not closed at the end of the service', p.loc(m))



def indication_slot(ctx):
    from . import c10
    c10.indication_slot(ctx, rule='C12.indication-slot')


def include_agreement(ctx):
    """Writer and reader of the include declaration agree: <HH (included service handle, end group handle) [+ 16-bit UUID];
    a UUID that is not in the declaration is read from the included service's own declaration (first field)."""
    R, p = ctx.r, ctx.p
    rule = 'C12.include-agreement'
    w = p.find('bumble.gatt.IncludedServiceDeclaration.__init__')
    r = p.find('bumble.gatt_client.Client.discover_included_services')
    if w is None or r is None:
        R.bad(rule, 'bumble.gatt.IncludedServiceDeclaration.__init__ / bumble.gatt_client.Client.discover_included_services', 'anchor missing')
        return
    pk = [c for c in calls_in(w) if dotted(c.func) == 'struct.pack']
    R.check(len(pk) == 1 and [norm(a) for a in pk[0].args] == ["'<HH'", 'service.handle', 'service.end_group_handle'], rule, 'bumble.gatt.IncludedServiceDeclaration.__init__ | layout',
            'declaration = <HH (service handle, end group handle)', f'include declaration layout changed: {[norm(a) for c in pk for a in c.args]}', p.loc(w))
    un = [n for n in walk_local(r) if isinstance(n, ast.Assign) and isinstance(n.targets[0], ast.Tuple) and isinstance(n.value, ast.Call) and dotted(n.value.func) in ('struct.unpack_from', 'struct.unpack')
          and n.value.args and norm(n.value.args[0]) == "'<HH'"]
    if len(un) != 1:
        R.bad(rule, 'bumble.gatt_client.Client.discover_included_services | layout', f'{len(un)} <HH unpack sites', p.loc(r))
        return
    h0, h1 = [dotted(e) for e in un[0].targets[0].elts]
    src = norm(un[0].value.args[1]) if len(un[0].value.args) > 1 else ''
    proxies = [c for c in calls_in(r) if call_attr(c) == 'ServiceProxy']
    R.check(len(proxies) == 1 and [norm(a) for a in proxies[0].args[1:3]] == [h0, h1], rule, 'bumble.gatt_client.Client.discover_included_services | handle range',
            f'ServiceProxy range = the two <HH fields of the declaration ({h0}, {h1})', 'the included service proxy is not given the declaration\'s two handle fields in order', p.loc(r))
    reads = [c for c in calls_in(r) if dotted(c.func) == 'self.read_value']
    R.check(len(reads) == 1 and len(reads[0].args) >= 1 and norm(reads[0].args[0]) == h0, rule, 'bumble.gatt_client.Client.discover_included_services | UUID read',
            f'a UUID absent from the declaration is read from the included service\'s own declaration (handle {h0})',
            f'the follow-up read for a 128-bit UUID uses `{norm(reads[0].args[0]) if reads and reads[0].args else None}`, not the included service\'s declaration handle `{h0}`: the proxy gets a UUID made of unrelated bytes', p.loc(reads[0]) if reads else p.loc(r))
    tails = [n for n in ast.walk(r) if isinstance(n, ast.Subscript) and norm(n) == f'{src}[4:]']
    R.check(bool(tails) and any(isinstance(n, ast.If) and 'len(' + src + ') > 4' in norm(n.test) for n in ast.walk(r)), rule, 'bumble.gatt_client.Client.discover_included_services | inline UUID',
            'a UUID present in the declaration is taken from offset 4', 'inline UUID of the include declaration is not read from offset 4 under a length test', p.loc(r))


def encode_once(ctx):
    """The value an application hands to notify / indicate is typed (adapters); it is encoded exactly once, in the single-bearer
    helper: `read_value()` (already encoded) when no value was given, `encode_value(value)` otherwise.  The fan-out
    functions above it pass `value` through untouched."""
    R, p = ctx.r, ctx.p
    rule = 'C12.encode-once'
    srv = p.cls(SRV)
    if srv is None:
        R.bad(rule, SRV, 'anchor missing')
        return
    for name in ('notify_subscriber', 'indicate_subscriber', '_notify_or_indicate_subscribers', 'notify_subscribers', 'indicate_subscribers'):
        m = srv.methods.get(name)
        if m is None:
            continue
        re_ = [n for n in ast.walk(m) if isinstance(n, (ast.Assign, ast.AugAssign, ast.AnnAssign, ast.NamedExpr)) and any(isinstance(y, ast.Name) and y.id == 'value' and isinstance(y.ctx, ast.Store) for y in ast.walk(n))]
        R.check(not re_, rule, f'{SRV}.{name} | value passed through', '`value` is not reassigned on its way to the single-bearer helper',
                f'`value` is replaced in {name} (line {re_[0].lineno if re_ else 0}) before it reaches the helper that encodes it: a value obtained from read_value() is already encoded and gets encoded a second time (adapters raise or send other bytes)', p.loc(re_[0]) if re_ else p.loc(m))
    for name in ('_notify_single_subscriber', '_indicate_single_bearer'):
        m = srv.methods.get(name)
        if m is None:
            R.bad(rule, f'{SRV}.{name}', 'anchor missing')
            continue
        enc = [n for n in walk_local(m) if isinstance(n, ast.Assign) and isinstance(n.value, ast.IfExp) and 'read_value' in norm(n.value) and 'encode_value' in norm(n.value)]
        ok = len(enc) == 1 and norm(enc[0].value.test) in ('value is None', 'value is not None')
        if ok:
            a, b = (enc[0].value.body, enc[0].value.orelse) if norm(enc[0].value.test) == 'value is None' else (enc[0].value.orelse, enc[0].value.body)
            ok = 'read_value(bearer)' in norm(a) and norm(b) == 'attribute.encode_value(value)'
        R.check(ok, rule, f'{SRV}.{name} | one encoding', 'read_value(bearer) when no value is given, encode_value(value) otherwise', 'the value sent is not "read_value() or encode_value(value)": it is encoded twice or not at all', p.loc(m))


def uuid_wire(ctx, rule='C12.uuid-wire'):
    """UUIDs that go into ATT PDUs are serialised with to_pdu_bytes() (32-bit UUIDs expanded to 128 bits)."""
    R, p = ctx.r, ctx.p
    n = 0
    for mod in ('bumble.gatt_client', 'bumble.gatt_server', 'bumble.gatt'):
        m = p.module(mod)
        if m is None:
            R.bad(rule, mod, 'anchor missing')
            continue
        for c in ast.walk(m.tree):
            if not (isinstance(c, ast.Call) and dotted(c.func) == 'bytes' and len(c.args) == 1):
                continue
            d = dotted(c.args[0]) or ''
            if not (d == 'uuid' or d.endswith('.uuid') or d.endswith('_uuid') or d.endswith('.type')):
                continue
            n += 1
            R.bad(rule, f'{p.qual_of(c)} | bytes({d})', f'a UUID is put on the wire with bytes({d}) instead of {d}.to_pdu_bytes(): a 32-bit UUID goes out as 4 bytes, which no peer (and not bumble\'s own server, which stores the 128-bit form) will match', p.loc(c))
        for c in ast.walk(m.tree):
            if isinstance(c, ast.Call) and call_attr(c) == 'to_pdu_bytes':
                n += 1
    R.check(n >= 5, rule, 'bumble.gatt* | UUID serialisation sites', f'{n} sites, all through to_pdu_bytes()', f'only {n} UUID serialisation sites found')
    tb = p.find('bumble.core.UUID.to_pdu_bytes')
    R.check(tb is not None and 'force_128=len(self.uuid_bytes) == 4' in norm(tb).replace('(len(self.uuid_bytes) == 4)', 'len(self.uuid_bytes) == 4'), rule, 'bumble.core.UUID.to_pdu_bytes', '32-bit UUIDs are expanded to 128 bits', 'to_pdu_bytes no longer expands 32-bit UUIDs', p.loc(tb) if tb else '')


def late_binding_rule(ctx):
    from ..late_binding import late_binding
    late_binding(ctx, 'C12.late-binding', ['bumble.gatt_client', 'bumble.gatt_server', 'bumble.gatt', 'bumble.att'])


def mtu_agreement_rule(ctx):
    from . import c10
    c10.mtu_agreement(ctx, rule='C12.mtu-agreement')


def sdu_boundary(ctx, rule='C12.sdu-boundary'):
    """On an enhanced bearer one ATT PDU is one SDU.  The channel assembles an SDU from its output queue: once a queued
    packet has been taken completely, the SDU is closed (nothing of the next packet is appended)."""
    R, p = ctx.r, ctx.p
    po = p.find('bumble.l2cap.LeCreditBasedChannel.process_output')
    if po is None:
        R.bad(rule, 'bumble.l2cap.LeCreditBasedChannel.process_output', 'anchor missing')
        return
    inner = [n for n in walk_local(po) if isinstance(n, (ast.While, ast.For)) and any(isinstance(x, ast.Call) and dotted(x.func) in ('self.out_queue.popleft', 'self.out_queue.pop') for x in ast.walk(n)) and any(isinstance(x, ast.AugAssign) and dotted(x.target) == 'payload' for x in ast.walk(n))]
    if not inner:
        # no assembling loop: one packet per SDU by construction, as long as the payload is built from the queue head only
        heads = [n for n in walk_local(po) if isinstance(n, ast.Assign) and 'self.out_queue[0]' in norm(n.value)]
        R.check(bool(heads), rule, 'bumble.l2cap.LeCreditBasedChannel.process_output | SDU source', 'the SDU is cut from the head of the queue, no loop joins packets', 'cannot find how an SDU is built from the output queue', p.loc(po))
        return
    loop = min(inner, key=lambda n: sum(1 for _ in ast.walk(n)))   # the innermost one

    class D(paths.Domain):
        def event(self, node, v):
            if isinstance(node, ast.Call) and dotted(node.func) in ('self.out_queue.popleft', 'self.out_queue.pop'):
                return (True,)
            return (v,)
    res = paths.run_block(loop.body, D(), False)
    again = paths.join(res.get('fall', {}), res.get('continue', {}))
    bad = [' '.join(w) for v, w in again.items() if v]
    R.check(not bad, rule, 'bumble.l2cap.LeCreditBasedChannel.process_output | one packet per SDU', 'after a queued packet has been consumed entirely the assembling loop is left: the next packet starts a new SDU',
            'the loop that assembles an SDU goes on after a queued packet has been consumed: the next packet is appended to the same SDU, so two ATT PDUs written on an enhanced bearer while the channel waits for credits arrive as one (the second response / notification is swallowed)', p.loc(loop), bad[:3])


def missing_await_rule(ctx):
    from ..generic_rules import missing_await
    missing_await(ctx, 'C12.missing-await', ['bumble.gatt_client', 'bumble.gatt_server', 'bumble.gatt'])


def integer_arithmetic_rule(ctx):
    from ..generic_rules import integer_arithmetic
    integer_arithmetic(ctx, 'C12.integer-arithmetic', ['bumble.gatt_client', 'bumble.gatt_server'])


def fanout_independent(ctx):
    """A notification / indication goes to each subscribed bearer independently: the per-bearer deliveries run as separate
    tasks (one bearer's refusal, timeout or missing confirmation neither delays nor cancels the others)."""
    R, p = ctx.r, ctx.p
    rule = 'C12.fanout-independent'
    fn = p.find('bumble.gatt_server.Server._notify_or_indicate_subscribers')
    if fn is None:
        R.bad(rule, 'bumble.gatt_server.Server._notify_or_indicate_subscribers', 'anchor missing')
        return
    seq = [a for lp in walk_local(fn) if isinstance(lp, (ast.For, ast.AsyncFor)) for a in ast.walk(lp) if isinstance(a, ast.Await)]
    tasks = [c for c in calls_in(fn) if (dotted(c.func) or '') in ('asyncio.create_task', 'asyncio.ensure_future', 'asyncio.gather', 'asyncio.wait') or call_attr(c) == 'create_task']
    R.check(not seq and bool(tasks), rule, 'bumble.gatt_server.Server._notify_or_indicate_subscribers | per-bearer tasks', 'deliveries are started as tasks and awaited together; nothing is awaited inside a loop over the bearers',
            'the per-bearer deliveries are awaited one after the other: a subscriber that does not confirm (30 s) or whose read is refused delays or aborts the delivery to every following subscriber', p.loc(fn))


def mtu_fresh(ctx):
    """The "response is full, continue with Read Blob" threshold is ATT_MTU-1 *at the time the response arrives*: the MTU
    may change while a request is queued or in flight, so a copy taken before an await is stale."""
    R, p = ctx.r, ctx.p
    rule = 'C12.mtu-fresh'
    cl = p.cls('bumble.gatt_client.Client')
    if cl is None:
        R.bad(rule, 'bumble.gatt_client.Client', 'anchor missing')
        return
    n = 0
    for name, fn in sorted(cl.methods.items()):
        if not isinstance(fn, ast.AsyncFunctionDef):
            continue
        reads = [x for x in walk_local(fn) if isinstance(x, ast.Attribute) and dotted(x) in ('self.mtu', 'self.bearer.att_mtu')]
        if not reads:
            continue
        n += 1
        awaits = sorted(a.lineno for a in walk_local(fn) if isinstance(a, ast.Await))
        for st in [x for x in walk_local(fn) if isinstance(x, ast.Assign) and len(x.targets) == 1 and isinstance(x.targets[0], ast.Name) and any(r in list(ast.walk(x.value)) for r in reads)]:
            nm = st.targets[0].id
            later_await = [a for a in awaits if a > st.lineno]
            stale = [u for u in walk_local(fn) if isinstance(u, ast.Name) and u.id == nm and isinstance(u.ctx, ast.Load) and later_await and u.lineno > later_await[0]]
            R.check(not stale, rule, f'bumble.gatt_client.Client.{name} | {norm(st)[:50]}', 'not used across an await', f'`{nm}` copies the ATT_MTU before an await (line {st.lineno}) and is used after it (line {stale[0].lineno if stale else 0}): if the MTU exchange completes in between, full responses are no longer recognised and long values come back truncated', p.loc(st))
    R.check(n >= 2, rule, 'bumble.gatt_client.Client | methods reading the MTU', f'{n} async methods read self.mtu; no copy survives an await', f'only {n} methods found')


def truncation_bound(ctx):
    """"truncated only to ATT_MTU-3": the cut applied to a notification / indication value is exactly the bearer's current
    ATT_MTU minus the 3 header bytes -- not a smaller bound derived from the server's own preferred MTU."""
    R, p = ctx.r, ctx.p
    rule = 'C12.truncation-bound'
    from ..sym import lin, lin_eq
    want = lin(ast.parse('bearer.att_mtu - 3', mode='eval').body)
    n = 0
    for name in ('_notify_single_subscriber', '_indicate_single_bearer'):
        fn = p.find(f'bumble.gatt_server.Server.{name}')
        if fn is None:
            R.bad(rule, f'bumble.gatt_server.Server.{name}', 'anchor missing')
            continue
        defs = {}
        for s_ in walk_local(fn):
            if isinstance(s_, ast.Assign) and len(s_.targets) == 1 and isinstance(s_.targets[0], ast.Name):
                defs.setdefault(s_.targets[0].id, []).append(s_.value)
        cuts = [x for x in walk_local(fn) if isinstance(x, ast.Assign) and dotted(x.targets[0]) == 'value_as_bytes' and isinstance(x.value, ast.Subscript) and dotted(x.value.value) == 'value_as_bytes' and isinstance(x.value.slice, ast.Slice)]
        for c in cuts:
            n += 1
            ub = c.value.slice.upper
            for _ in range(2):
                if isinstance(ub, ast.Name) and len(defs.get(ub.id, [])) == 1:
                    ub = defs[ub.id][0]
            ok = ub is not None and c.value.slice.lower is None and lin_eq(lin(ub), want)
            R.check(ok, rule, f'bumble.gatt_server.Server.{name} | cut', 'value[: bearer.att_mtu - 3]', f'the value is cut at `{norm(ub) if ub is not None else None}`, not at the bearer\'s ATT_MTU - 3: on a bearer whose ATT_MTU is larger than the bound used (an enhanced bearer, an MTU negotiated by this device\'s client role) subscribers receive less than ATT_MTU-3 allows', p.loc(c))
    R.check(n >= 2, rule, 'bumble.gatt_server.Server | truncation sites', f'{n} cuts', f'only {n} cuts found')


def eatt_mtu(ctx):
    """Both ends of an enhanced bearer must use the same ATT_MTU, min(own MTU field, peer's MTU field): the server fills a
    response up to ATT_MTU-1 and the client continues with Read Blob exactly when it received ATT_MTU-1 bytes.  The
    initiator learns the peer's MTU from the connection response -- each handler that stores peer_mtu from a response
    recomputes att_mtu -- and nothing outside the channel overrides it with a constant."""
    R, p = ctx.r, ctx.p
    rule = 'C12.eatt-mtu'
    ci = p.cls('bumble.l2cap.LeCreditBasedChannel')
    if ci is None:
        R.bad(rule, 'bumble.l2cap.LeCreditBasedChannel', 'anchor missing')
        return
    n = 0
    for name, fn in sorted(ci.methods.items()):
        learn = [s_ for s_ in walk_local(fn) if isinstance(s_, ast.Assign) and dotted(s_.targets[0]) == 'self.peer_mtu' and 'response' in norm(s_.value)]
        for s_ in learn:
            n += 1
            later = [x for x in walk_local(fn) if isinstance(x, ast.Assign) and dotted(x.targets[0]) == 'self.att_mtu' and x.lineno > s_.lineno]
            R.check(bool(later), rule, f'bumble.l2cap.LeCreditBasedChannel.{name} | att_mtu follows peer_mtu', 'recomputed once the peer\'s MTU is known', f'{name} learns the peer\'s MTU from the response but leaves att_mtu as computed at construction (when the peer\'s MTU was still 0): the initiator\'s bearer disagrees with the acceptor\'s about ATT_MTU, long values read over it come back truncated', p.loc(s_))
    R.check(n >= 2, rule, 'bumble.l2cap.LeCreditBasedChannel | response handlers', f'{n} handlers learn the peer MTU', f'only {n} found')
    for mn in ('bumble.gatt_client', 'bumble.gatt_server', 'bumble.device'):
        m = p.modules.get(mn)
        if m is None:
            continue
        for st in [x for x in ast.walk(m.tree) if isinstance(x, ast.Assign) and any(isinstance(t, ast.Attribute) and t.attr == 'att_mtu' and dotted(t.value) not in ('self',) for t in x.targets)]:
            R.bad(rule, f'{p.qual_of(st)} | {norm(st)[:50]}', f'`{norm(st)[:60]}` overrides a bearer\'s ATT_MTU from outside the channel: the two ends of the bearer no longer agree on it', f'{m.rel}:{st.lineno}')


def accessor_argument(ctx):
    """Attribute.read_value / write_value hand a dynamic value's accessor the object its signature declares: the V1
    AttributeValue takes the Connection (for an enhanced bearer: the connection under the channel), AttributeValueV2 the
    bearer itself.  Decided from the accessor methods' parameter annotations."""
    R, p = ctx.r, ctx.p
    rule = 'C12.accessor-argument'
    want = {'Connection': 'connection', 'Bearer': 'bearer'}
    n = 0
    for mname, acc in (('read_value', 'read'), ('write_value', 'write')):
        fn = p.find(f'bumble.att.Attribute.{mname}')
        if fn is None:
            R.bad(rule, f'bumble.att.Attribute.{mname}', 'anchor missing')
            continue
        for mt in [x for x in walk_local(fn) if isinstance(x, ast.Match)]:
            for case in mt.cases:
                if not isinstance(case.pattern, ast.MatchClass):
                    continue
                cn = (dotted(case.pattern.cls) or '').split('.')[-1]
                ci = p.cls(f'bumble.att.{cn}')
                m = ci.methods.get(acc) if ci is not None else None
                if m is None or len(m.args.args) < 2 or m.args.args[1].annotation is None:
                    R.bad(rule, f'bumble.att.{cn}.{acc}', 'anchor missing (accessor or its annotation)')
                    continue
                ann = norm(m.args.args[1].annotation).strip('"\'').split('.')[-1]
                for c in [x for s_ in case.body for x in calls_in(s_) if dotted(x.func) == f'self.value.{acc}']:
                    n += 1
                    a0 = norm(c.args[0]) if c.args else ''
                    R.check(want.get(ann) == a0, rule, f'bumble.att.Attribute.{mname} | {cn}.{acc}', f'passes `{a0}` ({ann})', f'{mname} calls {cn}.{acc}({a0}, ...) but that accessor is declared to take a {ann}: on an enhanced (EATT) bearer the application\'s function receives an L2CAP channel where it expects the connection (or the reverse) and fails or answers for the wrong peer', p.loc(c))
    R.check(n == 4, rule, 'bumble.att.Attribute | accessor calls', '4 accessor calls', f'{n} found')


def subscribe_order(ctx):
    """The client registers the subscriber before it writes the CCCD: a server may notify as soon as it has processed the
    write (before the Write Response is seen by the caller), and a notification without a registered subscriber is dropped."""
    R, p = ctx.r, ctx.p
    rule = 'C12.subscribe-order'
    fn = p.find(f'{CLI}.subscribe')
    if fn is None:
        R.bad(rule, f'{CLI}.subscribe', 'anchor missing')
        return
    late = []
    seen = []

    class D(paths.Domain):
        def event(self, node, v):
            if isinstance(node, ast.Call) and call_attr(node) == 'write_value':
                return (True,)
            if isinstance(node, ast.Call) and call_attr(node) in ('add', 'setdefault') and 'subscri' in (dotted(node.func.value) or ''):
                seen.append(node)
                if v:
                    late.append(node)
            return (v,)
    paths.run(fn, D(), False)
    R.check(bool(seen) and not late, rule, f'{CLI}.subscribe', f'{len(set(seen))} registration(s), all before the CCCD write', f'subscribe() registers the subscriber (`{norm(late[0])[:50] if late else ""}`) after awaiting the CCCD write: a notification / indication the server sends right after enabling arrives while nobody is registered and is lost', p.loc(late[0]) if late else p.loc(fn))


def copy_update_rule(ctx):
    from ..generic_rules import copy_update
    copy_update(ctx, 'C12.copy-update', ['bumble.gatt_client', 'bumble.gatt_server', 'bumble.gatt'])


def space_after_match(ctx):
    """Find By Type Value: response room is consumed by the entries that are reported, i.e. the decrement of
    pdu_space_available follows attributes.append(...) in the same block - consuming it per examined candidate ends the
    search after (MTU-1)/4 non-matching services although matching ones follow."""
    R, p = ctx.r, ctx.p
    rule = 'C12.space-after-match'
    fn = p.find(f'{SRV}.on_att_find_by_type_value_request')
    if fn is None:
        R.bad(rule, f'{SRV}.on_att_find_by_type_value_request', 'anchor missing')
        return
    decs = [s_ for s_ in walk_local(fn) if isinstance(s_, ast.AugAssign) and dotted(s_.target) == 'pdu_space_available' and isinstance(s_.op, ast.Sub)]
    decs += [s_ for s_ in walk_local(fn) if isinstance(s_, ast.Assign) and dotted(s_.targets[0]) == 'pdu_space_available' and isinstance(s_.value, ast.BinOp) and isinstance(s_.value.op, ast.Sub) and norm(s_.value.left) == 'pdu_space_available']
    R.check(len(decs) >= 1, rule, f'{SRV}.on_att_find_by_type_value_request | accounting', f'{len(decs)} decrement(s)', 'no accounting of the response room found', p.loc(fn))
    for d in decs:
        par = getattr(d, '_parent', None)
        blk = next((b for b in (getattr(par, 'body', None), getattr(par, 'orelse', None)) if isinstance(b, list) and d in b), [])
        i = blk.index(d) if d in blk else 0
        ok = any(isinstance(s_, ast.Expr) and isinstance(s_.value, ast.Call) and call_attr(s_.value) == 'append' and dotted(s_.value.func.value) == 'attributes' for s_ in blk[:i]) and not any(isinstance(x, (ast.Continue, ast.Break)) for s_ in blk[:i] for x in ast.walk(s_) if not isinstance(s_, (ast.Try, ast.If)))
        R.check(ok, rule, f'{SRV}.on_att_find_by_type_value_request | {norm(d)}', 'after attributes.append(...) in the same block', 'response room is consumed for a candidate that may not be reported: after (ATT_MTU-1)/4 attributes of the requested type that do not match, the search stops and a matching service further on is never found (discover_service returns nothing)', p.loc(d))


def included_first(ctx):
    """Services occupy disjoint handle ranges: Server.add_service registers a not yet registered included service before it
    adds its own service declaration (no recursive add_service once the declaration is in), and add_services does not add a
    service that is already registered."""
    R, p = ctx.r, ctx.p
    rule = 'C12.included-first'
    fn = p.find(f'{SRV}.add_service')
    fs = p.find(f'{SRV}.add_services')
    if fn is None or fs is None:
        R.bad(rule, f'{SRV}.add_service / add_services', 'anchor missing')
        return
    late = []

    class D(paths.Domain):
        def event(self, node, v):
            if isinstance(node, ast.Call) and dotted(node.func) == 'self.add_attribute' and node.args and norm(node.args[0]) == 'service':
                return (True,)
            if isinstance(node, ast.Call) and dotted(node.func) == 'self.add_service' and v:
                late.append(node)
            return (v,)
    paths.run(fn, D(), False)
    decl = [c for c in calls_in(fn) if dotted(c.func) == 'self.add_attribute' and c.args and norm(c.args[0]) == 'service']
    R.check(len(decl) == 1 and not late, rule, f'{SRV}.add_service', 'included services are registered before the service declaration is added', 'an included service is registered after the including service\'s declaration is in the database: its attributes lie inside the including service\'s handle range - discovery never reports it as a service of its own and attributes its characteristics to the including service', p.loc(late[0]) if late else p.loc(fn))
    adds = [c for c in calls_in(fs) if dotted(c.func) == 'self.add_service']
    ok = bool(adds) and all(any('self.services' in norm(t) and ((' not in ' in norm(t)) == pol) for t, pol in paths.flat_guards(c, stop=fs)) for c in adds)
    R.check(ok, rule, f'{SRV}.add_services', 'skips services that are already registered', 'add_services registers a service again that was already registered as an included service: its attributes exist twice', p.loc(fs))


def total_mappers_rule(ctx):
    from .c10 import total_mappers_rule as shared
    shared(ctx, 'C12.total-mappers')


def discovery_exits(ctx):
    """The Find Information loops of the client end on what the server says (error response, empty response, end of the
    handle range), never on an estimate of how full the last response was: the server also ends a response where the UUID
    width changes, so "there was room left" does not mean "there is nothing more"."""
    R, p = ctx.r, ctx.p
    rule = 'C12.discovery-exits'
    n = 0
    for name in ('discover_descriptors', 'discover_attributes'):
        fn = p.find(f'{CLI}.{name}')
        if fn is None:
            R.bad(rule, f'{CLI}.{name}', 'anchor missing')
            continue
        for b in [x for x in walk_local(fn) if isinstance(x, (ast.Break, ast.Return))]:
            n += 1
            g = [norm(t) for t, pol in paths.flat_guards(b, stop=fn)]
            sized = [t for t in g if 'mtu' in t.lower() or 'len(' in t]
            R.check(not sized, rule, f'{CLI}.{name} | exit at line {b.lineno - fn.lineno}', 'decided by the server\'s answer', f'{name} stops when `{sized[0] if sized else ""}`: a response that ends early because the next attribute has another UUID width is taken for the last one - the descriptors behind it (the CCCD after a 128-bit descriptor) are never discovered and subscribe() silently does nothing', p.loc(b))
    R.check(n >= 4, rule, f'{CLI} | Find Information loops', f'{n} exits', f'only {n} exits found')


def service_identity(ctx):
    """A discovered service is identified by its handle: Client.on_service_discovered keeps a service unless one with the
    same handle is already known - two instances of one service UUID are two services."""
    R, p = ctx.r, ctx.p
    rule = 'C12.service-identity'
    fn = p.find(f'{CLI}.on_service_discovered')
    if fn is None:
        R.bad(rule, f'{CLI}.on_service_discovered', 'anchor missing')
        return
    by_handle = [c for c in ast.walk(fn) if isinstance(c, ast.Compare) and isinstance(c.ops[0], (ast.Eq, ast.NotEq)) and norm(c.left).endswith('.handle') and norm(c.comparators[0]).endswith('.handle')]
    by_uuid = [x for x in ast.walk(fn) if (isinstance(x, ast.Call) and 'uuid' in (call_attr(x) or '')) or (isinstance(x, ast.Compare) and 'uuid' in norm(x))]
    R.check(bool(by_handle) and not by_uuid, rule, f'{CLI}.on_service_discovered', 'known = same handle', f'a discovered service is dropped as "already known" by `{norm(by_uuid[0])[:50] if by_uuid else "?"}`: the second instance of a service UUID never enters the client\'s service list, its characteristics are never discovered', p.loc(by_uuid[0]) if by_uuid else p.loc(fn))


def max_value_inclusive(ctx):
    """A value of exactly GATT_MAX_ATTRIBUTE_VALUE_SIZE (512) octets is legal: every size test against that constant in the
    server rejects with a strict `>` (Write Request and Write Command agree)."""
    R, p = ctx.r, ctx.p
    rule = 'C12.max-value-inclusive'
    m = p.modules.get('bumble.gatt_server')
    if m is None:
        R.bad(rule, 'bumble.gatt_server', 'anchor missing')
        return
    n = 0
    for c in [x for x in ast.walk(m.tree) if isinstance(x, ast.Compare) and len(x.ops) == 1 and any('GATT_MAX_ATTRIBUTE_VALUE_SIZE' in norm(s_) for s_ in [x.left] + x.comparators)]:
        n += 1
        left_const = 'GATT_MAX_ATTRIBUTE_VALUE_SIZE' in norm(c.left)
        strict = isinstance(c.ops[0], ast.Lt) if left_const else isinstance(c.ops[0], ast.Gt)
        accept = isinstance(c.ops[0], ast.GtE) if left_const else isinstance(c.ops[0], ast.LtE)
        R.check(strict or accept, rule, f'{p.qual_of(c)} | {norm(c)[:60]}', '512 octets are accepted', f'`{norm(c)[:70]}` treats a value of exactly the maximum size as too long: a legal 512-octet write is refused (a Write Command of that size is dropped without any error)', f'{m.rel}:{c.lineno}')
    R.check(n >= 2, rule, 'bumble.gatt_server | size tests against the maximum', f'{n}', f'only {n} found')


RULES = [
    ('C12.max-value-inclusive', max_value_inclusive),
    ('C12.service-identity', service_identity),
    ('C12.discovery-exits', discovery_exits),
    ('C12.total-mappers', total_mappers_rule),
    ('C12.included-first', included_first),
    ('C12.space-after-match', space_after_match),
    ('C12.copy-update', copy_update_rule),
    ('C12.subscribe-order', subscribe_order),
    ('C12.accessor-argument', accessor_argument),
    ('C12.eatt-mtu', eatt_mtu),
    ('C12.truncation-bound', truncation_bound),
    ('C12.mtu-fresh', mtu_fresh),
    ('C12.fanout-independent', fanout_independent),
    ('C12.integer-arithmetic', integer_arithmetic_rule),
    ('C12.missing-await', missing_await_rule),
    ('C12.sdu-boundary', sdu_boundary),
    ('C12.encode-once', encode_once),
    ('C12.mtu-agreement', mtu_agreement_rule),
    ('C12.late-binding', late_binding_rule),
    ('C12.indication-slot', indication_slot),
    ('C12.uuid-wire', uuid_wire),
    ('C12.include-agreement', include_agreement),
    ('C12.subscriber-lifetime', subscriber_lifetime),
    ('C12.client-group-ends', client_group_ends),
    ('C12.progress', progress),
    ('C12.kind', kind),
    ('C12.cccd-bits', cccd_bits),
    ('C12.no-skip', no_skip),
    ('C12.group-ends', group_ends),
]

VARIANTS = [
    ('discover_attributes loses the empty guard', 'bumble/gatt_client.py',
     "            # Stop if for some reason the list was empty\n            if not response.information:\n                break\n\n            for attribute_handle, attribute_uuid in response.information:\n                if attribute_handle < starting_handle:\n                    # Something's not right\n                    logger.warning(f'bogus handle value: {attribute_handle}')\n                    return []\n\n                attribute = AttributeProxy",
     "            for attribute_handle, attribute_uuid in response.information:\n                if attribute_handle < starting_handle:\n                    # Something's not right\n                    logger.warning(f'bogus handle value: {attribute_handle}')\n                    return []\n\n                attribute = AttributeProxy", 'fire', 'C12.progress'),
    ('characteristics progress from the declaration body', 'bumble/gatt_client.py',
     "                starting_handle = response.attributes[-1][0] + 1\n\n            # Set the end handle for the last characteristic",
     "                starting_handle = characteristics[-1].handle + 1\n\n            # Set the end handle for the last characteristic", 'fire', 'C12.progress'),
    ('services loop without monotonic guard', 'bumble/gatt_client.py',
     "                if (\n                    attribute_handle < starting_handle\n                    or end_group_handle < attribute_handle\n                ):\n                    # Something's not right\n                    logger.warning(\n                        f'bogus handle values: {attribute_handle} {end_group_handle}'\n                    )\n                    return []\n\n                # Create a service proxy for this service\n                service = ServiceProxy(\n                    self,\n                    attribute_handle,\n                    end_group_handle,\n                    UUID.from_bytes(attribute_value),",
     "                if attribute_handle < starting_handle:\n                    return []\n\n                # Create a service proxy for this service\n                service = ServiceProxy(\n                    self,\n                    attribute_handle,\n                    end_group_handle,\n                    UUID.from_bytes(attribute_value),", 'fire', 'C12.progress'),
    ('indicate_subscriber uses the notification helper', 'bumble/gatt_server.py',
     "            return await self._indicate_single_bearer(bearer, attribute, value, force)\n", "            return await self._notify_single_subscriber(bearer, attribute, value, force)\n", 'fire', 'C12.kind'),
    ('indication path tests the notify bit', 'bumble/gatt_server.py', "            if len(cccd) != 2 or (cccd[0] & 0x02 == 0):\n", "            if len(cccd) != 2 or (cccd[0] & 0x01 == 0):\n", 'fire', 'C12.cccd-bits'),
    ('find information skips a differently sized uuid', 'bumble/gatt_server.py',
     "                if this_uuid_size != uuid_size:\n                    break\n", "                if this_uuid_size != uuid_size:\n                    continue\n", 'fire', 'C12.no-skip'),
    ('service end handle set before characteristics', 'bumble/gatt_server.py',
     "        # Add all characteristics\n        for characteristic in service.characteristics:\n", "        service.end_group_handle = self.attributes[-1].handle\n        # Add all characteristics\n        for characteristic in service.characteristics:\n", 'silent', ''),
    ('characteristic end handle before CCCD', 'bumble/gatt_server.py',
     "            # If the characteristic supports subscriptions, add a CCCD descriptor\n            # unless there is one already\n",
     "            characteristic.end_group_handle = self.attributes[-1].handle\n            # If the characteristic supports subscriptions, add a CCCD descriptor\n            # unless there is one already\n", 'fire', 'C12.group-ends'),
    ('subscriptions survive the bearer', 'bumble/gatt_server.py', "        self.subscribers.pop(bearer, None)\n", "", 'fire', 'C12.subscriber-lifetime'),
    ('benign: tables dropped in a loop', 'bumble/gatt_server.py', "        self.subscribers.pop(bearer, None)\n        self.indication_semaphores.pop(bearer, None)\n", "        for table in (self.subscribers, self.indication_semaphores):\n            table.pop(bearer, None)\n", 'silent', ''),
    ('filtered declarations do not close the previous group', 'bumble/gatt_client.py', "                    characteristic_uuid = UUID.from_bytes(attribute_value[3:])\n", "                    characteristic_uuid = UUID.from_bytes(attribute_value[3:])\n                    if uuids and characteristic_uuid not in uuids:\n                        continue\n", 'fire', 'C12.client-group-ends'),
]
