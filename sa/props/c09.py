"""C09 — L2CAP channel tables stay exact; closed identifiers are reusable."""
from __future__ import annotations

import ast
from collections import namedtuple

from .. import paths, waiters
from ..core import FUNC, call_attr, calls_in, const, dotted, kwarg, is_const, norm, text, walk_local

EXPLANATION = [
    'C09.request-scope: every walk over le_coc_requests in bumble.l2cap is restricted to one connection handle, and LeCreditBasedChannel.connect tests the (handle, identifier) key by membership.',
    'C09.refusal-closes: ClassicChannel._disconnect_sync is called only from disconnect() and the configuration handlers; a refused Connection Response sets the state to CLOSED directly.',
    'C09.primitive-rebinding: no method of a bumble.l2cap class replaces an asyncio.Event / Lock / Semaphore created in __init__ (a pending drain() waits on the old object for ever).',
    'C09.teardown-contained: each abort() in the loops of ChannelManager.on_disconnection is inside a try / except Exception (no re-raise) within the loop body: one failing close listener does not stop the teardown of the link.',
    'C09.disconnect-check-act: ClassicChannel / LeCreditBasedChannel.disconnect have no await between the state test and the statement that changes the state (test and start of the procedure are one event-loop step).',
    'C09.disconnect-request-answered: ClassicChannel / LeCreditBasedChannel.on_disconnection_request send exactly one Disconnection Response and release the channel on every path (no silent discard of a request the manager routed to the channel).',
    'C09.reject-ends-open: ChannelManager.on_l2cap_command_reject removes the rejected request from le_coc_requests (keyed by connection and identifier) and tells the channel, whose handler fails the pending connection_result: a rejected open ends.',
    'C09.mismatch-closes-both: the mode-mismatch branch of ClassicChannel.on_configure_request both fails a pending connect() and sends the Disconnection Request on every path.',
    "C09.response-closes: in both channel classes on_disconnection_response returns early only on the state test and the CID tests: no other condition (such as the manager's link-wide identifier counter) can make a matching response leave the channel DISCONNECTING.",
    'C09.settle-guard: every set_result / set_exception on a future kept in a channel attribute is under `not <future>.done()`, unless every coroutine waiting on that attribute clears it in a finally (a waiter that timed out leaves a cancelled future behind; settling it raises InvalidStateError in the middle of the link teardown).',
    "C09.waiter-scope: every cancel-on-disconnection wrapper in bumble.l2cap is tied to the operation's own connection (connection.cancel_on_disconnection, or cancel_on_event on the connection / channel), never to the host-wide disconnection event.",
    'C09.unordered-pairing: no zip() / enumerate() pairs positions with a set (literal, comprehension, set() call or a name bound only to such): the order of a set is arbitrary.',
    'C09.one-shot: no name bound to a generator expression or to filter() / map() / zip() / reversed() / enumerate() is read in more than one consuming position or inside a loop that evaluates it repeatedly: such an iterator is empty after its first walk.',
    "C09.identity: no `is` / `is not` comparison in the anchored modules has an operand declared as a number, byte string or string (identity of equal integers holds only inside CPython's small-integer cache, so such a test is right for values up to 256 and wrong afterwards).",
    'C09.listeners: the channel manager subscribes to the host\'s disconnection event with on(), not once(): every lost link, not just the first, triggers the table clean-up.',
    'C09.stale-loopvar: no comprehension or generator expression in bumble.l2cap reads the variable of a `for` loop that has already finished (it would be the last item for every element): table registrations built from a list of channels key each channel by its own identifiers.',
    'C09.cid-domain: every keyed access (subscript, get/pop, membership, set intersection) to a per-connection channel table uses a key of that table\'s numbering: `channels` own-allocated identifiers (find_free_*, channel.source_cid), `le_coc_channels` peer-allocated ones (request.source_cid in a request handler, *.destination_cid); no method replaces a per-connection table as a whole.',
    'C09.identifier-range: interval evaluation of ChannelManager.next_identifier over its paths shows that, for a previous identifier anywhere in 0..255, the identifier returned is in 1..255 and the one stored in 0..255 (induction from the initial 0): it always fits the one-byte field of a signalling frame and is never the invalid 0.',
    'C09.batch-order: the acceptor of an enhanced credit-based request creates its channels by iterating the request\'s source CID list itself and answers with their CIDs in creation order: the i-th CID of the response belongs to the i-th CID of the request.',
    'C09.allocator-scan: every identifier a find_free_* allocator returns was individually tested `not in` the table it was given (no block allocation from the first free one).',
    'C09.response-echo: both channel classes answer a Disconnection Request with the request\'s own identifier, destination_cid and source_cid; the manager matches the response by the echoed source CID.',
    'C09.symmetric: the set of ChannelManager tables a channel of each class is '
    'inserted into (extracted from the insert sites) must be removed again by '
    'on_channel_closed on every path (evaluated per channel class), with the '
    'same key attribute; on_disconnection drops every per-connection table; '
    'failure paths of the create_* coroutines remove what they inserted.',
    'C09.keying: tables indexed by a per-connection signalling identifier are '
    'indexed by connection handle as well.',
    'C09.waiters: every bare await on a future/event in l2cap.py is wrapped in a '
    'cancel-on-disconnection helper or settled by every teardown method of its '
    'owner on all paths.',
    'C09.close-releases: every path on which an LE credit-based channel becomes DISCONNECTED releases drain() and disconnect() waiters.',
    'C09.cid-alloc: the CID allocator scans the table the channel is then '
    'inserted into; dynamic CID / PSM ranges equal the specification\'s.',
    'C09.state-table: every transition to CLOSED/DISCONNECTED is paired with '
    'on_channel_closed or occurs where the creating coroutine removes the entry.',
    'Not decided: exactness of the tables after arbitrary histories (runtime).',
]
ASSUMPTIONS = [
    'a channel object is inserted only through the subscript-assignment idiom on a table alias (checked: inserts are enumerated and a floor is enforced)',
]

CM = 'bumble.l2cap.ChannelManager'
LE = 'bumble.l2cap.LeCreditBasedChannel'
CC = 'bumble.l2cap.ClassicChannel'
CL = 'bumble.l2cap.ClassicChannel'
TABLES = ('channels', 'le_coc_channels')


def _table_aliases(fn):
    """local name -> manager table it aliases (`x = self.T.setdefault(h, {})`,
    `if x := self.T.get(h)`)."""
    out = {}
    for n in ast.walk(fn):
        tgt = val = None
        if isinstance(n, ast.Assign) and len(n.targets) == 1:
            tgt, val = n.targets[0], n.value
        elif isinstance(n, ast.NamedExpr):
            tgt, val = n.target, n.value
        if tgt is None or not isinstance(tgt, ast.Name) or not isinstance(val, ast.Call):
            continue
        f = val.func
        if isinstance(f, ast.Attribute) and f.attr in ('setdefault', 'get', 'pop'):
            d = dotted(f.value) or ''
            if d.startswith('self.') and d.count('.') == 1:
                out[tgt.id] = d[5:]
    return out


def _channel_class_of(fn, name, seen=None):
    """class constructed into local `name` in fn (LeCreditBasedChannel/ClassicChannel)."""
    seen = seen or set()
    if name in seen or name is None:
        return None
    seen.add(name)
    for n in ast.walk(fn):
        if isinstance(n, ast.Assign) and any(dotted(t) == name for t in n.targets) and isinstance(n.value, ast.Call):
            c = call_attr(n.value)
            if c in ('LeCreditBasedChannel', 'ClassicChannel'):
                return c
    for n in ast.walk(fn):
        if isinstance(n, ast.For) and dotted(n.target) == name:
            # `for channel in channels:` where channels is a list of constructed channels
            src = dotted(n.iter)
            for m in ast.walk(fn):
                if isinstance(m, ast.Call) and dotted(m.func) == f'{src}.append' and m.args:
                    r = _channel_class_of(fn, dotted(m.args[0]), seen)
                    if r:
                        return r
            # `x, channels = pending` with pending taken out of a table whose declared element type names the channel class
            for m in ast.walk(fn):
                if isinstance(m, ast.Assign) and isinstance(m.targets[0], ast.Tuple) and any(dotted(e) == src for e in m.targets[0].elts):
                    cls_ = fn
                    while cls_ is not None and not isinstance(cls_, ast.ClassDef):
                        cls_ = getattr(cls_, '_parent', None)
                    anns = ' '.join(text(a.annotation) for a in (cls_.body if cls_ is not None else []) if isinstance(a, ast.AnnAssign) and 'pending' in (dotted(a.target) or ''))
                    names = {c for c in ('LeCreditBasedChannel', 'ClassicChannel') if c in anns}
                    if len(names) == 1:
                        return names.pop()
    return None


def inserts(p):
    """[(method, table, key expr text, channel class, node)]"""
    cm = p.cls(CM)
    out = []
    for name, m in cm.methods.items():
        al = _table_aliases(m)
        for n in walk_local(m):
            if isinstance(n, ast.Assign) and len(n.targets) == 1 and isinstance(n.targets[0], ast.Subscript):
                t = n.targets[0]
                base = dotted(t.value)
                if base in al and al[base] in TABLES:
                    cls = _channel_class_of(m, dotted(n.value))
                    if cls is None:
                        # found by lookup, its class established by an isinstance guard on the way to the insert
                        for t_, pol in paths.flat_guards(n, stop=m):
                            if pol and isinstance(t_, ast.Call) and dotted(t_.func) == 'isinstance' and len(t_.args) == 2 and dotted(t_.args[0]) == dotted(n.value) and dotted(t_.args[1]) in ('LeCreditBasedChannel', 'ClassicChannel'):
                                cls = dotted(t_.args[1])
                    out.append((name, al[base], norm(t.slice), cls, n))
    return out


RS = namedtuple('RS', 'cls removed')


class CloseDomain(paths.Domain):
    """Partial evaluation of on_channel_closed for a channel of class `cls`
    that is present in every table (lookups succeed)."""

    def __init__(self, aliases, param):
        self.al, self.param = aliases, param

    def event(self, node, v: RS):
        rem = None
        if isinstance(node, ast.Call) and isinstance(node.func, ast.Attribute) and node.func.attr == 'pop':
            base = dotted(node.func.value)
            if base in self.al and node.args:
                rem = (self.al[base], norm(node.args[0]))
        if isinstance(node, ast.Delete):
            for t in node.targets:
                if isinstance(t, ast.Subscript) and dotted(t.value) in self.al:
                    rem = (self.al[dotted(t.value)], norm(t.slice))
        if rem:
            return (v._replace(removed=v.removed | {rem}),)
        return (v,)

    def assume(self, atom, truth, v: RS):
        t = norm(atom)
        if t.startswith(f'isinstance({self.param},'):
            is_le = 'LeCreditBasedChannel' in t and 'ClassicChannel' not in t
            is_cl = 'ClassicChannel' in t and 'LeCreditBasedChannel' not in t
            if is_le:
                return (v,) if truth == (v.cls == 'LeCreditBasedChannel') else ()
            if is_cl:
                return (v,) if truth == (v.cls == 'ClassicChannel') else ()
        # table lookups succeed, and the entry found is this channel
        if isinstance(atom, ast.NamedExpr) or '.get(' in t or t.endswith(f' is {self.param}'):
            return (v,) if truth else ()
        return (v,)


def symmetric(ctx):
    R, p = ctx.r, ctx.p
    rule = 'C09.symmetric'
    cm = p.cls(CM)
    if cm is None:
        R.bad(rule, CM, f'anchor missing: {CM}')
        return
    ins = inserts(p)
    by_cls = {}
    for meth, table, key, cls, node in ins:
        if cls is None:
            R.bad(rule, f'{CM}.{meth} | insert into {table}[{key}]', 'cannot determine the class of the inserted channel', p.loc(node))
            continue
        by_cls.setdefault(cls, set()).add(table)
        # keys: channels by our own source CID, le_coc_channels by destination CID
        want = 'source_cid' if table == 'channels' else 'destination_cid'
        good = want in key and ('destination_cid' if want == 'source_cid' else 'source_cid') not in key.replace('request.source_cid', 'destination_cid').replace(want, '')
        if table == 'le_coc_channels':
            # the peer's source CID *is* our destination CID
            good = key in ('channel.destination_cid', 'destination_cid', 'request.source_cid')
        else:
            good = key in ('source_cid', 'channel.source_cid')
        R.check(good, 'C09.symmetric', f'{CM}.{meth} | {cls} -> {table}[{key}]',
                f'inserted under its {want}', f'{table} is indexed by {want} everywhere else, but this insert uses `{key}`', p.loc(node))
    R.extra['inserted_tables'] = {k: sorted(v) for k, v in by_cls.items()}
    occ = p.find(f'{CM}.on_channel_closed')
    if occ is None:
        R.bad(rule, f'{CM}.on_channel_closed', f'anchor missing: {CM}.on_channel_closed')
        return
    param = occ.args.args[1].arg
    al = _table_aliases(occ)
    for cls, tables in sorted(by_cls.items()):
        res = paths.run(occ, CloseDomain(al, param), RS(cls, frozenset()))
        key = f'{CM}.on_channel_closed | {cls}:{{{",".join(sorted(tables))}}}'
        bad = []
        for k, st in res.items():
            if k.startswith('raise'):
                continue
            for v, w in st.items():
                removed = {t for t, _ in v.removed}
                if not tables <= removed:
                    bad.append(f'{k} removes only {sorted(removed)} via {" ".join(w)}')
                for t, kx in v.removed:
                    want = 'source_cid' if t == 'channels' else 'destination_cid'
                    if t in tables and not kx.endswith('.' + want):
                        bad.append(f'removes from {t} by `{kx}` but entries are stored by {want}')
        R.check(not bad, rule, key, f'a closed {cls} is removed from {sorted(tables)} on every path',
                f'a closed {cls} stays in a table it was inserted into: ' + '; '.join(bad), p.loc(occ))
    R.floor(rule, 6, 'insert sites + close evaluations')

    # on_disconnection drops every per-connection table
    od = p.find(f'{CM}.on_disconnection')
    if od is None:
        R.bad(rule, f'{CM}.on_disconnection', f'anchor missing: {CM}.on_disconnection')
        return
    hparam = od.args.args[1].arg
    per_conn = per_connection_tables(p)

    class Clean(paths.Domain):
        """value = set of per-connection tables cleaned so far (path-sensitive)."""

        def event(self, node, v):
            if isinstance(node, ast.Call) and isinstance(node.func, ast.Attribute) and node.func.attr == 'pop' and node.args and dotted(node.args[0]) == hparam:
                d = dotted(node.func.value) or ''
                if d.startswith('self.'):
                    return (v | {d[5:]},)
            if isinstance(node, ast.Delete):
                for t in node.targets:
                    if isinstance(t, ast.Subscript) and (dotted(t.value) or '').startswith('self.') and dotted(t.slice) == hparam:
                        return (v | {dotted(t.value)[5:]},)
            if isinstance(node, ast.For):
                # `for k in [k for k in self.T if k[0] == handle]: del self.T[k]` cleans T whatever the number of matches
                for a in per_conn:
                    if f'self.{a}' in text(node.iter) and hparam in text(node.iter) and any(
                        isinstance(x, ast.Delete) and any(isinstance(t, ast.Subscript) and dotted(t.value) == f'self.{a}' for t in x.targets) for x in ast.walk(node)
                    ):
                        return (v | {a},)
            return (v,)

    res = paths.run(od, Clean(), frozenset())
    for attr, how in sorted(per_conn.items()):
        bad = [f'{k} via {" ".join(w)}' for k, st in res.items() if not k.startswith('raise') for v, w in st.items() if attr not in v]
        R.check(not bad, rule, f'{CM}.on_disconnection | {attr}', f'per-connection table ({how}) is dropped on every path of on_disconnection',
                f'per-connection table `{attr}` ({how}) is not cleaned on some path when the link disconnects (stale entries survive into the next connection that reuses the handle)', p.loc(od), bad)
    # channels of the connection are aborted
    for t in TABLES:
        ok = False
        for n in ast.walk(od):
            if isinstance(n, ast.For) and any(call_attr(c) == 'abort' for c in calls_in(n)):
                src = text(n.iter)
                al2 = _table_aliases(od)
                base = src.split('.')[0]
                if al2.get(base) == t:
                    ok = True
        R.check(ok, rule, f'{CM}.on_disconnection | abort {t}', f'every channel in {t} of the lost link is aborted', f'channels in {t} are not aborted on disconnection', p.loc(od))

    # failure paths of create_*: what was inserted is removed before re-raising
    for cname in ('create_le_credit_based_channel', 'create_classic_channel', 'create_enhanced_credit_based_channels'):
        fn = cm.methods.get(cname)
        if fn is None:
            R.bad(rule, f'{CM}.{cname}', f'anchor missing: {CM}.{cname}')
            continue
        al = _table_aliases(fn)

        class D(paths.Domain):
            def event(self, node, v):
                if isinstance(node, ast.Assign) and len(node.targets) == 1 and isinstance(node.targets[0], ast.Subscript) and al.get(dotted(node.targets[0].value)) == 'channels':
                    return (1,)
                if isinstance(node, ast.Delete) and any(isinstance(t, ast.Subscript) and al.get(dotted(t.value)) == 'channels' for t in node.targets):
                    return (0,)
                if isinstance(node, ast.Call) and isinstance(node.func, ast.Attribute) and node.func.attr == 'pop' and al.get(dotted(node.func.value)) == 'channels':
                    return (0,)
                return (v,)

            def assume(self, atom, truth, v):
                # a channel that is waiting for the peer's Disconnection Response stays registered: the response handler
                # deregisters it (C09.state-table), the link teardown drops the whole table
                if v == 1 and isinstance(atom, ast.Compare) and len(atom.ops) == 1 and 'WAIT_DISCONNECT' in norm(atom) and '.state' in norm(atom):
                    waiting = truth if isinstance(atom.ops[0], ast.Eq) else (not truth if isinstance(atom.ops[0], ast.NotEq) else None)
                    if waiting:
                        return (2,)
                return (v,)

            def may_raise(self, call):
                par = getattr(call, '_parent', None)
                return True if isinstance(par, ast.Await) else None

            def loop_nonempty(self, stmt):
                return True  # the lists of CIDs/channels iterated here are checked non-empty above

        class D2(D):
            pass

        it = paths.Interp(D())
        # awaiting a bare future may raise too
        orig = it.ev

        def ev(e, st, _orig=orig, _it=it):
            if isinstance(e, ast.Await):
                # any await can be cancelled by the caller (wait_for timeout): CancelledError is not an Exception
                _it._raise('CancelledError', st)
                if not isinstance(e.value, ast.Call):
                    _it._raise('?', st)
            return _orig(e, st)

        it.ev = ev
        res = it.run(fn, 0)
        bad = [f'{k} via {" ".join(w)}' for k, st in res.items() if k.startswith('raise') for v, w in st.items() if v == 1]
        R.check(not bad, rule, f'{CM}.{cname} | failure path', 'a failed connect removes the channel(s) it had registered before re-raising',
                f'{cname}: a failure or a cancellation after registering the channel leaves it in `channels` (its CID is never reusable)', p.loc(fn), bad)


def per_connection_tables(p):
    """ChannelManager dict attributes that are keyed by a connection handle."""
    cm = p.cls(CM)
    init = cm.methods.get('__init__')
    attrs = set()
    for n in walk_local(init):
        if isinstance(n, ast.Assign) and isinstance(n.value, ast.Dict) and not n.value.keys:
            for t in n.targets:
                d = dotted(t) or ''
                if d.startswith('self.'):
                    attrs.add(d[5:])
    out = {}
    for c in p.classes.values():
        if c.module.name != 'bumble.l2cap':
            continue
        for m in c.methods.values():
            for n in ast.walk(m):
                key = base = None
                if isinstance(n, ast.Call) and isinstance(n.func, ast.Attribute) and n.func.attr in ('setdefault', 'get', 'pop') and n.args:
                    base, key = dotted(n.func.value), n.args[0]
                elif isinstance(n, ast.Subscript):
                    base, key = dotted(n.value), n.slice
                if not base:
                    continue
                a = base.split('.')[-1]
                if a in attrs and base in (f'self.{a}', f'self.manager.{a}'):
                    k = norm(key)
                    if k.endswith('.handle') or k in ('connection_handle',) or (isinstance(key, ast.Tuple) and any(norm(e).endswith('.handle') for e in key.elts)) or k.startswith('(') and '.handle' in k:
                        out[a] = 'keyed by ' + k
                    elif k == 'request_key':
                        out[a] = 'keyed by (handle, identifier)'
    return out


# ---------------------------------------------------------------------------
CID_DOMAIN = {'channels': 'own', 'le_coc_channels': 'peer'}


def _cid_accesses(m):
    """(alias table, key expression, node) for every keyed access to a per-connection channel table in method m."""
    al = {k: v for k, v in _table_aliases(m).items() if v in TABLES}
    out = []

    def alias_in(e):
        # alias, set(alias), alias.keys()
        if isinstance(e, ast.Name) and e.id in al:
            return al[e.id]
        if isinstance(e, ast.Call) and e.args and dotted(e.func) in ('set', 'list', 'frozenset') and isinstance(e.args[0], ast.Name) and e.args[0].id in al:
            return al[e.args[0].id]
        if isinstance(e, ast.Call) and isinstance(e.func, ast.Attribute) and e.func.attr == 'keys' and isinstance(e.func.value, ast.Name) and e.func.value.id in al:
            return al[e.func.value.id]
        return None
    for n in ast.walk(m):
        if isinstance(n, ast.Subscript) and isinstance(n.value, ast.Name) and n.value.id in al:
            out.append((al[n.value.id], n.slice, n))
        elif isinstance(n, ast.Call) and isinstance(n.func, ast.Attribute) and n.func.attr in ('get', 'pop', 'setdefault') and isinstance(n.func.value, ast.Name) and n.func.value.id in al and n.args:
            out.append((al[n.func.value.id], n.args[0], n))
        elif isinstance(n, ast.Compare) and len(n.ops) == 1 and isinstance(n.ops[0], (ast.In, ast.NotIn)) and alias_in(n.comparators[0]):
            out.append((alias_in(n.comparators[0]), n.left, n))
        elif isinstance(n, ast.Call) and isinstance(n.func, ast.Attribute) and n.func.attr in ('intersection', 'isdisjoint', 'difference', 'issubset') and n.args:
            a, b = n.func.value, n.args[0]
            if alias_in(b):
                out.append((alias_in(b), a, n))
            elif alias_in(a):
                out.append((alias_in(a), b, n))
        elif isinstance(n, ast.BinOp) and isinstance(n.op, (ast.BitAnd, ast.Sub)):
            if alias_in(n.right):
                out.append((alias_in(n.right), n.left, n))
            elif alias_in(n.left):
                out.append((alias_in(n.left), n.right, n))
    return out


def _cid_classifier(m):
    """expression -> 'own' | 'peer' | None: whose numbering a channel identifier expression belongs to."""
    params = [a.arg for a in m.args.args]
    peer_request = {a for a in params if a == 'request'} if m.name.startswith('on_') and m.name.endswith('_request') else set()
    dom = {}

    def classify(e):
        if isinstance(e, ast.Name):
            return dom.get(e.id)
        if isinstance(e, ast.Attribute):
            if e.attr == 'destination_cid':
                return 'peer'
            if e.attr == 'source_cid':
                return 'peer' if dotted(e.value) in peer_request else 'own'
            return None
        if isinstance(e, ast.Call):
            nm = call_attr(e) or ''
            if nm.startswith('find_free_'):
                return 'own'
            if dotted(e.func) in ('set', 'list', 'sorted', 'tuple', 'frozenset') and e.args:
                return classify(e.args[0])
            return None
        if isinstance(e, ast.Subscript):
            return classify(e.value)
        if isinstance(e, ast.NamedExpr):
            return classify(e.value)
        return None
    for _ in range(3):
        for n in ast.walk(m):
            tgt = val = None
            if isinstance(n, ast.Assign) and len(n.targets) == 1:
                tgt, val = n.targets[0], n.value
            elif isinstance(n, ast.NamedExpr):
                tgt, val = n.target, n.value
            elif isinstance(n, (ast.For, ast.comprehension)):
                tgt, val = n.target, n.iter
            if isinstance(tgt, ast.Name) and val is not None:
                d = classify(val)
                if d and dom.get(tgt.id) in (None, d):
                    dom[tgt.id] = d
                elif d:
                    dom[tgt.id] = 'mixed'
    return lambda e: (classify(e) if classify(e) in ('own', 'peer') else None)


def cid_domain(ctx, rule='C09.cid-domain'):
    """The two per-connection channel tables are keyed in different numberings: `channels` by identifiers this side
    allocated, `le_coc_channels` by identifiers the peer allocated.  Both sides start numbering at the same value, so a
    key of one numbering looked up in the other table hits an unrelated channel."""
    R, p = ctx.r, ctx.p
    cm = p.cls(CM)
    if cm is None:
        R.bad(rule, CM, 'anchor missing')
        return
    n_known = 0
    for name, m in sorted(cm.methods.items()):
        classify = _cid_classifier(m)
        for table, key, node in _cid_accesses(m):
            d = classify(key)
            if d is None:
                continue
            n_known += 1
            kind = 'membership test' if isinstance(node, (ast.Compare, ast.BinOp)) or (isinstance(node, ast.Call) and node.func.attr in ('intersection', 'isdisjoint', 'difference', 'issubset')) else 'access'
            R.check(d == CID_DOMAIN[table], rule, f'{CM}.{name} | {table}[{norm(key)}]', f'{kind} with a key in the table\'s own numbering ({CID_DOMAIN[table]}-allocated identifiers)',
                    f'`{norm(key)}` is a {d}-allocated channel identifier but `{table}` is keyed by {CID_DOMAIN[table]}-allocated identifiers: both sides number from the same base, so the {kind} hits an unrelated channel (simultaneous opens from both sides are refused or misrouted)', p.loc(node))
    R.check(n_known >= 14, rule, f'{CM} | classified accesses', f'{n_known} keyed accesses with a known numbering', f'only {n_known} keyed accesses classified')
    # per-connection sub-tables are created on demand (setdefault) and removed whole only at disconnection:
    # assigning a fresh dict to self.<table>[handle] forgets every channel already open on that link

    def wipes(tree):
        out = []
        for n in ast.walk(tree):
            tg = n.targets if isinstance(n, ast.Assign) else [n.target] if isinstance(n, (ast.AugAssign, ast.AnnAssign)) else []
            for t in tg:
                if isinstance(t, ast.Subscript) and (dotted(t.value) or '') in ('self.channels', 'self.le_coc_channels', 'self.manager.channels', 'self.manager.le_coc_channels'):
                    out.append(n)
        return out
    control = wipes(ast.parse('def f(self, h, cs):\n    self.le_coc_channels[h] = {c.destination_cid: c for c in cs}\n'))
    found = [(name, n) for name, m in cm.methods.items() for n in wipes(m)]
    R.check(len(control) == 1 and not found, rule, f'{CM} | per-link tables never replaced', 'no method assigns a whole per-connection table (positive control matched)',
            f'a per-connection channel table is replaced as a whole in {sorted({n for n, _ in found})}: channels already open on that link vanish from the table (their credits / PDUs are dropped as unknown)', p.loc(found[0][1]) if found else '')


def signalling_identifier(ctx, rule='C09.identifier-range'):
    """The signalling identifier handed out per connection stays in 1..255 (one byte, 0 is invalid) for every previous
    value: by induction from 0, with the previous identifier anywhere in 0..255."""
    from ..intervals import interval
    R, p = ctx.r, ctx.p
    fn = p.find(f'{CM}.next_identifier')
    if fn is None:
        R.bad(rule, f'{CM}.next_identifier', 'anchor missing')
        return

    class D(paths.Domain):
        # value: interval of `identifier` (None = unknown)
        def event(self, node, v):
            if isinstance(node, ast.Assign) and len(node.targets) == 1 and isinstance(node.targets[0], ast.Name):
                env = dict(v)
                env[node.targets[0].id] = interval(node.value, ENV | {k: x for k, x in env.items() if x is not None})
                return (tuple(sorted(env.items(), key=lambda kv: kv[0])),)
            if isinstance(node, ast.Return) and node.value is not None:
                env = dict(v)
                got = interval(node.value, ENV | {k: x for k, x in env.items() if x is not None})
                returned.append(got)
            if isinstance(node, ast.Assign) and isinstance(node.targets[0], ast.Subscript) and dotted(node.targets[0].value) == 'self.identifiers':
                env = dict(v)
                stored.append(interval(node.value, ENV | {k: x for k, x in env.items() if x is not None}))
            return (v,)

        def assume(self, atom, truth, v):
            # `x == c` refines x to c on the true branch and removes c from an end of the range on the false branch
            if isinstance(atom, ast.Compare) and len(atom.ops) == 1 and isinstance(atom.ops[0], ast.Eq) and isinstance(atom.left, ast.Name) and isinstance(atom.comparators[0], ast.Constant):
                env = dict(v)
                cur, c = env.get(atom.left.id), atom.comparators[0].value
                if cur is not None:
                    if truth:
                        if not (cur[0] <= c <= cur[1]):
                            return ()
                        env[atom.left.id] = (c, c)
                    else:
                        if cur == (c, c):
                            return ()
                        if cur[0] == c:
                            env[atom.left.id] = (c + 1, cur[1])
                        elif cur[1] == c:
                            env[atom.left.id] = (cur[0], c - 1)
                    return (tuple(sorted(env.items(), key=lambda kv: kv[0])),)
            return (v,)
    # the previous identifier: whatever was stored (0..255 by induction), 0 for a new connection
    prev = [norm(c) for c in ast.walk(fn) if isinstance(c, ast.Call) and isinstance(c.func, ast.Attribute) and c.func.attr in ('setdefault', 'get') and dotted(c.func.value) == 'self.identifiers']
    prev += [norm(c) for c in ast.walk(fn) if isinstance(c, ast.Subscript) and isinstance(c.ctx, ast.Load) and dotted(c.value) == 'self.identifiers']
    ENV = {t: (0, 255) for t in prev}
    returned, stored = [], []
    paths.run(fn, D(), ())
    ok = bool(prev) and bool(returned) and all(r is not None and 1 <= r[0] and r[1] <= 255 for r in returned) and bool(stored) and all(s_ is not None and 0 <= s_[0] and s_[1] <= 255 for s_ in stored)
    R.check(ok, rule, f'{CM}.next_identifier', f'returns {returned} and stores {stored} for a previous identifier in 0..255',
            f'for a previous identifier in 0..255 the function returns a value in {returned} (stored {stored}): an identifier outside 1..255 does not fit the one-byte field (struct.error in the middle of an open / close after ~255 signalling requests on a link) or is the invalid 0', p.loc(fn))


def batch_order(ctx, rule='C09.batch-order'):
    """An enhanced credit-based request opens several channels at once: the i-th local channel is created for the i-th
    source CID of the request and the response lists the local CIDs in that order, so the creation loop walks the
    request's own list (not a set or a sorted copy of it)."""
    R, p = ctx.r, ctx.p
    fn = p.find(f'{CM}.on_l2cap_credit_based_connection_request')
    if fn is None:
        R.bad(rule, f'{CM}.on_l2cap_credit_based_connection_request', 'anchor missing')
        return
    req = fn.args.args[-1].arg
    loops = [l for l in walk_local(fn) if isinstance(l, ast.For) and any(call_attr(c) == 'LeCreditBasedChannel' for c in calls_in(l))]
    ok = len(loops) == 1 and norm(loops[0].iter) == f'{req}.source_cid'
    R.check(ok, rule, f'{CM}.on_l2cap_credit_based_connection_request | creation order', f'channels are created by iterating {req}.source_cid itself',
            f'the channel-creation loop iterates `{norm(loops[0].iter) if loops else None}`, not the request\'s list: its order is not the order of the request (a set iterates in hash order), so local channels are bound to the wrong peer CIDs while the response lists them in allocation order', p.loc(loops[0]) if loops else p.loc(fn))
    # the response lists the CIDs of the channels created, in creation order
    rsp = [c for c in calls_in(fn) if call_attr(c) == 'L2CAP_Credit_Based_Connection_Response' and kwarg(c, 'destination_cid') is not None and not (isinstance(kwarg(c, 'destination_cid'), ast.List) and not kwarg(c, 'destination_cid').elts)]
    okr = bool(rsp) and all(isinstance(kwarg(c, 'destination_cid'), (ast.ListComp, ast.Name)) for c in rsp)
    for c in rsp:
        d = kwarg(c, 'destination_cid')
        if isinstance(d, ast.ListComp):
            okr = okr and not any(isinstance(x, ast.Call) and dotted(x.func) in ('sorted', 'set', 'reversed') for x in ast.walk(d))
    R.check(okr, rule, f'{CM}.on_l2cap_credit_based_connection_request | response order', 'the success response lists the local CIDs of the created channels as they were created', 'the response reorders the created channels', p.loc(fn))


def keying(ctx):
    R, p = ctx.r, ctx.p
    rule = 'C09.keying'
    cm = p.cls(CM)
    init = cm.methods.get('__init__') if cm else None
    if init is None:
        R.bad(rule, CM, f'anchor missing: {CM}.__init__')
        return
    dict_attrs = set()
    for n in walk_local(init):
        if isinstance(n, ast.Assign) and isinstance(n.value, ast.Dict) and not n.value.keys:
            for t in n.targets:
                d = dotted(t) or ''
                if d.startswith('self.'):
                    dict_attrs.add(d[5:])
    n_sites = 0
    for c in p.classes.values():
        if c.module.name != 'bumble.l2cap':
            continue
        for mname, m in c.methods.items():
            locals_from = {}
            for n in ast.walk(m):
                if isinstance(n, ast.Assign) and len(n.targets) == 1 and isinstance(n.targets[0], ast.Name):
                    locals_from[n.targets[0].id] = n.value
            for n in ast.walk(m):
                base = key = None
                if isinstance(n, ast.Call) and isinstance(n.func, ast.Attribute) and n.func.attr in ('setdefault', 'get', 'pop') and n.args:
                    base, key = dotted(n.func.value), n.args[0]
                elif isinstance(n, ast.Subscript):
                    base, key = dotted(n.value), n.slice
                elif isinstance(n, ast.Compare) and len(n.ops) == 1 and isinstance(n.ops[0], (ast.In, ast.NotIn)):
                    base, key = dotted(n.comparators[0]), n.left
                if not base:
                    continue
                a = base.split('.')[-1]
                if a not in dict_attrs or base not in (f'self.{a}', f'self.manager.{a}'):
                    continue
                k = norm(key)
                kx = key
                if isinstance(key, ast.Name) and key.id in locals_from:
                    kx = locals_from[key.id]
                kfull = norm(kx)
                if 'identifier' in kfull:
                    n_sites += 1
                    R.check('.handle' in kfull or 'connection_handle' in kfull, rule, f'{c.qual}.{mname} | {a}[{k}]',
                            'identifier-keyed access also carries the connection handle',
                            f'`{a}` is indexed by a signalling identifier alone ({kfull}); identifiers are allocated per connection, so links interfere', p.loc(n))
    R.check(n_sites >= 3, rule, f'{CM} | identifier-keyed sites found', f'{n_sites} identifier-keyed accesses analysed', f'only {n_sites} identifier-keyed accesses found (expected >= 3)')


# ---------------------------------------------------------------------------
TEARDOWN = {
    # class -> methods invoked when the link goes away (ChannelManager.on_disconnection -> channel.abort())
    LE: ['abort'],
    CL: ['abort'],
    CM: ['on_disconnection'],
}


def waiter_rule(ctx, rule, modules, teardown, exceptions=None, floor=0):
    R, p = ctx.r, ctx.p
    exceptions = exceptions or {}
    aws = waiters.census(p, modules)
    counts = {}
    for aw in aws:
        counts[aw.kind] = counts.get(aw.kind, 0) + 1
        if aw.kind == 'wrapped':
            R.ok(rule, aw.key(), 'wrapped in a cancel-on-disconnection / timeout helper', aw.loc)
            continue
        if aw.kind not in ('bare-future', 'bare-event'):
            continue
        key = aw.key()
        if key in exceptions:
            R.ok(rule, key, 'named exception: ' + exceptions[key], aw.loc)
            continue
        attr = waiters.resolve_attr(aw)
        if attr is None and aw.cls is not None and _stored_in_cancelled_table(p, aw, teardown):
            R.ok(rule, key, 'future is stored in a per-connection table whose entries the teardown method cancels', aw.loc)
            continue
        if attr is None or aw.cls is None:
            R.bad(rule, key, f'bare await on `{aw.target}`: not wrapped and not an attribute a teardown method could settle', aw.loc)
            continue
        tds = teardown.get(aw.cls.qual)
        if not tds:
            R.bad(rule, key, f'bare await on self.{attr}: class {aw.cls.qual} has no configured teardown method', aw.loc)
            continue
        probs = []
        for td in tds:
            ok, wit = waiters.settles(p, aw.cls, td, attr)
            if not ok:
                probs.append(f'{td}() does not settle self.{attr} on: {"; ".join(wit[:3])}')
        R.check(not probs, rule, key, f'self.{attr} is settled by {tds} on every path', f'bare await on self.{attr} is not released on teardown: ' + ' | '.join(probs), aw.loc)
    R.extra.setdefault('await_census', {})[rule] = counts
    if floor:
        R.floor(rule, floor, 'awaits')


def _stored_in_cancelled_table(p, aw, teardown) -> bool:
    """local future `f` with `alias[k] = (f, ...)` where alias is a sub-table of
    self.<T>, and a teardown method pops self.<T>[handle] and cancels the
    futures found in its values."""
    fn, var = aw.fn, aw.target
    al = _table_aliases(fn)
    table = None
    for n in walk_local(fn):
        if isinstance(n, ast.Assign) and len(n.targets) == 1 and isinstance(n.targets[0], ast.Subscript):
            base = dotted(n.targets[0].value)
            if base in al and any(isinstance(x, ast.Name) and x.id == var for x in ast.walk(n.value)):
                table = al[base]
    if table is None:
        return False
    for td in teardown.get(aw.cls.qual, []):
        m = aw.cls.methods.get(td)
        if m is None:
            return False
        al2 = _table_aliases(m)
        ok = False
        for lp in ast.walk(m):
            if isinstance(lp, ast.For):
                src = text(lp.iter).split('.')[0]
                if al2.get(src) == table and any(isinstance(c.func, ast.Attribute) and c.func.attr == 'cancel' for c in calls_in(lp)):
                    ok = True
        if not ok:
            return False
    return True


def l2cap_waiters(ctx):
    waiter_rule(ctx, 'C09.waiters', ['bumble.l2cap'], TEARDOWN, floor=6)


# ---------------------------------------------------------------------------
def cid_alloc(ctx, rule='C09.cid-alloc'):
    R, p = ctx.r, ctx.p
    cm = p.cls(CM)
    if cm is None:
        R.bad(rule, CM, f'anchor missing: {CM}')
        return
    n = 0
    for name, m in cm.methods.items():
        if name.startswith('find_free_'):
            continue
        al = _table_aliases(m)
        alloc = {}
        for x in ast.walk(m):
            tgt = val = None
            if isinstance(x, ast.Assign) and len(x.targets) == 1:
                tgt, val = x.targets[0], x.value
            elif isinstance(x, ast.NamedExpr):
                tgt, val = x.target, x.value
            if tgt is not None and isinstance(val, ast.Call) and (call_attr(val) or '').startswith('find_free_') and val.args:
                alloc[dotted(tgt)] = (dotted(val.args[0]), call_attr(val), x)
        for var, (scanned, fname, node) in alloc.items():
            n += 1
            # the CID (or each CID of the list) is inserted into the scanned table
            ok = False
            for x in walk_local(m):
                if isinstance(x, ast.Assign) and len(x.targets) == 1 and isinstance(x.targets[0], ast.Subscript):
                    t = x.targets[0]
                    if dotted(t.value) == scanned:
                        k = dotted(t.slice)
                        if k == var:
                            ok = True
                        else:
                            # loop variable over the allocated list
                            for f in ast.walk(m):
                                if isinstance(f, ast.For) and dotted(f.target) == k and dotted(f.iter) == var:
                                    ok = True
            if not ok and fname == 'find_free_le_cids':
                # enhanced request handler: the list is only used for the response; each CID is re-derived
                # by find_free_le_cid on the same table inside the loop
                ok = any(v[0] == scanned and v[1] == 'find_free_le_cid' for v in alloc.values())
            R.check(ok and al.get(scanned) == 'channels', rule, f'{CM}.{name} | {fname}({scanned})',
                    'allocator scans the per-connection `channels` table the new channel is inserted into',
                    f'CID allocated by scanning `{scanned}` ({al.get(scanned)}) but the channel is not inserted into that table under it', p.loc(node))
    R.floor(rule, 5, 'allocation sites')
    # ranges (Core spec Vol 3 Part A 2.1 / 4.22)
    spec = {
        'L2CAP_LE_U_DYNAMIC_CID_RANGE_START': 0x0040, 'L2CAP_LE_U_DYNAMIC_CID_RANGE_END': 0x007F,
        'L2CAP_ACL_U_DYNAMIC_CID_RANGE_START': 0x0040, 'L2CAP_ACL_U_DYNAMIC_CID_RANGE_END': 0xFFFF,
        'L2CAP_LE_PSM_DYNAMIC_RANGE_START': 0x0080, 'L2CAP_LE_PSM_DYNAMIC_RANGE_END': 0x00FF,
    }
    for cname, want in spec.items():
        try:
            got = p.module_const('bumble.l2cap', cname)
        except Exception:
            R.bad(rule, f'bumble.l2cap.{cname}', f'anchor missing: bumble.l2cap.{cname}')
            continue
        R.check(got == want, rule, f'bumble.l2cap.{cname}', f'== 0x{want:04X} (Core spec)', f'{cname} = 0x{got:04X}, the specification says 0x{want:04X}', '')
    # allocators iterate range(START, END + 1) and test membership
    for fname, lo, hi in (('find_free_br_edr_cid', 'L2CAP_ACL_U_DYNAMIC_CID_RANGE_START', 'L2CAP_ACL_U_DYNAMIC_CID_RANGE_END'), ('find_free_le_cids', 'L2CAP_LE_U_DYNAMIC_CID_RANGE_START', 'L2CAP_LE_U_DYNAMIC_CID_RANGE_END')):
        fn = cm.methods.get(fname)
        if fn is None:
            R.bad(rule, f'{CM}.{fname}', f'anchor missing: {CM}.{fname}')
            continue
        loops = [x for x in walk_local(fn) if isinstance(x, ast.For) and isinstance(x.iter, ast.Call) and call_attr(x.iter) == 'range']
        ok = False
        for lp in loops:
            a = [norm(x) for x in lp.iter.args]
            tests = [norm(t.test) for t in ast.walk(lp) if isinstance(t, ast.If)]
            if a[:2] == [lo, f'{hi} + 1'] and any(t == f'{dotted(lp.target)} not in {fn.args.args[-2 if fname == "find_free_le_cids" else -1].arg}' for t in tests):
                ok = True
        R.check(ok, rule, f'{CM}.{fname} | range', f'scans range({lo}, {hi} + 1) skipping CIDs in use', f'{fname} does not scan the full dynamic range with a not-in-use test', p.loc(fn))


# ---------------------------------------------------------------------------
def close_releases(ctx):
    """Whenever an LE credit-based channel reaches DISCONNECTED from a state in
    which output may be queued, the drained event is set and a pending
    disconnect() is settled, on every path that performs the transition."""
    R, p = ctx.r, ctx.p
    rule = 'C09.close-releases'
    ci = p.cls(LE)
    if ci is None:
        R.bad(rule, LE, f'anchor missing: {LE}')
        return
    # helpers that set the drained event on every path
    always_sets = set()
    for name, m in ci.methods.items():
        class S(paths.Domain):
            def event(self, node, v):
                if isinstance(node, ast.Call) and dotted(node.func) == 'self.drained.set':
                    return (1,)
                return (v,)
        res = paths.run(m, S(), 0)
        ex = paths.normal_exits(res)
        if ex and all(v == 1 for v in ex):
            always_sets.add(name)
    from collections import namedtuple
    V = namedtuple('V', 'closed drained disc from_disconnecting')

    class D(paths.Domain):
        def __init__(self, waiter_present):
            self.waiter_present = waiter_present

        def event(self, node, v):
            if isinstance(node, ast.Call):
                d = dotted(node.func) or ''
                if d == 'self._change_state' and node.args and text(node.args[0]).endswith('State.DISCONNECTED'):
                    return (v._replace(closed=1),)
                if d == 'self.drained.set' or (d.startswith('self.') and d[5:] in always_sets):
                    return (v._replace(drained=1),)
                if d in ('self.disconnection_result.set_result', 'self.disconnection_result.set_exception', 'self.disconnection_result.cancel'):
                    return (v._replace(disc=1),)
            return (v,)

        def assume(self, atom, truth, v):
            t = norm(atom)
            if self.waiter_present:
                if t in ('self.disconnection_result is not None', 'self.disconnection_result'):
                    return (v,) if truth else ()   # a disconnect() caller is waiting
                if t == 'self.disconnection_result is None':
                    return () if truth else (v,)
            if t == 'self.disconnection_result.done()' and truth:
                return (v._replace(disc=1),)   # already completed (its waiter gave up or was served)
            if t == 'self.state != self.State.DISCONNECTING' and not truth:
                return (v._replace(from_disconnecting=1),)   # disconnect() already flushed the output
            return (v,)

    n = 0
    for name, m in sorted(ci.methods.items()):
        if not any(isinstance(c, ast.Call) and dotted(c.func) == 'self._change_state' and c.args and text(c.args[0]).endswith('State.DISCONNECTED') for c in ast.walk(m)):
            continue
        n += 1
        bad = []
        # (a) with a disconnect() caller waiting: it is settled; (b) with or without: drain() is released
        for waiter in (True, False):
            res = paths.run(m, D(waiter), V(0, 0, 0, 0))
            for k, st in res.items():
                if k.startswith('raise'):
                    continue
                for v, w in st.items():
                    if waiter and v.closed and not v.disc:
                        bad.append(f'a pending disconnect() is not settled ({k} via {" ".join(w)})')
                    if not waiter and v.closed and not v.drained and not v.from_disconnecting:
                        bad.append(f'drain() waiters are not released ({k} via {" ".join(w)})')
        R.check(not bad, rule, f'{LE}.{name} | close releases waiters', 'every path that closes the channel sets `drained` (unless coming from DISCONNECTING, where disconnect() flushed) and settles disconnection_result',
                'a path closes the channel but leaves a waiter hanging: ' + '; '.join(bad), p.loc(m))
    R.floor(rule, 3, 'closing methods')


def state_table(ctx):
    R, p = ctx.r, ctx.p
    rule = 'C09.state-table'
    n = 0
    for cq, closed in ((LE, ('DISCONNECTED',)), (CL, ('CLOSED',))):
        ci = p.cls(cq)
        if ci is None:
            R.bad(rule, cq, f'anchor missing: {cq}')
            continue
        for mname, m in ci.methods.items():
            for c in calls_in(m):
                if dotted(c.func) == 'self._change_state' and c.args and text(c.args[0]).split('.')[-1] in closed:
                    n += 1
                    stmt = c
                    while not isinstance(getattr(stmt, '_parent', None), (ast.If, ast.For, ast.While, ast.Try, ast.With) + FUNC):
                        stmt = stmt._parent
                    blk = None
                    par = stmt._parent
                    for fld in ('body', 'orelse', 'finalbody'):
                        b = getattr(par, fld, None)
                        if isinstance(b, list) and stmt in b:
                            blk = b[b.index(stmt):]
                            whole = b
                    dereg = [x for s in (whole if blk is not None else []) for x in calls_in(s) if dotted(x.func) == 'self.manager.on_channel_closed']
                    paired = bool(dereg)
                    key = f'{cq}.{mname} | -> {text(c.args[0]).split(".")[-1]}'
                    if paired:
                        # the listeners of 'close' run inside the emit: what must happen whatever they do comes first
                        emits = [x for s in whole for x in calls_in(s) if (dotted(x.func) == 'self.emit' and x.args and text(x.args[0]).endswith('EVENT_CLOSE')) or (cq == LE and x is c)]
                        first_emit = min((x.lineno for x in emits), default=10 ** 9)
                        R.check(dereg[0].lineno < first_emit, rule, key, 'manager.on_channel_closed(self) runs before the close event is emitted',
                                'the channel is removed from the manager tables only after `close` has been emitted: a listener that raises leaves the closed channel registered (and its CID taken)', p.loc(c))
                        late = [x for s in whole for x in calls_in(s) if x.lineno > first_emit and (dotted(x.func) in ('self.disconnection_result.set_result', 'self.connection_result.cancel', 'self.connection_result.set_exception', 'self.flush_output'))]
                        R.check(not late, rule, key + ' | waiters', 'pending disconnect / connect / drain waiters are released before the close event is emitted',
                                f'{[dotted(x.func) for x in late]} run after `close` has been emitted: a listener that raises leaves disconnect() / drain() waiting forever', p.loc(c))
                    else:
                        # allowed: the creating coroutine removes the entry when connect() raises, or the
                        # link-level teardown (abort <- ChannelManager.on_disconnection) already dropped the tables
                        settles_conn = any(isinstance(x, ast.Call) and isinstance(x.func, ast.Attribute) and x.func.attr == 'set_exception' and 'connection_result' in (dotted(x.func.value) or '') for s in (blk or []) for x in ast.walk(s))
                        if settles_conn:
                            R.ok(rule, key, 'refusal path: connection_result fails and the create_* coroutine removes the entry', p.loc(c))
                        elif mname == 'abort':
                            R.ok(rule, key, 'abort() is called by ChannelManager.on_disconnection after the per-connection tables were dropped', p.loc(c))
                        else:
                            R.bad(rule, key, 'channel reaches its closed state without being removed from the manager tables', p.loc(c))
    R.floor(rule, 6, 'close transitions')



def allocator_scan(ctx, rule='C09.allocator-scan'):
    """A CID allocator hands out only identifiers it has individually found free in the table it was given."""
    R, p = ctx.r, ctx.p
    cm = p.cls(CM)
    if cm is None:
        R.bad(rule, CM, f'anchor missing: {CM}')
        return
    n = 0
    for name, m in sorted(cm.methods.items()):
        if not name.startswith('find_free_'):
            continue
        params = [a.arg for a in m.args.args if a.arg not in ('self', 'cls')]
        table = params[0] if params else None
        rets = [r for r in walk_local(m) if isinstance(r, ast.Return) and r.value is not None and not (is_const(r.value) and const(r.value) is None) and norm(r.value) != '[]']
        delegates = [c for c in calls_in(m) if (call_attr(c) or '').startswith('find_free_') and c.args and dotted(c.args[0]) == table]
        if delegates:
            n += 1
            from_delegate = {t.id for st in walk_local(m) if isinstance(st, ast.Assign) and any(st.value is d or any(x is d for x in ast.walk(st.value)) for d in delegates) for t in st.targets if isinstance(t, ast.Name)}
            own = [r for r in rets if not any(any(x is d for x in ast.walk(r.value)) for d in delegates) and not ({x.id for x in ast.walk(r.value) if isinstance(x, ast.Name)} and {x.id for x in ast.walk(r.value) if isinstance(x, ast.Name)} <= from_delegate)]
            R.check(not own, rule, f'{CM}.{name}', f'delegates to {call_attr(delegates[0])} on the same table and returns only what it found', f'{name} also returns `{norm(own[0].value) if own else ""}`, which does not come from the scanning allocator: an identifier that was never tested against the table (in use by an open channel, or handed out while a lower one is free for ever) is allocated', p.loc(own[0]) if own else p.loc(m))
            continue
        loops = [f for f in walk_local(m) if isinstance(f, ast.For) and isinstance(f.iter, ast.Call) and dotted(f.iter.func) == 'range']
        ok = bool(loops) and bool(rets)
        why = ''
        for r in rets:
            v = r.value
            # the returned value is the loop variable, or a list built only from appended loop variables
            lv = dotted(loops[0].target) if loops else None
            guarded = [(norm(t), pol) for t, pol in paths.flat_guards(r)]
            free_test = (f'{lv} in {table}', False) in guarded or (f'{lv} not in {table}', True) in guarded
            if dotted(v) == lv:
                ok = ok and free_test
            else:
                apps = [c for c in calls_in(m) if call_attr(c) == 'append' and dotted(c.func.value) == dotted(v)]
                each_tested = bool(apps) and all(dotted(c.args[0]) == lv and ((f'{lv} in {table}', False) in [(norm(t), pol) for t, pol in paths.flat_guards(c)] or (f'{lv} not in {table}', True) in [(norm(t), pol) for t, pol in paths.flat_guards(c)]) for c in apps)
                ok = ok and each_tested
                if not each_tested:
                    why = f'returns `{norm(v)}`'
        n += 1
        R.check(ok, rule, f'{CM}.{name}', 'every identifier returned was individually tested against the table', f'{name} hands out identifiers it has not checked against the table ({why}): an identifier still in use by an open channel can be allocated again', p.loc(m))
    R.check(n >= 3, rule, f'{CM} | allocators', f'{n} allocators analysed', f'only {n} allocators found')


def response_echo(ctx, rule='C09.response-echo'):
    """A Disconnection Response names the channel exactly as the request did (the requester looks it up by those identifiers)."""
    R, p = ctx.r, ctx.p
    n = 0
    for cq in (CC, LE):
        fn = p.find(f'{cq}.on_disconnection_request')
        if fn is None:
            R.bad(rule, f'{cq}.on_disconnection_request', 'anchor missing')
            continue
        req = fn.args.args[1].arg
        rsp = [c for c in calls_in(fn) if call_attr(c) == 'L2CAP_Disconnection_Response' or dotted(c.func) == 'L2CAP_Disconnection_Response']
        ok = bool(rsp)
        for c in rsp:
            kw = {k.arg: norm(k.value) for k in c.keywords}
            ok = ok and kw.get('identifier') == f'{req}.identifier' and kw.get('destination_cid') == f'{req}.destination_cid' and kw.get('source_cid') == f'{req}.source_cid'
        n += 1
        R.check(ok, rule, f'{cq}.on_disconnection_request | response echoes the request', 'identifier, destination_cid and source_cid are copied from the request',
                'the Disconnection Response does not echo the request\'s channel identifiers: when the two ends chose different CIDs the requester matches it to another channel (which it closes) or to none (its own close never completes)', p.loc(fn))
    mr = p.find(f'{CM}.on_l2cap_disconnection_response')
    if mr is not None:
        R.check('self.find_channel(connection.handle, response.source_cid)' in norm(mr), rule, f'{CM}.on_l2cap_disconnection_response | lookup', 'the requester finds its channel by the echoed source CID', 'the response is no longer matched by the echoed source CID', p.loc(mr))



def classic_close_releases(ctx):
    """A classic channel that reaches CLOSED because the peer closed it settles a local disconnect() in progress."""
    R, p = ctx.r, ctx.p
    rule = 'C09.close-releases'
    ci = p.cls(CC)
    if ci is None:
        R.bad(rule, CC, f'anchor missing: {CC}')
        return
    n = 0
    for name in ('on_disconnection_request', 'on_disconnection_response'):
        m = ci.methods.get(name)
        if m is None:
            R.bad(rule, f'{CC}.{name}', 'anchor missing')
            continue

        class D(paths.Domain):
            def event(self, node, v):
                closed, settled = v
                if isinstance(node, ast.Call):
                    d = dotted(node.func) or ''
                    if d == 'self._change_state' and node.args and text(node.args[0]).endswith('State.CLOSED'):
                        closed = True
                    if d in ('self.disconnection_result.set_result', 'self.disconnection_result.set_exception', 'self.disconnection_result.cancel'):
                        settled = True
                return ((closed, settled),)

            def assume(self, atom, truth, v):
                t = norm(atom)
                if t in ('self.disconnection_result', 'self.disconnection_result is not None'):
                    return (v,) if truth else ()     # a disconnect() caller is waiting
                if t == 'self.disconnection_result is None':
                    return () if truth else (v,)
                if t == 'self.disconnection_result.done()' and truth:
                    return ((v[0], True),)           # already completed (its waiter gave up or was served)
                return (v,)
        res = paths.run(m, D(), (False, False))
        bad = [' '.join(w) for k, st in res.items() if not k.startswith('raise') for (closed, settled), w in st.items() if closed and not settled]
        n += 1
        R.check(not bad, rule, f'{CC}.{name} | disconnect waiter', 'every path that closes the channel resolves a pending disconnection_result',
                'a classic channel is closed while a local disconnect() is waiting and the waiter is not resolved (simultaneous disconnect hangs)', p.loc(m), bad[:2])


def stale_loopvar_rule(ctx):
    from ..stale_loopvar import stale_loopvar
    stale_loopvar(ctx, 'C09.stale-loopvar', ['bumble.l2cap'])


def listeners_rule(ctx):
    from .. import generic_rules as g
    g.persistent_listeners(ctx, 'C09.listeners', ['bumble.l2cap.ChannelManager.host'])


def identity_rule(ctx):
    from ..generic_rules import identity_compare
    identity_compare(ctx, 'C09.identity', ['bumble.l2cap'])


def one_shot_rule(ctx):
    from ..generic_rules import one_shot_iterators
    one_shot_iterators(ctx, 'C09.one-shot', ['bumble.l2cap'])


def unordered_pairing_rule(ctx):
    from ..generic_rules import unordered_pairing
    unordered_pairing(ctx, 'C09.unordered-pairing', ['bumble.l2cap'])


def waiter_scope(ctx):
    """A channel operation is cancelled by the loss of *its* link: the cancel helper is the connection's
    cancel_on_disconnection, or cancel_on_event on the connection / channel -- not on the host, whose 'disconnection'
    event fires for every link."""
    R, p = ctx.r, ctx.p
    rule = 'C09.waiter-scope'
    m = p.modules.get('bumble.l2cap')
    if m is None:
        R.bad(rule, 'bumble.l2cap', 'anchor missing')
        return
    n = 0
    for c in [x for x in ast.walk(m.tree) if isinstance(x, ast.Call) and call_attr(x) in ('cancel_on_disconnection', 'cancel_on_event')]:
        n += 1
        if call_attr(c) == 'cancel_on_disconnection':
            recv = dotted(c.func.value) or ''
            ok = recv.split('.')[-1] == 'connection'
        else:
            em = dotted(c.args[0]) if c.args else ''
            ok = (em or '').split('.')[-1] in ('connection', 'self', 'channel')
        R.check(ok, rule, f'{p.qual_of(c)} | {norm(c)[:60]}', 'scoped to the operation\'s own connection', f'`{norm(c)[:80]}` ties the wait to an emitter that reports every link (the host): the loss of another link cancels an operation on this one, leaving the two ends of the channel in different states', f'{m.rel}:{c.lineno}')
    R.check(n >= 3, rule, 'bumble.l2cap | cancel helpers', f'{n} waits tied to a connection', f'only {n} found')


def settle_guard_rule(ctx):
    from ..generic_rules import settle_guard
    settle_guard(ctx, 'C09.settle-guard', ['bumble.l2cap.ClassicChannel', 'bumble.l2cap.LeCreditBasedChannel'])


def response_closes(ctx):
    """A Disconnection Response that names this channel (CIDs match) while it is DISCONNECTING closes it: after those two
    tests nothing else may return early -- in particular not a comparison with the manager's link-wide identifier counter,
    which any other signalling frame has moved on in the meantime."""
    R, p = ctx.r, ctx.p
    rule = 'C09.response-closes'
    for cq, closed_call in ((LE, 'self.manager.on_channel_closed'), (CL, 'self.manager.on_channel_closed')):
        fn = p.find(f'{cq}.on_disconnection_response')
        if fn is None:
            R.bad(rule, f'{cq}.on_disconnection_response', 'anchor missing')
            continue
        allowed = ('self.state', 'destination_cid', 'source_cid', 'self.disconnection_result')

        class D(paths.Domain):
            # (foreign test seen on the way, closed)
            def assume(self, atom, truth, v):
                t = norm(atom)
                if not any(a in t for a in allowed):
                    return ((t, v[1]),)
                return (v,)

            def event(self, node, v):
                if isinstance(node, ast.Call) and dotted(node.func) == closed_call:
                    return ((v[0], True),)
                return (v,)
        res = paths.run(fn, D(), (None, False))
        ex = paths.normal_exits(res)
        bad = sorted({v[0] for v in ex if v[0] is not None and not v[1]})
        R.check(any(v[1] for v in ex) and not bad, rule, f'{cq}.on_disconnection_response', 'only the state and the CIDs decide whether the response closes the channel',
                f'the response is also ignored when `{bad[0] if bad else ""}` holds: a response that does name this channel leaves it DISCONNECTING, its disconnect() waiting and its CID taken', p.loc(fn))


def mismatch_closes_both(ctx):
    """A transmission-mode mismatch found while configuring ends the channel on both ends: the branch fails a pending
    connect() AND sends the Disconnection Request, on every path (an initiator that only fails locally leaves the responder's
    channel half configured and its CID taken)."""
    R, p = ctx.r, ctx.p
    rule = 'C09.mismatch-closes-both'
    fn = p.find(f'{CL}.on_configure_request')
    if fn is None:
        R.bad(rule, f'{CL}.on_configure_request', 'anchor missing')
        return
    brs = [n for n in ast.walk(fn) if isinstance(n, ast.If) and norm(n.test) in ('new_mode != self.mode', 'self.mode != new_mode')]
    R.check(len(brs) == 1, rule, f'{CL}.on_configure_request | mode mismatch branch', 'one branch', f'{len(brs)} branches', p.loc(fn))
    for br in brs:
        class D(paths.Domain):
            def event(self, node, v):
                if isinstance(node, ast.Call):
                    d = dotted(node.func)
                    if d == 'self._abort_connection_result':
                        return ((True, v[1]),)
                    if d in ('self._disconnect_sync', 'self.disconnect'):
                        return ((v[0], True),)
                return (v,)
        res = paths.run_block(br.body, D(), (False, False))
        ends = [(v, w) for k, st in res.items() if not k.startswith('raise') for v, w in st.items()]
        bad = [' '.join(w) for v, w in ends if v != (True, True)]
        R.check(bool(ends) and not bad, rule, f'{CL}.on_configure_request | mismatch', 'every path fails the pending connect and sends the Disconnection Request', 'a path through the mode-mismatch branch does only one of "fail the local connect()" and "disconnect the channel": the peer\'s channel stays in WAIT_CONFIG_* with its CID taken (or the local caller is never told)', p.loc(br), bad[:2])


def reject_ends_open(ctx):
    """A Command Reject is the only answer a peer without LE credit-based channels gives to a connection request: the manager
    looks the request up by (connection, identifier) in its pending-request table, removes it, and fails the channel's
    pending connect() -- the open ends and the creating coroutine releases the CID."""
    R, p = ctx.r, ctx.p
    rule = 'C09.reject-ends-open'
    fn = p.find(f'{CM}.on_l2cap_command_reject')
    if fn is None:
        R.bad(rule, f'{CM}.on_l2cap_command_reject', 'anchor missing')
        return
    pops = [c for c in calls_in(fn) if dotted(c.func) == 'self.le_coc_requests.pop' and c.args and 'identifier' in norm(c.args[0])]
    tells = [c for c in calls_in(fn) if isinstance(c.func, ast.Attribute) and dotted(c.func.value) == 'channel']
    R.check(bool(pops) and bool(tells), rule, f'{CM}.on_l2cap_command_reject | pending request', 'the rejected request is removed from le_coc_requests and its channel is told',
            'a Command Reject is only logged: an LE credit-based connection request that the peer rejects (no support for it) leaves connect() waiting until the link drops, with its CID and its request entry taken', p.loc(fn))
    for c in tells:
        m = p.find(f'{LE}.{c.func.attr}')
        if m is None:
            R.bad(rule, f'{LE}.{c.func.attr}', 'anchor missing')
            continue
        settles = [x for x in calls_in(m) if dotted(x.func) in ('self.connection_result.set_exception', 'self.connection_result.cancel')]
        R.check(bool(settles), rule, f'{LE}.{c.func.attr} | fails the pending connect', 'connection_result is failed', f'{c.func.attr} does not fail the pending connection_result', p.loc(m))
    # the same for the enhanced request: every table of pending requests keyed by identifier is consulted.  The tables are
    # taken from the class: whatever the response handlers of connection requests pop by `response.identifier`
    cm = p.cls(CM)
    tables = set()
    for name, m in (cm.methods.items() if cm is not None else []):
        if name.startswith('on_l2cap_') and name.endswith('connection_response'):
            for c in calls_in(m):
                if call_attr(c) == 'pop' and c.args and 'identifier' in norm(c.args[0]):
                    base = dotted(c.func.value) or ''
                    for st in walk_local(m):  # a local alias of a per-connection sub-table
                        if isinstance(st, ast.Assign) and dotted(st.targets[0]) == base:
                            base = next((dotted(x.func.value) for x in ast.walk(st.value) if isinstance(x, ast.Call) and call_attr(x) in ('setdefault', 'get') and (dotted(x.func.value) or '').startswith('self.')), base)
                    if base.startswith('self.'):
                        tables.add(base)
    src = norm(fn)
    R.check(len(tables) >= 2, rule, f'{CM} | pending-request tables', f'{sorted(tables)}', f'only {sorted(tables)} found (anchor)', p.loc(fn))
    for t in sorted(tables):
        R.check(t in src, rule, f'{CM}.on_l2cap_command_reject | {t}', 'consulted', f'a Command Reject does not look the request up in {t}: an open of that kind that the peer rejects (it does not implement the request) is never failed, its caller waits for ever', p.loc(fn))
    waits = [c for c in calls_in(fn) if call_attr(c) in ('set_exception', 'cancel')]
    R.check(bool(waits), rule, f'{CM}.on_l2cap_command_reject | enhanced request', 'the pending future is failed', 'the pending future of a rejected enhanced request is not failed', p.loc(fn))


def disconnect_request_answered(ctx):
    """A Disconnection Request routed to a channel is answered: exactly one Disconnection Response on every path of the
    channel's handler, and the channel leaves the manager's table."""
    R, p = ctx.r, ctx.p
    rule = 'C09.disconnect-request-answered'
    for cn in (CC, LE):
        fn = p.find(f'{cn}.on_disconnection_request')
        if fn is None:
            R.bad(rule, f'{cn}.on_disconnection_request', 'anchor missing')
            continue

        class D(paths.Domain):
            def event(self, node, v):
                if isinstance(node, ast.Call) and dotted(node.func) == 'self.send_control_frame' and node.args and isinstance(node.args[0], ast.Call) and call_attr(node.args[0]) == 'L2CAP_Disconnection_Response':
                    return ((min(2, v[0] + 1), v[1]),)
                if isinstance(node, ast.Call) and dotted(node.func) == 'self.manager.on_channel_closed':
                    return ((v[0], True),)
                return (v,)
        res = paths.run(fn, D(), (0, False))
        bad = [f'{v[0]} response(s), {"released" if v[1] else "still registered"} ({k} via {" ".join(w)})' for k, st in res.items() if not k.startswith('raise') for v, w in st.items() if v != (1, True)]
        R.check(not bad, rule, f'{cn}.on_disconnection_request', 'one Disconnection Response and the channel released on every path', f'a path of on_disconnection_request ends with {bad[:1]}: the peer that asked for the disconnection waits for ever (its channel stays in WAIT_DISCONNECT / DISCONNECTING), and this side keeps the channel open', p.loc(fn))


def disconnect_check_act(ctx):
    """disconnect() tests the state and starts the procedure (waiter stored, state changed, request sent) in one step of the
    event loop: with an await in between the peer's own Disconnection Request can be handled first, and the procedure is
    then started on a channel that is already closed - its waiter is never released."""
    R, p = ctx.r, ctx.p
    rule = 'C09.disconnect-check-act'
    for cn in (CC, LE):
        fn = p.find(f'{cn}.disconnect')
        if fn is None:
            R.bad(rule, f'{cn}.disconnect', 'anchor missing')
            continue
        body = fn.body
        gi = next((i for i, s_ in enumerate(body) if isinstance(s_, ast.If) and 'self.state' in norm(s_.test) and any(isinstance(x, ast.Raise) for x in ast.walk(s_))), None)
        ai = next((i for i, s_ in enumerate(body) if any(call_attr(c) in ('_change_state', '_disconnect_sync') for c in calls_in(s_))), None)
        if gi is None or ai is None or ai < gi:
            R.bad(rule, f'{cn}.disconnect', 'disconnect() no longer has the shape state-test ... state-change (anchor)', p.loc(fn))
            continue
        aw = [x for s_ in body[gi + 1:ai + 1] for x in ast.walk(s_) if isinstance(x, ast.Await)]
        first = [x for s_ in body[:gi] for x in ast.walk(s_) if isinstance(x, ast.Await)]
        R.check(not aw, rule, f'{cn}.disconnect', 'no suspension between the state test and the state change', f'disconnect() awaits (`{norm(aw[0])[:50] if aw else ""}`) after it has tested the state and before it changes it: a Disconnection Request from the peer handled during that suspension closes the channel, then the procedure starts anyway and its waiter is never released (the caller hangs)', p.loc(aw[0]) if aw else p.loc(fn))


def teardown_contained(ctx):
    """ChannelManager.on_disconnection closes every channel of the lost link: abort() runs application listeners ('close'),
    so each abort() inside the loops is contained (try / except Exception without re-raise) - one failing listener does not
    leave the remaining channels open and the per-connection tables in place."""
    R, p = ctx.r, ctx.p
    rule = 'C09.teardown-contained'
    fn = p.find(f'{CM}.on_disconnection')
    if fn is None:
        R.bad(rule, f'{CM}.on_disconnection', 'anchor missing')
        return
    aborts = [c for c in calls_in(fn) if call_attr(c) == 'abort']
    R.check(len(aborts) >= 2, rule, f'{CM}.on_disconnection | aborts', f'{len(aborts)} abort() calls', f'only {len(aborts)} abort() calls found', p.loc(fn))
    for i, c in enumerate(aborts):
        ok = False
        a, prev = getattr(c, '_parent', None), c
        while a is not None and a is not fn:
            if isinstance(a, ast.Try) and any(prev is s_ for s_ in a.body):
                for h in a.handlers:
                    names = {'<bare>'} if h.type is None else {norm(e).split('.')[-1] for e in (h.type.elts if isinstance(h.type, ast.Tuple) else [h.type])}
                    if names & {'Exception', 'BaseException', '<bare>'} and not any(isinstance(x, ast.Raise) for x in ast.walk(h)):
                        ok = True
            if isinstance(a, (ast.For, ast.While)):
                break
            prev, a = a, getattr(a, '_parent', None)
        R.check(ok, rule, f'{CM}.on_disconnection | abort #{i + 1} ({norm(c)})', 'contained inside the loop', f'`{norm(c)}` is not contained inside its loop: a close listener that raises on one channel ends the teardown - the other channels of the link stay open (anything waiting on them is never released) and identifiers / pending tables of the connection are never removed', p.loc(c))


def primitive_rebinding_rule(ctx):
    from ..generic_rules import primitive_rebinding
    primitive_rebinding(ctx, 'C09.primitive-rebinding', ['bumble.l2cap'], floor=1)


def refusal_closes(ctx):
    """A Disconnection Request is sent only for a channel the peer has: `_disconnect_sync` (WAIT_DISCONNECT + request) is
    called from disconnect() and from the configuration handlers (mode mismatch) and from nowhere else.  A refused
    Connection Response closes the channel at once - the peer never allocated it, no Disconnection Response will ever
    come, and create_classic_channel keeps a WAIT_DISCONNECT channel registered until one does."""
    R, p = ctx.r, ctx.p
    rule = 'C09.refusal-closes'
    ci = p.cls(CC)
    if ci is None:
        R.bad(rule, CC, 'anchor missing')
        return
    ALLOWED = ('disconnect', 'on_configure_request', 'on_configure_response')
    n = 0
    for name, fn in sorted(ci.methods.items()):
        for c in [x for x in calls_in(fn) if dotted(x.func) == 'self._disconnect_sync']:
            n += 1
            R.check(name in ALLOWED, rule, f'{CC}.{name} | _disconnect_sync', 'the peer has the channel', f'{name} starts a disconnection procedure (`self._disconnect_sync()`) for a channel the peer may never have allocated: no Disconnection Response comes, the channel stays in WAIT_DISCONNECT in the table and its CID is never free again', p.loc(c))
    R.check(n >= 2, rule, f'{CC} | _disconnect_sync callers', f'{n}', f'only {n} found')
    fn = ci.methods.get('on_connection_response')
    if fn is None:
        R.bad(rule, f'{CC}.on_connection_response', 'anchor missing')
        return
    closes = [c for c in calls_in(fn) if dotted(c.func) == 'self._change_state' and c.args and norm(c.args[0]).endswith('State.CLOSED')]
    R.check(bool(closes), rule, f'{CC}.on_connection_response | refusal', 'a refused open goes to CLOSED', 'on_connection_response no longer closes a refused channel', p.loc(fn))


def request_scope(ctx):
    """Pending LE connection requests are keyed by (connection handle, identifier) and identifiers are counted per link:
    whatever walks le_coc_requests restricts itself to one link (mentions the handle) - a test over all links makes a
    request pending on one link block an open on another."""
    R, p = ctx.r, ctx.p
    rule = 'C09.request-scope'
    m = p.modules.get('bumble.l2cap')
    if m is None:
        R.bad(rule, 'bumble.l2cap', 'anchor missing')
        return
    n = 0
    for node in ast.walk(m.tree):
        iters = []
        if isinstance(node, (ast.GeneratorExp, ast.ListComp, ast.SetComp, ast.DictComp)):
            iters = [(g.iter, node) for g in node.generators]
        elif isinstance(node, (ast.For, ast.AsyncFor)):
            iters = [(node.iter, node)]
        for it, scope in iters:
            base = it.func.value if isinstance(it, ast.Call) and isinstance(it.func, ast.Attribute) and it.func.attr in ('values', 'items', 'keys') else it
            if not (dotted(base) or '').endswith('le_coc_requests'):
                continue
            n += 1
            body = scope if not isinstance(scope, (ast.For, ast.AsyncFor)) else ast.Module(body=scope.body, type_ignores=[])
            R.check('handle' in norm(scope), rule, f'{p.qual_of(node)} | walk over le_coc_requests', 'restricted to one link', f'`{norm(scope)[:80]}` looks at the pending requests of every link: identifiers are per link, so a request pending on one connection makes an open on another fail ("too many concurrent connection requests")', f'{m.rel}:{node.lineno}')
    conn = p.find(f'{LE}.connect')
    keyed = conn is not None and any(isinstance(c, ast.Compare) and isinstance(c.ops[0], (ast.In, ast.NotIn)) and (dotted(c.comparators[0]) or '').endswith('le_coc_requests') for c in ast.walk(conn))
    R.check(keyed and n >= 1, rule, f'{LE}.connect | busy test', 'membership of the (handle, identifier) key', 'connect() no longer tests the (handle, identifier) key for membership', p.loc(conn) if conn is not None else '')


RULES = [
    ('C09.request-scope', request_scope),
    ('C09.refusal-closes', refusal_closes),
    ('C09.primitive-rebinding', primitive_rebinding_rule),
    ('C09.teardown-contained', teardown_contained),
    ('C09.disconnect-check-act', disconnect_check_act),
    ('C09.disconnect-request-answered', disconnect_request_answered),
    ('C09.reject-ends-open', reject_ends_open),
    ('C09.mismatch-closes-both', mismatch_closes_both),
    ('C09.response-closes', response_closes),
    ('C09.settle-guard', settle_guard_rule),
    ('C09.waiter-scope', waiter_scope),
    ('C09.unordered-pairing', unordered_pairing_rule),
    ('C09.one-shot', one_shot_rule),
    ('C09.identity', identity_rule),
    ('C09.listeners', listeners_rule),
    ('C09.stale-loopvar', stale_loopvar_rule),
    ('C09.close-releases', classic_close_releases),
    ('C09.allocator-scan', allocator_scan),
    ('C09.response-echo', response_echo),
    ('C09.symmetric', symmetric),
    ('C09.keying', keying),
    ('C09.batch-order', batch_order),
    ('C09.identifier-range', signalling_identifier),
    ('C09.cid-domain', cid_domain),
    ('C09.waiters', l2cap_waiters),
    ('C09.close-releases', close_releases),
    ('C09.cid-alloc', cid_alloc),
    ('C09.state-table', state_table),
]

VARIANTS = [
    ('on_channel_closed back to elif', 'bumble/l2cap.py',
     "            connection_channels.pop(channel.source_cid, None)\n        if isinstance(channel, LeCreditBasedChannel) and (",
     "            connection_channels.pop(channel.source_cid, None)\n        elif isinstance(channel, LeCreditBasedChannel) and (",
     'fire', 'C09.symmetric'),
    ('enhanced handler stores under own source cid', 'bumble/l2cap.py',
     "            le_connection_channels[destination_cid] = channel\n", "            le_connection_channels[source_cid] = channel\n", 'fire', 'C09.symmetric'),
    ('le_coc_requests keyed by identifier only', 'bumble/l2cap.py',
     "        request_key = (self.connection.handle, identifier)\n", "        request_key = identifier\n", 'fire', 'C09.keying'),
    ('on_disconnection forgets le_coc_channels', 'bumble/l2cap.py',
     "        if le_coc_channels := self.le_coc_channels.pop(connection_handle, None):", "        if le_coc_channels := self.le_coc_channels.get(connection_handle, None):", 'fire', 'C09.symmetric'),
    ('classic disconnect awaits bare', 'bumble/l2cap.py',
     "            return await self.connection.cancel_on_disconnection(\n                self.disconnection_result\n            )\n", "            return await self.disconnection_result\n", 'fire', 'C09.waiters'),
    ('LE abort no longer releases drain', 'bumble/l2cap.py',
     '            self.disconnection_result = None\n        self.flush_output()\n        if was_open:\n            self._change_state(self.State.DISCONNECTED)\n', '            self.disconnection_result = None\n        if was_open:\n            self._change_state(self.State.DISCONNECTED)\n', 'fire', 'C09.waiters'),
    ('create_le leaves entry on failure', 'bumble/l2cap.py',
     "            logger.exception('connection failed')\n            del connection_channels[source_cid]\n            raise\n", "            logger.exception('connection failed')\n            raise\n", 'fire', 'C09.symmetric'),
    ('LE dynamic CID range shrunk', 'bumble/l2cap.py', "L2CAP_LE_U_DYNAMIC_CID_RANGE_END   = 0x007F", "L2CAP_LE_U_DYNAMIC_CID_RANGE_END   = 0x0040", 'fire', 'C09.cid-alloc'),
    ('disconnection response does not remove channel', 'bumble/l2cap.py',
     "            logger.warning('unexpected source or destination CID')\n            return\n\n        self.manager.on_channel_closed(self)\n        if self.disconnection_result:\n            if not self.disconnection_result.done():\n                self.disconnection_result.set_result(None)\n            self.disconnection_result = None\n        self._change_state(self.State.DISCONNECTED)\n",
     "            logger.warning('unexpected source or destination CID')\n            return\n\n        if self.disconnection_result:\n            if not self.disconnection_result.done():\n                self.disconnection_result.set_result(None)\n            self.disconnection_result = None\n        self._change_state(self.State.DISCONNECTED)\n", 'fire', 'C09.state-table'),
    ('benign: rename walrus local', 'bumble/l2cap.py',
     "        if connection_channels := self.channels.get(channel.connection.handle):\n            connection_channels.pop(channel.source_cid, None)\n",
     "        if chans := self.channels.get(channel.connection.handle):\n            chans.pop(channel.source_cid, None)\n", 'silent', ''),
]
