"""C20 — RFCOMM carries the exact byte stream; HFP on top negotiates consistently."""
from __future__ import annotations

import ast
import re

from .. import paths
from ..core import FUNC, AnalysisError, inert, call_attr, calls_in, const, dotted, is_const, kwarg, norm, slice_parts, text, walk_local

EXPLANATION = [
    'C20.empty-write: DLC.write reaches self.drained.clear() only on paths where the data is non-empty.',
    'C20.pending-under-lock: HfProtocol.execute_command assigns a (non-None) pending_command only inside `async with self.command_lock`.',
    'C20.open-guard-first: Multiplexer.open_dlc tests self.state (raising for a second open) before any assignment to self.open_*.',
    'C20.queued-frames-hold-credits: RFCOMM DLC: rx_credits_needed counts the frames queued for a missing sink as occupied window, the queue is at least as large as the window, and the sink setter empties the queue and calls process_tx().',
    'C20.brsf-reply: AgProtocol._on_brsf formats its +BRSF reply from self.supported_ag_features itself.',
    "C20.empty-parameters: AtCommand.parse_from calls at.parse_parameters only under the truth of the parameter text: a SET command with nothing after '=' has an empty parameter list.",
    'C20.listener-cleanup: every `on/once(event, future.set_result|set_exception)` made by a coroutine of hfp / rfcomm is undone by a remove_listener in a finally of that coroutine, so an abandoned wait leaves no listener that would raise at the next emit (second final result code).',
    "C20.mux-teardown: every method of rfcomm.Multiplexer that takes it to DISCONNECTED completes a pending disconnect() on each path that performs the transition (the UA answering our DISC and the peer's crossing DISC alike).",
    'C20.enum-agreement: the set / dict attributes of AgProtocol and HfProtocol are tested and emptied (discard, remove, in) with members of the enum types they are filled with: a member of another enum spelled alike is a different key.',
    'C20.fifo: every deque of the anchored modules that is filled with append / extend is emptied with popleft or by iteration (never pop()), and conversely: queued entries come out in the order they went in.',
    "C20.identity: no `is` / `is not` comparison in the anchored modules has an operand declared as a number, byte string or string (identity of equal integers holds only inside CPython's small-integer cache, so such a test is right for values up to 256 and wrong afterwards).",
    'C20.iter-mutation: no loop over a live dict view (`.values()` / `.items()` / `.keys()` of an attribute table) has a body that, through the methods it calls (resolved by name, three levels, local aliases of the table followed), inserts into or removes from the same table; iterating a copy or a sub-table detached with pop() first is accepted.',
    'C20.frame-info: RFCOMM_Frame.from_bytes takes the information field as data[3:-1] (one-octet length indicator) or data[4:-1] (two octets), i.e. everything between header and FCS, in both arms of the EA-bit test.',
    'C20.cind-ranges: the gateway announces an indicator\'s values as (min-max) exactly when the set has max-min+1 elements; the hands-free side expands a-b to range(a, b+1).',
    'C20.credit-guard: one iteration of DLC.process_tx is explored path by path with the branch facts it has accumulated: bytes leave tx_buffer only on paths where `tx_credits > 0` is known, and exactly those paths spend exactly one credit; credit-only frames spend none.',
    'C20.bounds: every slice taken from tx_buffer plus the credit byte that precedes it is at most DLC.mtu; what is consumed is what was taken; DLC.mtu <= min(tx_max_frame_size, peer L2CAP MTU - frame overhead) with the overhead computed from RFCOMM_Frame.__bytes__.',
    'C20.pf-agreement: the P/F bit of a data frame is set under the very test that prepends the credit byte; the receiver strips exactly that byte under p_f == 1 and the frame codec excludes it from the length field.',
    'C20.rx-ledger: the credits granted in a frame are added to rx_credits exactly once on that path; a grant never exceeds rx_max_credits - rx_credits and fits a byte; received data frames decrement rx_credits; constants 0 <= threshold < max <= 255.',
    'C20.progress: every normal exit of DLC.on_uih_frame and DLC.write runs process_tx (credits are returned / queued data is pumped).',
    'C20.teardown: the side that receives DISC releases the data link with the same effects as the side that receives the UA for its DISC (state DISCONNECTED, removed from the multiplexer table, close event); set-up effects are symmetric too.',
    'C20.negotiation: parameter negotiation wires tx_* from the peer\'s PN and rx_* from the local parameters on both roles, the PN response advertises rx_*, DLCs are stored and looked up by DLCI.',
    'C20.ag-once: each AT handler of the gateway issues exactly one final result code on every normal path and none before a value conversion that may raise; the reader turns such exceptions, parse errors, arity errors and unknown commands into exactly one ERROR.',
    'C20.hf-coverage: every AT command template the hands-free side can emit resolves to a gateway handler whose signature accepts the number of parameters emitted.',
    'C20.feature-typing: supports_hf_feature only receives HfFeature members, supports_ag_feature only AgFeature members.',
    'C20.guard-agreement: a feature-conditional command is emitted under both sides\' feature bits, the gateway refuses it only under a bit the hands-free side tested, and the gateway waits for exactly the conditional steps the hands-free side will perform.',
    'C20.arg-selection: no positional argument whose name is that of a different parameter of the callee (dataclass constructors and functions of rfcomm/hfp/at).',
    'C20.indicator-table: each default AgIndicatorState factory describes the indicator it is named after.',
    'C20.negotiated-state: every value parsed from an AT response during SLC set-up flows into state or control, not only into logging; the gateway reports the recorded state.',
    'Not decided: byte-stream equality for all write sequences and interleavings (runtime); feature-set completeness of the SLC against a real peer.',
]
ASSUMPTIONS = [
    'event listeners invoked through emit() do not raise (application code is outside the quantifier)',
    'value conversions that can raise in AT handlers are int()/float(), Enum constructors, .decode(), set.remove() (enumerated raisers)',
]

DLC = 'bumble.rfcomm.DLC'
MUX = 'bumble.rfcomm.Multiplexer'
AG = 'bumble.hfp.AgProtocol'
HF = 'bumble.hfp.HfProtocol'


# --------------------------------------------------------------------------- facts domain
def cv(e):
    return const(e) if e is not None and is_const(e) else None


def _names(e) -> set:
    out = set()
    for x in ast.walk(e):
        d = dotted(x) if isinstance(x, (ast.Attribute, ast.Name)) else None
        if d:
            out.add(d)
    return out


class Facts(paths.Domain):
    """value = (facts, extra...) ; facts = frozenset of (atom text, truth)."""

    def assume(self, atom, truth, v):
        from ..sym import canon
        facts = v[0]
        a, truth = canon(atom, truth)
        if (a, not truth) in facts:
            return ()
        return ((facts | {(a, truth)},) + v[1:],)

    @staticmethod
    def kill(facts, targets):
        names = set()
        for t in targets:
            d = dotted(t)
            if d:
                names.add(d)
        if not names:
            return facts
        keep = set()
        for a, tr in facts:
            try:
                ns = _names(ast.parse(a, mode='eval').body)
            except SyntaxError:
                ns = set()
            if not (ns & names):
                keep.add((a, tr))
        return frozenset(keep)


def _targets(node):
    if isinstance(node, ast.Assign):
        out = []
        for t in node.targets:
            out += t.elts if isinstance(t, (ast.Tuple, ast.List)) else [t]
        return out
    if isinstance(node, (ast.AugAssign, ast.AnnAssign)):
        return [node.target]
    return []


# --------------------------------------------------------------------------- RFCOMM
def _process_tx(ctx, rule):
    fn = ctx.p.find(f'{DLC}.process_tx')
    if fn is None:
        ctx.r.bad(rule, f'{DLC}.process_tx', 'anchor missing')
        return None, None
    loops = [n for n in fn.body if isinstance(n, ast.While)]
    if len(loops) != 1:
        ctx.r.bad(rule, f'{DLC}.process_tx | transmit loop', f'{len(loops)} top-level while loops (expected 1)', ctx.p.loc(fn))
        return fn, None
    return fn, loops[0]


def _positive(facts, what) -> bool:
    from ..sym import ineq, same_ineq
    want = ineq(f'{what} > 0')
    return any(same_ineq(ineq(a, t), want) for a, t in facts if ineq(a, t) is not None and ineq(a, t)[0] == '>=0')


def _reads_tx_buffer(e) -> bool:
    return any(isinstance(x, ast.Subscript) and dotted(x.value) == 'self.tx_buffer' for x in ast.walk(e))


def credit_guard(ctx):
    R, p = ctx.r, ctx.p
    rule = 'C20.credit-guard'
    fn, loop = _process_tx(ctx, rule)
    if loop is None:
        return
    problems = []

    class D(Facts):
        # v = (facts, took, spent, unguarded)
        def event(self, node, v):
            facts, took, spent, ung = v
            tg = _targets(node)
            if tg:
                val = node.value
                is_buf_target = any(dotted(t) == 'self.tx_buffer' for t in tg)
                if val is not None and _reads_tx_buffer(val) and not is_buf_target:
                    took = True
                    if not _positive(facts, 'self.tx_credits'):
                        ung = True
                if any(dotted(t) == 'self.tx_credits' for t in tg):
                    if isinstance(node, ast.AugAssign) and isinstance(node.op, ast.Sub) and cv(node.value) == 1:
                        spent = min(spent + 1, 2)
                    else:
                        problems.append(f'L{node.lineno}: tx_credits modified other than by `-= 1`')
                facts = self.kill(facts, tg)
                # remember boolean flags
                if isinstance(node, ast.Assign) and len(tg) == 1 and isinstance(tg[0], ast.Name) and isinstance(val, ast.Constant) and isinstance(val.value, bool):
                    facts = facts | {(tg[0].id, val.value)}
            return ((facts, took, spent, ung),)

    res = paths.run_block(loop.body, D(), (frozenset(), False, 0, False), test=loop.test)
    n = 0
    bad = []
    for k, st in res.items():
        if k.startswith('raise'):
            continue
        for (facts, took, spent, ung), w in st.items():
            n += 1
            if ung:
                bad.append(f'data leaves tx_buffer on a path where `tx_credits > 0` is not established ({" ".join(w)})')
            if took and spent != 1:
                bad.append(f'a frame carrying data spends {spent} credits ({" ".join(w)})')
            if not took and spent:
                bad.append(f'a credit is spent by a frame without data ({" ".join(w)})')
    bad += problems
    R.check(not bad and n >= 3, rule, f'{DLC}.process_tx | data needs a credit', f'{n} iteration paths: data is taken only with a credit in hand and costs exactly one', 'a sender may transmit data without holding a credit, or the credit ledger drifts', p.loc(loop), sorted(set(bad))[:4])
    # received credits are added, not assigned
    uih = p.find(f'{DLC}.on_uih_frame')
    if uih is None:
        R.bad(rule, f'{DLC}.on_uih_frame', 'anchor missing')
        return
    adds = [n_ for n_ in walk_local(uih) if isinstance(n_, (ast.Assign, ast.AugAssign)) and any(dotted(t) == 'self.tx_credits' for t in _targets(n_))]
    ok = len(adds) == 1 and isinstance(adds[0], ast.AugAssign) and isinstance(adds[0].op, ast.Add)
    if ok:
        src = norm(adds[0].value)
        defs = {t.id: norm(n_.value) for n_ in walk_local(uih) if isinstance(n_, ast.Assign) for t in n_.targets if isinstance(t, ast.Name)}
        src = defs.get(src, src)
        g = [norm(t) for t, pol in paths.flat_guards(adds[0]) if pol]
        ok = src == 'frame.information[0]' and g == ['frame.p_f == 1']
    R.check(ok, rule, f'{DLC}.on_uih_frame | credits received', 'tx_credits += first information byte, only when P/F is set', 'received credits are not accumulated from the credit byte under p_f == 1', p.loc(uih))
    # initial credit counts come from the constructor parameters
    init = p.find(f'{DLC}.__init__')
    d = {dotted(t): norm(n_.value) for n_ in walk_local(init) if isinstance(n_, ast.Assign) for t in n_.targets if dotted(t)} if init else {}
    R.check(d.get('self.tx_credits') == 'tx_initial_credits' and d.get('self.rx_credits') == 'rx_initial_credits', rule, f'{DLC}.__init__ | initial ledgers', 'tx_credits/rx_credits start from the negotiated initial credits of their direction', 'initial credit ledgers are not the negotiated values of their own direction', p.loc(init) if init else '')


def _lin(e):
    """linear form over opaque atoms: {atom: coeff, '': const} or None."""
    if isinstance(e, ast.Constant) and isinstance(e.value, int):
        return {'': e.value}
    if isinstance(e, ast.BinOp) and isinstance(e.op, (ast.Add, ast.Sub)):
        a, b = _lin(e.left), _lin(e.right)
        if a is None or b is None:
            return None
        out = dict(a)
        sg = 1 if isinstance(e.op, ast.Add) else -1
        for k, v in b.items():
            out[k] = out.get(k, 0) + sg * v
        return {k: v for k, v in out.items() if v or k == ''}
    return {norm(e): 1, '': 0}


def _lin_eq(a, b):
    if a is None or b is None:
        return False
    ka = {k: v for k, v in a.items() if v}
    kb = {k: v for k, v in b.items() if v}
    return ka == kb


def frame_info(ctx):
    """RFCOMM_Frame.from_bytes: the information field is everything between the header (3 bytes with a one-octet length
    indicator, 4 with two) and the FCS octet -- the length indicator does not count the credit octet of a UIH frame with
    P/F = 1, so the field cannot be cut by it."""
    R, p = ctx.r, ctx.p
    rule = 'C20.frame-info'
    fn = p.find('bumble.rfcomm.RFCOMM_Frame.from_bytes')
    tb = p.find('bumble.rfcomm.RFCOMM_Frame.__bytes__')
    if fn is None or tb is None:
        R.bad(rule, 'bumble.rfcomm.RFCOMM_Frame.from_bytes', 'anchor missing')
        return
    arms = [n for n in walk_local(fn) if isinstance(n, ast.If) and norm(n.test) in ('length & 1', 'length & 1 != 0', 'length & 1 == 1')]
    if len(arms) != 1:
        R.bad(rule, 'bumble.rfcomm.RFCOMM_Frame.from_bytes | EA bit', f'{len(arms)} tests of the EA bit of the length indicator', p.loc(fn))
        return
    got = []
    for hdr, blk in ((3, arms[0].body), (4, arms[0].orelse)):
        asg = [n for n in blk if isinstance(n, ast.Assign) and dotted(n.targets[0]) == 'information']
        sp = slice_parts(asg[0].value) if len(asg) == 1 else None
        got.append(sp)
        R.check(sp == ('data', str(hdr), '-1'), rule, f'bumble.rfcomm.RFCOMM_Frame.from_bytes | information, {hdr}-byte header', f'information = data[{hdr}:-1]',
                f'with a {hdr}-byte header the information field is taken as {sp}: not everything between header and FCS (a frame that carries a credit octet loses its last payload byte, or keeps the FCS)', p.loc(asg[0]) if asg else p.loc(fn))
    R.check("fcs = data[-1]" in norm(fn), rule, 'bumble.rfcomm.RFCOMM_Frame.from_bytes | fcs', 'FCS = last octet', 'FCS position changed', p.loc(fn))


def bounds(ctx):
    R, p = ctx.r, ctx.p
    rule = 'C20.bounds'
    fn, loop = _process_tx(ctx, rule)
    if loop is None:
        return
    takes = [n for n in ast.walk(loop) if isinstance(n, (ast.Assign, ast.AugAssign)) and _reads_tx_buffer(n.value) and not any(dotted(t) == 'self.tx_buffer' for t in _targets(n))]
    R.check(len(takes) >= 2, rule, f'{DLC}.process_tx | takes', f'{len(takes)} statements take bytes from tx_buffer', 'fewer than the two confirmed take sites (with and without credit byte)', p.loc(loop))
    for tk in takes:
        blk = tk._parent.body if tk in getattr(tk._parent, 'body', []) else tk._parent.orelse
        i = blk.index(tk)
        sp = slice_parts(tk.value)
        key = f'{DLC}.process_tx | take `{norm(tk)}`'
        if sp is None or sp[0] != 'self.tx_buffer' or sp[1] != '0' or sp[2] is None:
            R.bad(rule, key, 'bytes are not taken as a prefix slice tx_buffer[:n]', p.loc(tk))
            continue
        upper = _lin(tk.value.slice.upper)
        # bytes already in the chunk on this path (credit byte)
        k = 0
        if isinstance(tk, ast.AugAssign):
            tgt = dotted(tk.target)
            # the assignment to the chunk that dominates this take: an earlier sibling in an enclosing block
            pv = None
            node = tk
            while pv is None and node is not loop and getattr(node, '_parent', None) is not None:
                par = node._parent
                for blk_name in ('body', 'orelse', 'finalbody'):
                    blk_ = getattr(par, blk_name, None)
                    if isinstance(blk_, list) and node in blk_:
                        for s_ in reversed(blk_[:blk_.index(node)]):
                            if isinstance(s_, ast.Assign) and any(dotted(t) == tgt for t in s_.targets):
                                pv = s_.value
                                break
                node = par
            if isinstance(pv, ast.Call) and dotted(pv.func) == 'bytes' and pv.args and isinstance(pv.args[0], ast.List):
                k = len(pv.args[0].elts)
            else:
                R.bad(rule, key, 'cannot size the bytes that precede the data in the chunk', p.loc(tk))
                continue
        want = {'self.mtu': 1, '': -k}
        R.check(_lin_eq(upper, want), rule, key, f'{k} credit byte(s) + tx_buffer[:{norm(tk.value.slice.upper)}] = self.mtu', f'chunk may reach {k} + ({norm(tk.value.slice.upper)}) bytes, not self.mtu: a frame can exceed the negotiated maximum (or wastes capacity)', p.loc(tk))
        # consumption
        cons = next((s_ for s_ in blk[i + 1:] if isinstance(s_, ast.Assign) and dotted(s_.targets[0]) == 'self.tx_buffer'), None)
        ok = False
        if isinstance(cons, ast.Assign) and dotted(cons.targets[0]) == 'self.tx_buffer':
            cp = slice_parts(cons.value)
            if cp and cp[0] == 'self.tx_buffer' and cp[2] is None:
                lo = _lin(cons.value.slice.lower) if cons.value.slice.lower is not None else {'': 0}
                chunk = dotted(_targets(tk)[0])
                ok = _lin_eq(lo, {f'len({chunk})': 1, '': -k}) or _lin_eq(lo, upper)
        R.check(ok, rule, key + ' | consumed', 'tx_buffer drops exactly the bytes put in the frame', 'the bytes removed from tx_buffer are not the bytes sent: data is lost or duplicated on the wire', p.loc(cons) if cons is not None else p.loc(tk))
    # DLC.mtu
    init = p.find(f'{DLC}.__init__')
    fr = p.cls('bumble.rfcomm.RFCOMM_Frame')
    if init is None or fr is None:
        R.bad(rule, f'{DLC}.__init__', 'anchor missing')
        return
    overhead = None
    fb = fr.methods.get('__bytes__')
    if fb is not None:
        ret = next((n.value for n in walk_local(fb) if isinstance(n, ast.Return)), None)
        terms = []

        def flat(e):
            if isinstance(e, ast.BinOp) and isinstance(e.op, ast.Add):
                flat(e.left)
                flat(e.right)
            else:
                terms.append(e)
        flat(ret)
        overhead = 0
        fi = fr.methods.get('__init__')
        for t in terms:
            if isinstance(t, ast.Call) and dotted(t.func) == 'bytes' and t.args and isinstance(t.args[0], ast.List):
                overhead += len(t.args[0].elts)
            elif dotted(t) == 'self.information':
                pass
            elif dotted(t) == 'self.length':
                sizes = [len(n.value.args[0].elts) for n in walk_local(fi) if isinstance(n, ast.Assign) and dotted(n.targets[0]) == 'self.length' and isinstance(n.value, ast.Call) and n.value.args and isinstance(n.value.args[0], ast.List)]
                if not sizes:
                    overhead = None
                    break
                overhead += max(sizes)
            else:
                overhead = None
                break
    R.check(overhead == 5, rule, 'bumble.rfcomm.RFCOMM_Frame.__bytes__ | overhead', 'address + control + up to 2 length bytes + FCS = 5', f'frame overhead computed from the serializer is {overhead}', p.loc(fb) if fb else '')
    mt = [n.value for n in walk_local(init) if isinstance(n, ast.Assign) and dotted(n.targets[0]) == 'self.mtu']
    ok = False
    detail = ''
    if len(mt) == 1 and isinstance(mt[0], ast.Call) and dotted(mt[0].func) == 'min' and len(mt[0].args) == 2:
        args = [norm(a) for a in mt[0].args]
        locs = {t.id: n.value for n in walk_local(init) if isinstance(n, ast.Assign) for t in n.targets if isinstance(t, ast.Name)}
        has_frame = 'tx_max_frame_size' in args or 'self.tx_max_frame_size' in args
        other = next((a for a in mt[0].args if norm(a) not in ('tx_max_frame_size', 'self.tx_max_frame_size')), None)
        lf = _lin(other) if other is not None else None
        if lf:
            # substitute local constants
            tot = lf.get('', 0)
            atoms = {}
            for a, c in lf.items():
                if not a:
                    continue
                if a in locs:
                    try:
                        tot += c * eval(compile(ast.Expression(locs[a]), '<c>', 'eval'), {'__builtins__': {}})
                        continue
                    except Exception:
                        pass
                atoms[a] = c
            ok = has_frame and atoms == {'self.multiplexer.l2cap_channel.peer_mtu': 1} and overhead is not None and -tot >= overhead
            detail = f'min({", ".join(args)}) with overhead {-tot}'
    R.check(ok, rule, f'{DLC}.__init__ | mtu', f'{detail}: a full chunk plus frame overhead fits the peer\'s L2CAP MTU and the negotiated frame size', f'DLC.mtu is not min(tx_max_frame_size, peer_mtu - overhead>= {overhead}) ({detail})', p.loc(init))


def pf_agreement(ctx):
    R, p = ctx.r, ctx.p
    rule = 'C20.pf-agreement'
    fn, loop = _process_tx(ctx, rule)
    if loop is None:
        return
    # the test that prepends the credit byte
    pre = [n for n in ast.walk(loop) if isinstance(n, ast.Assign) and isinstance(n.value, ast.Call) and dotted(n.value.func) == 'bytes' and n.value.args and isinstance(n.value.args[0], ast.List) and len(n.value.args[0].elts) == 1]
    sends = [c for c in calls_in(loop) if dotted(c.func) == 'RFCOMM_Frame.uih']
    if len(pre) != 1 or len(sends) != 1:
        R.bad(rule, f'{DLC}.process_tx | credit byte / send', f'{len(pre)} credit-byte sites, {len(sends)} uih sends (expected 1/1)', p.loc(loop))
        return
    g = [(norm(t), pol) for t, pol in paths.flat_guards(pre[0], stop=loop) if t is not loop.test]
    pf = kwarg(sends[0], 'p_f', 3)
    ok = isinstance(pf, ast.IfExp) and cv(pf.body) == 1 and cv(pf.orelse) == 0 and g == [(norm(pf.test), True)]
    # variables of the test are not reassigned between the prefix and the send
    if ok:
        names = _names(pf.test)
        between = [n for n in ast.walk(loop) if isinstance(n, (ast.Assign, ast.AugAssign)) and pre[0].lineno < n.lineno < sends[0].lineno and any(dotted(t) in names for t in _targets(n))]
        ok = not between
    R.check(ok, rule, f'{DLC}.process_tx | P/F iff credit byte', f'p_f = 1 exactly under `{norm(pf.test) if isinstance(pf, ast.IfExp) else "?"}`, the test that prepends the credit byte', 'the P/F bit and the presence of the credit byte are decided by different conditions: the receiver mis-frames the payload', p.loc(sends[0]))
    cb = norm(pre[0].value.args[0].elts[0])
    inc = [n for n in ast.walk(loop) if isinstance(n, ast.AugAssign) and dotted(n.target) == 'self.rx_credits']
    ok = len(inc) == 1 and isinstance(inc[0].op, ast.Add) and norm(inc[0].value) == cb and inc[0]._parent is pre[0]._parent
    R.check(ok, 'C20.rx-ledger', f'{DLC}.process_tx | grant recorded', f'rx_credits += {cb} exactly where the byte [{cb}] is put on the wire', 'the credits granted on the wire and the credits recorded locally differ', p.loc(pre[0]))
    rst = [n for n in loop.body if isinstance(n, ast.Assign) and norm(n.targets[0]) == cb and cv(n.value) == 0]
    R.check(bool(rst) and rst[-1].lineno > sends[0].lineno, 'C20.rx-ledger', f'{DLC}.process_tx | grant sent once', f'{cb} is cleared after the frame is sent', 'the same grant is sent again on the next iteration', p.loc(loop))
    uih = p.find(f'{DLC}.on_uih_frame')
    if uih is not None:
        strips = [n for n in walk_local(uih) if isinstance(n, ast.Assign) and slice_parts(n.value) and slice_parts(n.value)[1:] == ('1', None)]
        ok = len(strips) == 1 and [norm(t) for t, pol in paths.flat_guards(strips[0]) if pol] == ['frame.p_f == 1']
        R.check(ok, rule, f'{DLC}.on_uih_frame | strip', 'exactly one byte stripped, only under p_f == 1', 'the receiver does not strip exactly the credit byte under p_f == 1', p.loc(uih))
    mk = p.find('bumble.rfcomm.RFCOMM_Frame.uih')
    if mk is not None:
        c = next((c for c in calls_in(mk) if dotted(c.func) == 'RFCOMM_Frame'), None)
        wc = kwarg(c, 'with_credits', 5) if c is not None else None
        R.check(wc is not None and norm(wc) in ('p_f == 1', 'bool(p_f)', 'p_f != 0'), rule, 'bumble.rfcomm.RFCOMM_Frame.uih | length excludes credit byte', 'with_credits follows p_f', 'frame length field does not follow the credit byte', p.loc(mk))


def rx_ledger(ctx):
    R, p = ctx.r, ctx.p
    rule = 'C20.rx-ledger'
    fn = p.find(f'{DLC}.rx_credits_needed')
    if fn is None:
        R.bad(rule, f'{DLC}.rx_credits_needed', 'anchor missing')
        return
    rets = [n for n in walk_local(fn) if isinstance(n, ast.Return)]
    grant = [r for r in rets if cv(r.value) != 0]
    # single-assignment locals are read through (the occupied part of the window may be named)
    defs = {st.targets[0].id: st.value for st in walk_local(fn) if isinstance(st, ast.Assign) and isinstance(st.targets[0], ast.Name)}

    def through(e):
        txt = norm(e)
        for k, v in defs.items():
            txt = re.sub(rf'\b{k}\b', f'({norm(v)})', txt)
        return ast.parse(txt, mode='eval').body
    Q = 'len(self._enqueued_rx_packets)'
    lf = _lin(through(grant[0].value)) if len(grant) == 1 else None
    # what is held: the credits the peer has, plus (optionally) the frames queued for a sink that is not attached yet
    ok = lf is not None and (_lin_eq(lf, {'self.rx_max_credits': 1, 'self.rx_credits': -1}) or _lin_eq(lf, {'self.rx_max_credits': 1, 'self.rx_credits': -1, Q: -1}))
    with_queue = lf is not None and _lin_eq(lf, {'self.rx_max_credits': 1, 'self.rx_credits': -1, Q: -1})
    g = [(through(t), pol) for t, pol in paths.flat_guards(grant[0])] if grant else []
    from ..sym import ineq, same_ineq
    want = f'self.rx_credits + {Q} <= self.rx_credits_threshold' if with_queue else 'self.rx_credits <= self.rx_credits_threshold'
    ok = ok and len(g) == 1 and same_ineq(ineq(g[0][0], g[0][1]), ineq(want))
    R.check(ok, rule, f'{DLC}.rx_credits_needed', 'grants rx_max_credits - rx_credits when at or below the threshold, else nothing', 'replenishment grant is not `rx_max_credits - rx_credits` under `rx_credits <= threshold`: the peer may be granted more than the receiver can take, or starve', p.loc(fn))
    try:
        mx = p.module_const('bumble.rfcomm', 'RFCOMM_DEFAULT_MAX_CREDITS')
        m = p.module('bumble.rfcomm')
        th_e = m.assigns['RFCOMM_DEFAULT_CREDIT_THRESHOLD']
        th = eval(compile(ast.Expression(th_e), '<c>', 'eval'), {'__builtins__': {}, 'RFCOMM_DEFAULT_MAX_CREDITS': mx})
        ic = p.module_const('bumble.rfcomm', 'RFCOMM_DEFAULT_INITIAL_CREDITS')
        R.check(0 <= th < mx <= 255 and 1 <= ic <= 7, rule, 'bumble.rfcomm | credit constants', f'0 <= threshold {th} < max {mx} <= 255, initial {ic} in 1..7', f'credit constants out of range: threshold {th}, max {mx}, initial {ic}', '')
    except Exception as e:
        R.bad(rule, 'bumble.rfcomm | credit constants', f'cannot evaluate ({e})')
    init = p.find(f'{DLC}.__init__')
    d = {dotted(t): norm(n_.value) for n_ in walk_local(init) if isinstance(n_, ast.Assign) for t in n_.targets if dotted(t)} if init else {}
    R.check(d.get('self.rx_max_credits') == 'RFCOMM_DEFAULT_MAX_CREDITS' and d.get('self.rx_credits_threshold') == 'RFCOMM_DEFAULT_CREDIT_THRESHOLD', rule, f'{DLC}.__init__ | ledger limits', 'limits come from the checked constants', 'rx_max_credits / threshold no longer come from the checked constants', p.loc(init) if init else '')
    uih = p.find(f'{DLC}.on_uih_frame')
    if uih is not None:
        dec = [n for n in walk_local(uih) if isinstance(n, ast.AugAssign) and dotted(n.target) == 'self.rx_credits']
        ok = len(dec) == 1 and isinstance(dec[0].op, ast.Sub) and cv(dec[0].value) == 1
        g = [norm(t) for t, pol in paths.flat_guards(dec[0]) if pol] if dec else []
        R.check(ok and 'data' in g and 'self.rx_credits > 0' in g, rule, f'{DLC}.on_uih_frame | credit consumed', 'one rx credit per non-empty data frame, never below zero', 'received data frames do not consume exactly one rx credit', p.loc(uih))


def tx_ranking(ctx, rule, loop=None):
    R, p = ctx.r, ctx.p
    if loop is None:
        fn, loop = _process_tx(ctx, rule)
        if loop is None:
            return
    # ranking argument: every iteration either spends a tx credit or is the (single) credit-granting one, so the
    # loop runs at most tx_credits + 1 times whatever the peer negotiated (an mtu of 0 included).
    class Rank(paths.Domain):
        # value: (granting branch taken?, {flag name: True/False/'?'} as tuple, credit spent?)
        def event(self, node, v):
            br, flags, dec = v
            if isinstance(node, ast.Assign) and len(node.targets) == 1 and isinstance(node.targets[0], ast.Name):
                f = dict(flags)
                f[node.targets[0].id] = node.value.value if isinstance(node.value, ast.Constant) and isinstance(node.value.value, bool) else '?'
                return ((br, tuple(sorted(f.items(), key=str)), dec),)
            if isinstance(node, ast.AugAssign) and dotted(node.target) == 'self.tx_credits' and isinstance(node.op, ast.Sub) and is_const(node.value) and const(node.value) >= 1:
                return ((br, flags, True),)
            return (v,)

        def assume(self, atom, truth, v):
            br, flags, dec = v
            if norm(atom) == 'rx_credits_needed > 0':
                if br is None:
                    return ((truth, flags, dec),)
                return (v,) if br == truth else ()   # not reassigned before the reset at the end of the body
            if isinstance(atom, ast.Name) and dict(flags).get(atom.id) in (True, False):
                return (v,) if dict(flags)[atom.id] == truth else ()
            return (v,)
    res = paths.run_block(loop.body, Rank(), (None, (), False))
    ends = paths.join(res.get('fall', {}), res.get('continue', {}))
    resets = any(isinstance(x, ast.Assign) and norm(x) == 'rx_credits_needed = 0' and getattr(x, '_parent', None) is loop for x in loop.body)
    stuck = [' '.join(w) for (br, flags, dec), w in ends.items() if not dec and not (br is True and resets)]
    R.check(not stuck and bool(ends), rule, f'{DLC}.process_tx | ranking', f'each of the {len(ends)} paths through one iteration spends a tx credit or is the single credit-granting iteration (rx_credits_needed reset to 0)',
            'an iteration can complete without spending a tx credit and without being the credit-granting one: when nothing is dequeued (mtu 0 negotiated by the peer) the loop never ends', p.loc(loop), stuck[:3])


def progress(ctx):
    R, p = ctx.r, ctx.p
    rule = 'C20.progress'
    for name in ('on_uih_frame', 'write'):
        fn = p.find(f'{DLC}.{name}')
        if fn is None:
            R.bad(rule, f'{DLC}.{name}', 'anchor missing')
            continue

        class D(paths.Domain):
            def event(self, node, v):
                if isinstance(node, ast.Call) and dotted(node.func) == 'self.process_tx':
                    return (True,)
                return (v,)
        res = paths.run(fn, D(), False)
        ex = paths.normal_exits(res)
        bad = [' '.join(w) for v, w in ex.items() if not v]
        R.check(not bad, rule, f'{DLC}.{name}', 'every normal exit has run process_tx', 'a path returns without running process_tx: credits are not returned / queued data is not pumped', p.loc(fn), bad[:3])
    uih = p.find(f'{DLC}.on_uih_frame')
    if uih is not None:
        sinks = [c for c in calls_in(uih) if dotted(c.func) == 'self._sink']
        ok = bool(sinks)
        for c in sinks:
            a, prev, cont = getattr(c, '_parent', None), c, False
            while a is not None and a is not uih:
                if isinstance(a, ast.Try) and any(prev is s_ or any(prev is x for x in ast.walk(s_)) for s_ in a.body):
                    cont = cont or any(h.type is None or text(h.type).split('.')[-1] in ('Exception', 'BaseException') for h in a.handlers)
                prev, a = a, getattr(a, '_parent', None)
            ok = ok and cont
        R.check(ok, rule, f'{DLC}.on_uih_frame | sink call contained', 'an exception raised by the consumer cannot skip the credit accounting and process_tx()',
                'the consumer of the data link is called outside try/except: when it raises, the received frame is not charged to rx_credits and no credits are returned - the two ledgers diverge and the link wedges', p.loc(uih))
    fn, loop = _process_tx(ctx, rule)
    if loop is not None:
        # the loop condition is the disjunction "can send data" or "must grant credits"
        t = loop.test
        ok = isinstance(t, ast.BoolOp) and isinstance(t.op, ast.Or) and len(t.values) == 2
        if ok:
            parts = sorted(norm(v) for v in t.values)
            ok = parts == sorted(['self.tx_buffer and self.tx_credits > 0', 'rx_credits_needed > 0'])
        R.check(ok, rule, f'{DLC}.process_tx | loop condition', 'runs while data can be sent with a credit or credits must be granted', 'the transmit loop no longer runs exactly while (data and credit) or (grant needed)', p.loc(loop))
        tx_ranking(ctx, rule, loop)
        dr = [n for n in ast.walk(loop) if isinstance(n, ast.Call) and dotted(n.func) == 'self.drained.set']
        g = [(norm(t_), pol) for c in dr for t_, pol in paths.flat_guards(c, stop=loop) if t_ is not loop.test]
        R.check(len(dr) == 1 and g == [('self.tx_buffer', False)], rule, f'{DLC}.process_tx | drained', 'drained is set when (and only when) the buffer is empty', 'drained is not tied to an empty tx_buffer', p.loc(loop))


def _effects(stmts):
    out = set()
    for s in stmts:
        for c in calls_in(s):
            d = dotted(c.func)
            if d in ('self.change_state', 'self.emit', 'self.multiplexer.on_dlc_disconnection', 'self.multiplexer.on_dlc_open_complete', 'self.send_frame'):
                a = norm(c.args[0]) if c.args else ''
                if d == 'self.send_frame':
                    a = dotted(c.args[0].func) if isinstance(c.args[0], ast.Call) else a
                out.add(f'{d}({a})')
    return out


def _first_real_stmt(fn):
    """first statement that is not a docstring, `pass` or a logging call."""
    for s_ in fn.body:
        if isinstance(s_, ast.Pass):
            continue
        if isinstance(s_, ast.Expr) and (is_const(s_.value) or (isinstance(s_.value, ast.Call) and (dotted(s_.value.func) or '').split('.')[0] in ('logger', 'logging'))):
            continue
        return s_
    return None


def teardown(ctx):
    R, p = ctx.r, ctx.p
    rule = 'C20.teardown'
    ua = p.find(f'{DLC}.on_ua_frame')
    disc = p.find(f'{DLC}.on_disc_frame')
    sabm = p.find(f'{DLC}.on_sabm_frame')
    if not (ua and disc and sabm):
        R.bad(rule, f'{DLC}.on_ua_frame/on_disc_frame/on_sabm_frame', 'anchor missing')
        return
    # initiator-side effects per state branch of on_ua_frame
    br = {}
    for n in ast.walk(ua):
        if isinstance(n, ast.If) and isinstance(n.test, ast.Compare) and norm(n.test.left) == 'self.state' and isinstance(n.test.ops[0], ast.Eq):
            br[norm(n.test.comparators[0]).split('.')[-1]] = _effects(n.body)
    want_close = {e for e in br.get('DISCONNECTING', set()) if not e.startswith('self.send_frame')}
    R.check({'self.change_state(DLC.State.DISCONNECTED)', 'self.multiplexer.on_dlc_disconnection(self)', 'self.emit(self.EVENT_CLOSE)'} <= want_close, rule, f'{DLC}.on_ua_frame | DISCONNECTING', 'initiator: DISCONNECTED, removed from the multiplexer, close event', 'initiator-side teardown effects changed', p.loc(ua))

    # responder: every path that is not a no-op for an already released link has the same effects
    class D(paths.Domain):
        def event(self, node, v):
            if isinstance(node, ast.Call):
                d = dotted(node.func)
                if d in ('self.change_state', 'self.emit', 'self.multiplexer.on_dlc_disconnection'):
                    return (v | {f'{d}({norm(node.args[0]) if node.args else ""})'},)
                if d == 'self.send_frame' and node.args and isinstance(node.args[0], ast.Call):
                    return (v | {f'send({dotted(node.args[0].func)})'},)
            return (v,)

        def assume(self, atom, truth, v):
            a = norm(atom)
            if a.startswith('self.state in') and truth:
                inner = {x.split('.')[-1] for x in re.findall(r'State\.\w+', a)}
                if inner <= {'DISCONNECTED', 'RESET'}:
                    return (v | {'<already released>'},)
            return (v,)
    res = paths.run(disc, D(), frozenset())
    bad = []
    n = 0
    for v, w in paths.normal_exits(res).items():
        n += 1
        if 'send(RFCOMM_Frame.ua)' not in v:
            bad.append(f'DISC not acknowledged with UA ({" ".join(w)})')
        if '<already released>' in v:
            continue
        miss = want_close - v
        if miss:
            bad.append(f'missing {sorted(miss)} ({" ".join(w)})')
    R.check(not bad and n >= 1, rule, f'{DLC}.on_disc_frame | responder releases the data link', 'the side that receives DISC acknowledges it and ends DISCONNECTED, out of the multiplexer table, with a close event, like the side that sent it',
            'after the peer closes a data link the local DLC stays connected/registered: the two ends disagree about the link', p.loc(disc), bad[:3])
    pop = p.find(f'{MUX}.on_dlc_disconnection')
    ok = pop is not None and any(call_attr(c) == 'pop' and dotted(c.func.value) == 'self.dlcs' and norm(c.args[0]) == 'dlc.dlci' for c in calls_in(pop))
    R.check(ok, rule, f'{MUX}.on_dlc_disconnection', 'removes the DLC from the table by its DLCI', 'multiplexer does not remove the closed DLC from its table', p.loc(pop) if pop else '')
    # set-up parity
    want_open = {'self.change_state(DLC.State.CONNECTED)'}
    acc = _effects(sabm.body)
    R.check(want_open <= br.get('CONNECTING', set()) and want_open <= acc and 'self.emit(self.EVENT_OPEN)' in acc and 'self.send_frame(RFCOMM_Frame.ua)' in acc and 'self.multiplexer.on_dlc_open_complete(self)' in br.get('CONNECTING', set()),
            rule, f'{DLC} | set-up parity', 'SABM receiver: UA, CONNECTED, open event; UA receiver: CONNECTED, open completes', 'the two ends of a data link set-up do not both reach CONNECTED', p.loc(sabm))
    # state preconditions
    for name, st in (('connect', 'INIT'), ('accept', 'INIT'), ('disconnect', 'CONNECTED'), ('on_sabm_frame', 'CONNECTING')):
        m = p.find(f'{DLC}.{name}')
        first = _first_real_stmt(m) if m else None
        ok = isinstance(first, ast.If) and norm(first.test) == f'self.state != DLC.State.{st}' and paths._always_leaves(first.body)
        R.check(ok, rule, f'{DLC}.{name} | precondition', f'only from {st}', f'{name} no longer requires state {st}', p.loc(m) if m else '')
    # multiplexer
    md = p.find(f'{MUX}.on_disc_frame')
    mu = p.find(f'{MUX}.on_ua_frame')
    if md is not None and mu is not None:
        e1 = {norm(c.args[0]) for c in calls_in(md) if dotted(c.func) == 'self.change_state'}
        sent = any(dotted(c.func) == 'RFCOMM_Frame.ua' for c in calls_in(md))
        e2 = set()
        for n_ in ast.walk(mu):
            if isinstance(n_, ast.If) and 'DISCONNECTING' in norm(n_.test):
                e2 = {norm(c.args[0]) for s in n_.body for c in calls_in(s) if dotted(c.func) == 'self.change_state'}
        R.check(e1 == e2 == {'Multiplexer.State.DISCONNECTED'} and sent, rule, f'{MUX} | teardown parity', 'both ends of a multiplexer disconnection reach DISCONNECTED; DISC is acknowledged', 'multiplexer teardown leaves the two ends in different states', p.loc(md))
    cl = p.find(f'{MUX}.on_l2cap_channel_close')
    if cl is not None:
        ok = any(isinstance(n_, ast.For) and 'self.dlcs' in norm(n_.iter) and any(call_attr(c) == 'abort' for c in calls_in(n_)) for n_ in walk_local(cl))
        R.check(ok, rule, f'{MUX}.on_l2cap_channel_close', 'every DLC is aborted when the channel goes away', 'DLCs are not aborted when the L2CAP channel closes', p.loc(cl))


def negotiation(ctx):
    R, p = ctx.r, ctx.p
    rule = 'C20.negotiation'
    fn = p.find(f'{MUX}.on_mcc_pn')
    if fn is None:
        R.bad(rule, f'{MUX}.on_mcc_pn', 'anchor missing')
        return
    pn = fn.args.args[2].arg
    ctor = [c for c in calls_in(fn) if dotted(c.func) == 'DLC']
    R.check(len(ctor) == 2, rule, f'{MUX}.on_mcc_pn | DLC constructions', 'one per role (command / response)', f'{len(ctor)} DLC constructions', p.loc(fn))
    want_cmd = {'dlci': f'{pn}.dlci', 'tx_max_frame_size': f'{pn}.max_frame_size', 'tx_initial_credits': f'{pn}.initial_credits'}
    for c in ctor:
        kw = {k.arg: norm(k.value) for k in c.keywords}
        g = [(norm(t), pol) for t, pol in paths.flat_guards(c)]
        is_cmd = ('c_r', True) in g
        role = 'acceptor (PN command)' if is_cmd else 'initiator (PN response)'
        ok = all(kw.get(k) == v for k, v in want_cmd.items())
        if is_cmd:
            # local parameters come from the acceptor callback
            acc = next((n for n in ast.walk(fn) if isinstance(n, ast.NamedExpr) and isinstance(n.value, ast.Call) and dotted(n.value.func) == 'self.acceptor'), None)
            nm = acc.target.id if acc is not None else 'dlc_params'
            ok = ok and kw.get('rx_max_frame_size') == f'{nm}[0]' and kw.get('rx_initial_credits') == f'{nm}[1]'
        else:
            ok = ok and kw.get('rx_max_frame_size') == 'self.open_pn.max_frame_size' and kw.get('rx_initial_credits') == 'self.open_pn.initial_credits'
        R.check(ok, rule, f'{MUX}.on_mcc_pn | {role}', 'tx_* from the peer\'s PN, rx_* from the local parameters, keyed by the PN\'s DLCI', f'negotiated parameters are wired to the wrong direction ({kw})', p.loc(c))
        # stored under the same DLCI
        blk_assign = [n for n in ast.walk(fn) if isinstance(n, ast.Assign) and isinstance(n.targets[0], ast.Subscript) and dotted(n.targets[0].value) == 'self.dlcs' and abs(n.lineno - c.end_lineno) <= 3]
        R.check(any(norm(n.targets[0].slice) == f'{pn}.dlci' for n in blk_assign), rule, f'{MUX}.on_mcc_pn | {role} stored by DLCI', 'dlcs[pn.dlci] = dlc', 'the new DLC is not stored under the DLCI it was created for', p.loc(c))
    acc = p.find(f'{DLC}.accept')
    if acc is not None:
        c = next((c for c in calls_in(acc) if dotted(c.func) == 'RFCOMM_MCC_PN'), None)
        kw = {k.arg: norm(k.value) for k in c.keywords} if c is not None else {}
        R.check(kw.get('max_frame_size') == 'self.rx_max_frame_size' and kw.get('initial_credits') == 'self.rx_initial_credits' and kw.get('dlci') == 'self.dlci', rule, f'{DLC}.accept | PN response', 'advertises the local receive parameters', 'the PN response does not advertise the acceptor\'s receive parameters', p.loc(acc))
    op = p.find(f'{MUX}.open_dlc')
    if op is not None:
        c = next((c for c in calls_in(op) if dotted(c.func) == 'RFCOMM_MCC_PN'), None)
        kw = {k.arg: norm(k.value) for k in c.keywords} if c is not None else {}
        R.check(kw.get('max_frame_size') == 'max_frame_size' and kw.get('initial_credits') == 'initial_credits' and kw.get('dlci') == 'channel << 1', rule, f'{MUX}.open_dlc | PN command', 'advertises the requested receive parameters for DLCI channel<<1', 'the PN command does not carry the requested parameters', p.loc(op))
    od = p.find(f'{MUX}.on_pdu')
    if od is not None:
        s = norm(od)
        R.check('self.dlcs.get(frame.dlci)' in s, rule, f'{MUX}.on_pdu | dispatch by DLCI', 'frames go to the DLC registered under their DLCI', 'frames are not dispatched by DLCI', p.loc(od))
    sf = [c for fn_ in p.cls(DLC).methods.values() for c in calls_in(fn_) if dotted(c.func) in ('RFCOMM_Frame.uih', 'RFCOMM_Frame.ua', 'RFCOMM_Frame.sabm', 'RFCOMM_Frame.disc')]
    badk = [p.loc(c) for c in sf if norm(kwarg(c, 'dlci', 1)) not in ('self.dlci', '0')]
    R.check(len(sf) >= 6 and not badk, rule, f'{DLC} | frames carry own DLCI', f'{len(sf)} frame constructions use self.dlci (or 0 for MCC)', f'frames built with a foreign DLCI at {badk}', '')


# --------------------------------------------------------------------------- HFP
FINAL = {'self.send_ok', 'self.send_error', 'self.send_cme_error'}


def _is_final(call) -> bool:
    d = dotted(call.func)
    if d in FINAL:
        return True
    if d == 'self.send_response' and call.args and is_const(call.args[0]) and cv(call.args[0]) in ('OK', 'ERROR'):
        return True
    return False


def _raiser(p, mod, call):
    d = dotted(call.func)
    if d in ('int', 'float'):
        return 'ValueError'
    a = call_attr(call)
    if a == 'decode' and isinstance(call.func, ast.Attribute):
        return 'ValueError'
    if a == 'remove' and isinstance(call.func, ast.Attribute):
        return 'KeyError'
    if d:
        q = p.resolve_name(mod, d)
        if q and p.cls(q) is not None and any(b.qual.split('.')[-1] in ('OpenIntEnum',) or 'enum.' in ''.join(p.cls(b.qual).bases) or any(x.endswith('Enum') or x.endswith('IntFlag') for x in p.cls(b.qual).bases) for b in p.mro(q)):
            return 'ValueError'
    return None


def ag_once(ctx):
    R, p = ctx.r, ctx.p
    rule = 'C20.ag-once'
    ag = p.cls(AG)
    if ag is None:
        R.bad(rule, AG, 'anchor missing')
        return
    mod = ag.module
    contained = set()  # exception tags the reader turns into one ERROR
    rd = ag.methods.get('_read_at')
    # ---- handlers
    handlers = {n: m for n, m in ag.methods.items() if n.startswith('_on_')}
    raises_seen = set()

    class H(paths.Domain):
        def event(self, node, v):
            if isinstance(node, ast.Call) and _is_final(node):
                return (min(v + 1, 2),)
            return (v,)

        def may_raise(self, call):
            t = _raiser(p, mod, call)
            return t if t else False

        def is_subclass(self, tag, name):
            return tag == name or name in ('Exception', 'BaseException') or (tag == 'UnicodeDecodeError' and name == 'ValueError')

    per_handler_raise = {}
    for name, m in sorted(handlers.items()):
        res = paths.run(m, H(), 0)
        bad = []
        for k, st in res.items():
            for v, w in st.items():
                if k.startswith('raise:'):
                    tag = k[6:]
                    raises_seen.add(tag)
                    if tag == 'ValueError':
                        raises_seen.add('TypeError')  # int()/Enum() of a nested-list parameter
                        per_handler_raise.setdefault('TypeError', []).append(name)
                    per_handler_raise.setdefault(tag, []).append(name)
                    if v != 0:
                        bad.append(f'{tag} may be raised after {v} final result code(s) were sent ({" ".join(w)})')
                elif v != 1:
                    bad.append(f'{v} final result codes on a normal path ({" ".join(w)})')
        R.check(not bad, rule, f'{AG}.{name}', 'exactly one final result code on every normal path; value conversions happen before it', 'an AT command is concluded by no or by several final result codes', p.loc(m), bad[:3])
    # the helpers that stand for "one final result code" really send exactly one line on every path
    for hname in ('send_ok', 'send_error', 'send_cme_error'):
        hm = ag.methods.get(hname)
        if hm is None:
            R.bad(rule, f'{AG}.{hname}', 'anchor missing')
            continue

        class L(paths.Domain):
            def event(self, node, v):
                if isinstance(node, ast.Call) and dotted(node.func) in ('self.send_response', 'self.send_ok', 'self.send_error'):
                    return (min(v + 1, 2),)
                return (v,)
        res_h = paths.run(hm, L(), 0)
        badh = [f'{v} lines ({" ".join(w)})' for k, st in res_h.items() if not k.startswith('raise') for v, w in st.items() if v != 1]
        R.check(not badh, rule, f'{AG}.{hname} | one line', 'sends exactly one result line on every path', f'{hname} sends {badh}: a command concluded through it gets no or two final result codes', p.loc(hm))
    R.check(len(handlers) >= 24, rule, f'{AG} | handlers', f'{len(handlers)} AT handlers analysed', f'only {len(handlers)} handlers found')
    # ---- reader
    if rd is None:
        R.bad(rule, f'{AG}._read_at', 'anchor missing')
        return
    loop = next((n for n in rd.body if isinstance(n, ast.While)), None)
    if loop is None:
        R.bad(rule, f'{AG}._read_at | loop', 'anchor missing', p.loc(rd))
        return
    hvar = next((n.target.id for n in ast.walk(loop) if isinstance(n, ast.NamedExpr) and isinstance(n.value, ast.Call) and dotted(n.value.func) == 'getattr'), None)

    class Rd(paths.Domain):
        def event(self, node, v):
            if isinstance(node, ast.Call):
                if _is_final(node):
                    return (min(v + 1, 2),)
                if hvar and dotted(node.func) == hvar:
                    return (min(v + 1, 2),)  # the handler's normal paths: exactly one (rule above)
            return (v,)

        def may_raise(self, call):
            d = dotted(call.func)
            if hvar and d == hvar:
                return 'HANDLER'
            if d == 'AtCommand.parse_from':
                return 'ValueError'
            if d and d.endswith('.bind'):
                return 'TypeError'
            return False

        def is_subclass(self, tag, name):
            if tag == 'HANDLER':
                contained.add(name)
                return name in ('ValueError', 'KeyError', 'Exception', 'BaseException')
            return tag == name or name in ('Exception', 'BaseException')

        def ret(self, node, v):
            return 'incomplete'
    res = paths.run_block(loop.body, Rd(), 0, test=loop.test)
    bad = []
    n = 0
    for k, st in res.items():
        for v, w in st.items():
            n += 1
            if k.startswith('raise:'):
                bad.append(f'{k[6:]} escapes the reader with {v} final result code(s) sent ({" ".join(w)})')
            elif k == 'ret:incomplete':
                if v != 0:
                    bad.append(f'result code sent for an incomplete line ({" ".join(w)})')
            elif v != 1:
                bad.append(f'{v} final result codes for one command ({" ".join(w)})')
    # exceptions the handlers may raise must all be contained
    hcall = next((c for c in ast.walk(loop) if isinstance(c, ast.Call) and hvar and dotted(c.func) == hvar), None)
    caught = set()
    if hcall is not None:
        for a in ast.walk(loop):
            if isinstance(a, ast.Try) and any(hcall is x for s in a.body for x in ast.walk(s)):
                for h in a.handlers:
                    ts = h.type.elts if isinstance(h.type, ast.Tuple) else ([h.type] if h.type is not None else [])
                    caught |= {text(t).split('.')[-1] for t in ts} or {'Exception'}
    unc = sorted(t for t in raises_seen if t not in caught and 'Exception' not in caught)
    if unc:
        bad.append(f'handlers may raise {unc} (e.g. {per_handler_raise[unc[0]][:3]}), which the reader does not turn into a result code')
        R.check(not bad and n >= 3, rule, f'{AG}._read_at | one result code per command', f'{n} distinct reader outcomes: parse error, arity error, unknown command, handler, handler exception each yield exactly one final code', 'a received AT command is concluded by no or by several final result codes', p.loc(loop), bad[:4])


def _cmd_templates(fn):
    """-> [(node, head, nparams or None(variadic))] for execute_command calls in fn."""
    out = []
    for c in calls_in(fn):
        if dotted(c.func) != 'self.execute_command' or not c.args:
            continue
        a = c.args[0]
        if isinstance(a, ast.Constant) and isinstance(a.value, str):
            parts = [a.value]
        elif isinstance(a, ast.JoinedStr):
            parts = [v.value if isinstance(v, ast.Constant) else v for v in a.values]
        else:
            out.append((c, None, None))
            continue
        out.append((c, parts, None))
    return out


def _handler_for(parts):
    """-> (handler name, min params, max params or None)"""
    head = parts[0] if isinstance(parts[0], str) else ''
    m = re.fullmatch(r'AT\+([A-Z]+)(=\?|=|\?)?(.*)', head, re.S)
    rest = parts[1:]
    if m:
        code, sub, tail = m.group(1), m.group(2) or '', m.group(3)
        name = f'_on_{code.lower()}' + {'=?': '_test', '?': '_read'}.get(sub, '')
        if sub in ('=?', '?') or (not sub and not tail and not rest):
            return name, 0, 0
        # count parameters
        lo = hi = 0
        text_ = tail
        variadic = False
        n_fixed = 0
        for r in rest:
            if isinstance(r, str):
                text_ += r
            else:
                v = r.value if isinstance(r, ast.FormattedValue) else r
                if isinstance(v, ast.Call) and call_attr(v) == 'join':
                    variadic = True
                    text_ += '\0'
                else:
                    text_ += 'X'
        fields = text_.split(',')
        if variadic:
            return name, len(fields) - 1, None
        return name, len(fields), len(fields)
    if head.startswith('ATA'):
        return '_on_a', 0, 0
    if head.startswith('ATD'):
        return '_on_d', 1, 1
    return None, 0, 0


def _accepts(fn, lo, hi):
    a = fn.args
    pos = a.args[1:]
    req = len(pos) - len(a.defaults)
    mx = None if a.vararg else len(pos)
    if lo < req:
        return False
    if hi is None:
        return mx is None
    return mx is None or hi <= mx


def hf_coverage(ctx):
    R, p = ctx.r, ctx.p
    rule = 'C20.hf-coverage'
    hf, ag = p.cls(HF), p.cls(AG)
    if hf is None or ag is None:
        R.bad(rule, HF, 'anchor missing')
        return
    n = 0
    for mname, m in sorted(hf.methods.items()):
        for c, parts, _ in _cmd_templates(m):
            if parts is None:
                if mname == 'execute_command':
                    continue
                R.bad(rule, f'{HF}.{mname} | command `{norm(c.args[0])[:40]}`', 'command text is not a literal template: cannot be matched to a gateway handler', p.loc(c))
                continue
            n += 1
            name, lo, hi = _handler_for(parts)
            shown = ''.join(x if isinstance(x, str) else '{}' for x in parts)
            h = ag.methods.get(name) if name else None
            if h is None:
                R.bad(rule, f'{HF}.{mname} | {shown}', f'no gateway handler {name}: the command is answered ERROR', p.loc(c))
                continue
            R.check(_accepts(h, lo, hi), rule, f'{HF}.{mname} | {shown}', f'{name} accepts {lo}..{hi if hi is not None else "n"} parameters', f'{name}{norm(h.args)} does not accept the {lo}..{hi if hi is not None else "n"} parameters this command carries: it is answered ERROR', p.loc(c))
    R.check(n >= 15, rule, f'{HF} | commands', f'{n} command templates matched', f'only {n} command templates found')
    # the reader derives handler names the same way
    rd = ag.methods.get('_read_at')
    s = norm(rd) if rd else ''
    R.check("f'_on_{command.code.lower()}_test'" in s and "f'_on_{command.code.lower()}_read'" in s and "f'_on_{command.code.lower()}'" in s, rule, f'{AG}._read_at | handler naming', '_on_<code>[_test|_read]', 'handler naming scheme changed: the matching above no longer mirrors the reader', p.loc(rd) if rd else '')


def feature_typing(ctx):
    R, p = ctx.r, ctx.p
    rule = 'C20.feature-typing'
    want = {'supports_hf_feature': 'HfFeature', 'supports_ag_feature': 'AgFeature'}
    n = 0
    m = p.module('bumble.hfp')
    members = {}
    for en in ('HfFeature', 'AgFeature'):
        c = p.cls(f'bumble.hfp.{en}')
        members[en] = set(c.assigns) if c else set()
    for c in ast.walk(m.tree):
        if isinstance(c, ast.Call) and call_attr(c) in want and c.args:
            a = c.args[0]
            d = dotted(a)
            if d is None or '.' not in d:
                continue  # a variable (e.g. loop over the enum)
            n += 1
            en, mem = d.rsplit('.', 1)
            en = en.split('.')[-1]
            fnq = p.qual_of(c)
            R.check(en == want[call_attr(c)] and mem in members.get(en, ()), rule, f'{fnq} | {call_attr(c)}({d})', 'feature bit of the right side', f'{call_attr(c)} is asked about {d}: a bit of the other side\'s feature mask is tested', p.loc(c))
    R.check(n >= 14, rule, 'bumble.hfp | feature tests', f'{n} literal feature tests typed', f'only {n} feature tests found')
    for cn in (HF, AG):
        c = p.cls(cn)
        for meth, attr in (('supports_hf_feature', 'supported_hf_features'), ('supports_ag_feature', 'supported_ag_features')):
            f = c.methods.get(meth) if c else None
            ok = f is not None and f'self.{attr} & feature' in norm(f)
            R.check(ok, rule, f'{cn}.{meth}', f'tests self.{attr}', f'{meth} does not test {attr}', p.loc(f) if f else '')


def _feature_guard(node, stop):
    """set of (side, FEATURE) required (positively) to reach node."""
    out = set()
    for t, pol in paths.flat_guards(node, stop=stop):
        if isinstance(t, ast.Call) and call_attr(t) in ('supports_hf_feature', 'supports_ag_feature') and t.args:
            d = dotted(t.args[0]) or ''
            out.add((call_attr(t)[9:11], d.split('.')[-1], pol))
    return out


def guard_agreement(ctx):
    R, p = ctx.r, ctx.p
    rule = 'C20.guard-agreement'
    hf, ag = p.cls(HF), p.cls(AG)
    slc = hf.methods.get('initiate_slc') if hf else None
    if slc is None or ag is None:
        R.bad(rule, f'{HF}.initiate_slc', 'anchor missing')
        return
    cond = {}
    for c, parts, _ in _cmd_templates(slc):
        if parts is None:
            continue
        name, lo, hi = _handler_for(parts)
        g = _feature_guard(c, slc)
        shown = ''.join(x if isinstance(x, str) else '{}' for x in parts)
        cond[name] = (g, shown, c)
        if g:
            feats = {f for _, f, _ in g}
            sides = {(s, f) for s, f, pol in g if pol}
            ok = len(feats) == 1 and sides == {('hf', next(iter(feats))), ('ag', next(iter(feats)))}
            R.check(ok, rule, f'{HF}.initiate_slc | {shown} guard', f'sent iff both sides announce {sorted(feats)}', f'{shown} is sent under {sorted(g)}: not "both sides support the same feature"', p.loc(c))
    R.check(sum(1 for g, _, _ in cond.values() if g) >= 5, rule, f'{HF}.initiate_slc | conditional commands', f'{sum(1 for g, _, _ in cond.values() if g)} feature-conditional commands', 'fewer feature-conditional commands than confirmed (BAC, CHLD=?, BIND, BIND=?, BIND?)', p.loc(slc))
    # gateway refusals
    for name, (g, shown, c) in sorted(cond.items()):
        h = ag.methods.get(name)
        if h is None:
            continue
        for iff in [n for n in h.body if isinstance(n, ast.If)]:
            t = iff.test
            if isinstance(t, ast.UnaryOp) and isinstance(t.op, ast.Not) and isinstance(t.operand, ast.Call) and call_attr(t.operand) in ('supports_ag_feature', 'supports_hf_feature') and paths._always_leaves(iff.body):
                side = call_attr(t.operand)[9:11]
                f = (dotted(t.operand.args[0]) or '').split('.')[-1]
                R.check((side, f, True) in g, rule, f'{AG}.{name} | refusal on {side}:{f}', f'the hands-free side sends {shown} only when {side}:{f} is set', f'the gateway refuses {shown} unless {side}:{f}, which the hands-free side does not test before sending it: service-level connection set-up fails for such feature sets', p.loc(iff))
    # what the gateway waits for == what the hands-free side will do
    brsf = ag.methods.get('_on_brsf')
    adds = {}
    for c in calls_in(brsf) if brsf else []:
        if call_attr(c) == 'add' and dotted(c.func.value) == 'self._remained_slc_setup_features':
            f = (dotted(c.args[0]) or '').split('.')[-1]
            adds[f] = {(s, ff) for s, ff, pol in _feature_guard(c, brsf) if pol}
    rem = {}
    for name, h in ag.methods.items():
        for c in calls_in(h):
            if call_attr(c) in ('remove', 'discard') and dotted(c.func.value) == 'self._remained_slc_setup_features':
                rem[(dotted(c.args[0]) or '').split('.')[-1]] = name
    for f, g in sorted(adds.items()):
        hname = rem.get(f)
        hg = {(s, ff) for s, ff, pol in cond.get(hname, (set(), '', None))[0] if pol} if hname else None
        R.check(hname is not None and hg == g and g == {('hf', f), ('ag', f)}, rule, f'{AG}._on_brsf | waits for {f}', f'waited for under {sorted(g)}; cleared by {hname}, which the hands-free side triggers under the same condition', f'the gateway waits for a step ({f}) under {sorted(g)} but the hands-free side performs it under {sorted(hg) if hg is not None else "never"}: slc_complete is never (or wrongly) reported', p.loc(brsf))
    R.check(len(adds) >= 2, rule, f'{AG}._on_brsf | awaited steps', f'{len(adds)} awaited conditional steps', 'fewer awaited steps than confirmed (HF_INDICATORS, THREE_WAY_CALLING)')


def _callee_params(p, mod, call, within):
    d = dotted(call.func)
    if not d:
        return None
    if d.startswith('self.') and d.count('.') == 1 and within is not None:
        r = p.resolve_method(within.qual, d[5:])
        if r:
            return [a.arg for a in r[1].args.args[1:]]
        return None
    if d.startswith('cls') or d.startswith('self'):
        return None
    q = p.resolve_name(mod, d, within)
    if not q:
        return None
    c = p.cls(q)
    if c is not None:
        init = p.resolve_method(q, '__init__')
        if init and init[0].qual.startswith('bumble.'):
            return [a.arg for a in init[1].args.args[1:]]
        if any('dataclass' in text(dec) for dec in c.node.decorator_list):
            fields = []
            for b in reversed(p.mro(q)):
                fields += [n for n in b.annots if 'ClassVar' not in text(b.annots[n])]
            return fields
        return None
    f = p.find(q)
    if isinstance(f, FUNC):
        args = [a.arg for a in f.args.args]
        if args and args[0] in ('self', 'cls'):
            args = args[1:]
        return args
    return None


def arg_selection(ctx):
    R, p = ctx.r, ctx.p
    rule = 'C20.arg-selection'
    n = 0
    for mn in ('bumble.rfcomm', 'bumble.hfp', 'bumble.at'):
        m = p.module(mn)
        if m is None:
            R.bad(rule, mn, 'anchor missing')
            continue
        for c in ast.walk(m.tree):
            if not isinstance(c, ast.Call) or not c.args or any(isinstance(a, ast.Starred) for a in c.args):
                continue
            within = p.class_of(c)
            params = _callee_params(p, m, c, within)
            if not params:
                continue
            n += 1
            for i, a in enumerate(c.args):
                if i >= len(params):
                    break
                nm = dotted(a)
                if nm is None:
                    continue
                nm = nm.split('.')[-1]
                if nm != params[i] and nm in params:
                    R.bad(rule, f'{p.qual_of(c)} | {norm(c.func)}(…{nm}…)', f'positional argument {i + 1} `{nm}` is passed for parameter `{params[i]}` although the callee has a parameter `{nm}`: arguments are shifted or swapped', p.loc(c))
    R.check(n >= 60, rule, 'bumble.rfcomm/hfp/at | resolved call sites', f'{n} positional call sites with resolved callee parameter names, none passes a name for a different parameter', f'only {n} call sites resolved')


def indicator_table(ctx):
    R, p = ctx.r, ctx.p
    rule = 'C20.indicator-table'
    st = p.cls('bumble.hfp.AgIndicatorState')
    en = p.cls('bumble.hfp.AgIndicator')
    if st is None or en is None:
        R.bad(rule, 'bumble.hfp.AgIndicatorState', 'anchor missing')
        return
    values = {k: cv(v) for k, v in en.assigns.items() if is_const(v)}
    n = 0
    for name, m in sorted(st.methods.items()):
        if not any(text(d) == 'classmethod' for d in m.decorator_list):
            continue
        c = next((c for c in calls_in(m) if dotted(c.func) == 'cls'), None)
        if c is None:
            continue
        n += 1
        ind = kwarg(c, 'indicator', 0)
        mem = (dotted(ind) or '').split('.')[-1]
        R.check(values.get(mem) == name, rule, f'bumble.hfp.AgIndicatorState.{name}', f'describes AgIndicator.{mem} ("{values.get(mem)}")', f'the `{name}` factory describes AgIndicator.{mem} ("{values.get(mem)}")', p.loc(m))
        sv = kwarg(c, 'supported_values', 1)
        R.check(isinstance(sv, ast.Set) and len(sv.elts) >= 2 and cv(kwarg(c, 'current_status', 2)) in [cv(e) for e in sv.elts], rule, f'bumble.hfp.AgIndicatorState.{name} | values', 'initial status is one of the supported values', 'initial status outside the supported values', p.loc(m))
    R.check(n >= 7, rule, 'bumble.hfp.AgIndicatorState | factories', f'{n} default factories', f'only {n} factories found')


def negotiated_state(ctx):
    R, p = ctx.r, ctx.p
    rule = 'C20.negotiated-state'
    slc = p.find(f'{HF}.initiate_slc')
    if slc is None:
        R.bad(rule, f'{HF}.initiate_slc', 'anchor missing')
        return
    # locals derived (transitively) from the gateway's responses
    seeds = {'response', 'responses'}
    derived = {}
    changed = True
    while changed:
        changed = False
        for n in ast.walk(slc):
            if isinstance(n, ast.Assign) and len(n.targets) == 1:
                tg, src = n.targets[0], n.value
            elif isinstance(n, ast.For):
                tg, src = n.target, n.iter
            else:
                continue
            srcs = {x.id for x in ast.walk(src) if isinstance(x, ast.Name)}
            if not (srcs & (seeds | set(derived))):
                continue
            for t in ast.walk(tg):
                if isinstance(t, ast.Name) and t.id not in seeds and n not in derived.get(t.id, []):
                    derived.setdefault(t.id, []).append(n)
                    changed = True
    derived.pop('index', None)  # enumerate() position, not response data
    cnt = 0
    for name, defs in sorted(derived.items()):
        uses = [x for x in ast.walk(slc) if isinstance(x, ast.Name) and x.id == name and isinstance(x.ctx, ast.Load)]
        real = []
        for u in uses:
            anc = u
            in_log = False
            self_def = False
            while getattr(anc, '_parent', None) is not None and anc is not slc:
                anc = anc._parent
                if isinstance(anc, ast.Call) and (dotted(anc.func) or '').startswith('logger.'):
                    in_log = True
                if anc in defs and isinstance(anc, ast.Assign) and all(x is anc for x in defs):
                    self_def = True
            if not in_log and not self_def:
                real.append(u)
        cnt += 1
        R.check(bool(real), rule, f'{HF}.initiate_slc | parsed `{name}`', 'flows into state or control', f'`{name}` is parsed from the gateway\'s response but only logged: the state recorded afterwards does not depend on what the gateway reported', p.loc(defs[0]))
    R.check(cnt >= 5, rule, f'{HF}.initiate_slc | parsed values', f'{cnt} parsed locals tracked', f'only {cnt} parsed locals found')
    # lists reported in parentheses may be empty ("()" parses to one empty item): items are tested before conversion
    n_lists = 0
    for node in ast.walk(slc):
        it = elt = None
        conv_guarded = True
        if isinstance(node, ast.ListComp) and norm(node.generators[0].iter) == 'response.parameters[0]':
            it = node.generators[0]
            var = dotted(it.target)
            converts = any(isinstance(c, ast.Call) and any(isinstance(x, ast.Name) and x.id == var for x in ast.walk(c)) for c in ast.walk(node.elt))
            conv_guarded = (not converts) or any(norm(t) in (var, f'{var} != b\'\'', f'len({var}) > 0') for t in it.ifs)
            n_lists += 1
        elif isinstance(node, ast.For) and norm(node.iter) == 'response.parameters[0]':
            var = dotted(node.target)
            first = next((s_ for s_ in node.body if not inert(s_)), None)
            conv_guarded = isinstance(first, ast.If) and norm(first.test) in (f'not {var}', f'{var} == b\'\'') and paths._always_leaves(first.body)
            n_lists += 1
        else:
            continue
        R.check(conv_guarded, rule, f'{HF}.initiate_slc | list `{norm(node.iter if isinstance(node, ast.For) else node.generators[0].iter)}` #{n_lists}', 'empty items are skipped before conversion',
                'items of a parenthesised list are converted without testing for the empty item an empty list "()" produces: the service-level connection fails when the peer\'s list is empty', p.loc(node))
    # positional/keyword construction of AgIndicatorState carries index and values
    c = next((c for c in calls_in(slc) if dotted(c.func) == 'AgIndicatorState'), None)
    if c is not None:
        kw = {k.arg: norm(k.value) for k in c.keywords}
        R.check(not c.args and kw.get('index') == 'index' and 'supported_values' in kw and 'supported_values' in kw.get('supported_values', ''), rule, f'{HF}.initiate_slc | AgIndicatorState fields', 'indicator, supported values and position recorded by name', 'the indicator record does not carry the announced values/position in the right fields', p.loc(c))
    # gateway reports what it records
    br = p.find(f'{AG}._on_bind_read')
    bd = p.find(f'{AG}._on_bind')
    if br is not None and bd is not None:
        s = norm(br)
        R.check('int(state.enabled)' in s or 'state.enabled' in s, rule, f'{AG}._on_bind_read | reports recorded state', '+BIND carries the recorded enabled flag', 'the gateway reports a constant instead of the recorded HF-indicator state', p.loc(br))
        c = next((c for c in calls_in(bd) if dotted(c.func) == 'HfIndicatorState'), None)
        kw = {k.arg: norm(k.value) for k in c.keywords} if c is not None else {}
        R.check(kw.get('supported') == 'True' and kw.get('enabled') == 'True', rule, f'{AG}._on_bind | negotiated indicators recorded', 'negotiated HF indicators recorded as supported and enabled (as reported to the hands-free side)', 'the gateway records negotiated HF indicators differently from what it reports', p.loc(bd))
    # codecs: gateway holds what the hands-free announced
    bac = p.find(f'{AG}._on_bac')
    if bac is not None:
        R.check('self.supported_audio_codecs = [AudioCodec(int(value)) for value in args]' in norm(bac), rule, f'{AG}._on_bac', 'codec list taken from the command', 'codec list not taken from AT+BAC', p.loc(bac))



def cind_ranges(ctx):
    """The value set an indicator announces in +CIND is the set the hands-free side reconstructs."""
    from .. import sym
    R, p = ctx.r, ctx.p
    rule = 'C20.cind-ranges'
    fn = p.find('bumble.hfp.AgIndicatorState.on_test_text')
    if fn is None:
        R.bad(rule, 'bumble.hfp.AgIndicatorState.on_test_text', 'anchor missing')
        return
    defs = {t.id: norm(n.value) for n in walk_local(fn) if isinstance(n, ast.Assign) for t in n.targets if isinstance(t, ast.Name)}
    rng = [n for n in walk_local(fn) if isinstance(n, ast.Assign) and isinstance(n.value, ast.JoinedStr) and '-' in ''.join(v.value for v in n.value.values if isinstance(v, ast.Constant))]
    ok = len(rng) == 1
    detail = ''
    if ok:
        g = [t for t, pol in paths.flat_guards(rng[0]) if pol]
        ok = len(g) == 1 and isinstance(g[0], ast.Compare) and isinstance(g[0].ops[0], ast.Eq)
        if ok:
            a, b = g[0].left, g[0].comparators[0]
            if 'len(' not in norm(a):
                a, b = b, a
            lo = next((k for k, v in defs.items() if v == 'min(self.supported_values)'), None)
            hi = next((k for k, v in defs.items() if v == 'max(self.supported_values)'), None)
            ok = norm(a) == 'len(self.supported_values)' and lo and hi and sym.lin_eq(sym.lin(b), {hi: 1, lo: -1, '': 1})
            detail = f'{norm(a)} == {norm(b)}'
            # the text is "lo-hi"
            parts = [norm(v.value) if isinstance(v, ast.FormattedValue) else v.value for v in rng[0].value.values]
            ok = ok and parts == ['(', lo, '-', hi, ')']
    R.check(ok, rule, 'bumble.hfp.AgIndicatorState.on_test_text | range form', 'the form (min-max) is used exactly when the set has max - min + 1 elements, i.e. is contiguous',
            f'a value set is announced as the range (min-max) under `{detail}`, which is not "contiguous": the hands-free side reconstructs values the gateway does not support', p.loc(fn))
    # the reader expands a-b inclusively
    slc = p.find(f'{HF}.initiate_slc')
    exp = [c for c in ast.walk(slc) if isinstance(c, ast.Call) and dotted(c.func) == 'range' and len(c.args) == 2] if slc is not None else []
    ok = len(exp) == 1 and norm(exp[0].args[0]) == 'value_min' and sym.lin_eq(sym.lin(exp[0].args[1]), {'value_max': 1, '': 1})
    R.check(ok, rule, f'{HF}.initiate_slc | range expansion', 'a-b is expanded to range(a, b + 1): both ends included', 'the hands-free side does not expand an announced range inclusively', p.loc(slc) if slc else '')


def iter_mutation_rule(ctx):
    from ..iter_mutation import iter_mutation
    iter_mutation(ctx, 'C20.iter-mutation', ['bumble.rfcomm', 'bumble.hfp'])


def identity_rule(ctx):
    from ..generic_rules import identity_compare
    identity_compare(ctx, 'C20.identity', ['bumble.rfcomm', 'bumble.hfp'])


def fifo_rule(ctx):
    from ..generic_rules import fifo_discipline
    fifo_discipline(ctx, 'C20.fifo', ['bumble.rfcomm', 'bumble.hfp'])


def enum_agreement_rule(ctx):
    from ..generic_rules import enum_member_agreement
    enum_member_agreement(ctx, 'C20.enum-agreement', ['bumble.hfp.AgProtocol', 'bumble.hfp.HfProtocol'])


def mux_teardown(ctx):
    """Whichever frame takes the multiplexer to DISCONNECTED (the UA answering our DISC, or the peer's own DISC crossing
    ours), a local disconnect() that is waiting is completed: every path that performs the transition while
    `disconnection_result` is set settles it."""
    R, p = ctx.r, ctx.p
    rule = 'C20.mux-teardown'
    ci = p.cls('bumble.rfcomm.Multiplexer')
    if ci is None:
        R.bad(rule, 'bumble.rfcomm.Multiplexer', 'anchor missing')
        return
    n = 0
    for name, m in sorted(ci.methods.items()):
        if not any(isinstance(c, ast.Call) and dotted(c.func) == 'self.change_state' and c.args and text(c.args[0]).endswith('State.DISCONNECTED') for c in ast.walk(m)):
            continue
        n += 1

        class D(paths.Domain):
            def event(self, node, v):
                if isinstance(node, ast.Call):
                    d = dotted(node.func) or ''
                    if d == 'self.change_state' and node.args and text(node.args[0]).endswith('State.DISCONNECTED'):
                        return ((True, v[1]),)
                    if d in ('self.disconnection_result.set_result', 'self.disconnection_result.set_exception', 'self.disconnection_result.cancel'):
                        return ((v[0], True),)
                return (v,)

            def assume(self, atom, truth, v):
                t = norm(atom)
                if t in ('self.disconnection_result', 'self.disconnection_result is not None'):
                    return (v,) if truth else ()      # a disconnect() caller is waiting
                if t == 'self.disconnection_result is None':
                    return () if truth else (v,)
                if t == 'self.disconnection_result.done()' and truth:
                    return ((v[0], True),)
                return (v,)
        res = paths.run(m, D(), (False, False))
        bad = [' '.join(w) for k, st in res.items() if not k.startswith('raise') for v, w in st.items() if v[0] and not v[1]]
        R.check(not bad, rule, f'bumble.rfcomm.Multiplexer.{name} | -> DISCONNECTED', 'a waiting disconnect() is completed on every path that reaches DISCONNECTED',
                f'{name} takes the multiplexer to DISCONNECTED without completing a pending disconnect(): when both ends disconnect at the same time each gets the other\'s DISC first, the later UA is ignored, and both disconnect() calls wait for ever', p.loc(m), bad[:2])
    R.check(n >= 2, rule, 'bumble.rfcomm.Multiplexer | closing transitions', f'{n} methods reach DISCONNECTED', f'only {n} found')


def listener_cleanup(ctx):
    """A coroutine that registers `future.set_result` / `set_exception` as an event listener and then awaits the future
    removes the listener in a `finally` (or registers through an EventWatcher it closes): when the caller gives up, the
    listener would otherwise stay and raise InvalidStateError on the cancelled future at the next emit -- in the AG, after
    the handler has already sent OK, so the command gets a second final result code."""
    R, p = ctx.r, ctx.p
    rule = 'C20.listener-cleanup'
    n = 0
    for mn in ('bumble.hfp', 'bumble.rfcomm'):
        m = p.modules.get(mn)
        if m is None:
            R.bad(rule, mn, 'anchor missing')
            continue
        for fn in [x for x in ast.walk(m.tree) if isinstance(x, ast.AsyncFunctionDef)]:
            for c in [x for x in walk_local(fn) if isinstance(x, ast.Call) and call_attr(x) in ('on', 'once') and len(x.args) == 2 and isinstance(x.args[1], ast.Attribute) and x.args[1].attr in ('set_result', 'set_exception')]:
                n += 1
                fut = dotted(c.args[1].value)
                removed = [r for t in walk_local(fn) if isinstance(t, ast.Try) for s_ in t.finalbody for r in calls_in(s_) if call_attr(r) == 'remove_listener' and len(r.args) == 2 and norm(r.args[1]) == norm(c.args[1]) and norm(r.args[0]) == norm(c.args[0])]
                R.check(bool(removed), rule, f'{p.qual_of(fn)} | {norm(c)[:60]}', 'removed again in a finally', f'`{norm(c)[:70]}` is never removed when the await on `{fut}` is abandoned: the stale listener raises on the cancelled future at the next emit, and the AT reader turns that into an ERROR after the OK already sent', f'{m.rel}:{c.lineno}')
    R.check(n >= 1, rule, 'bumble.hfp, bumble.rfcomm | future listeners', f'{n} registrations of a future\'s setter as listener', 'no registration found (anchor moved)')


def empty_parameters(ctx):
    """`AT+BAC=` / `AT+BIND=` with nothing after the '=' (a hands-free with an empty codec or indicator list) carries no
    parameter: AtCommand.parse_from calls the parameter parser only when there is parameter text (the parser turns b'' into
    one empty parameter, which the handlers cannot convert)."""
    R, p = ctx.r, ctx.p
    rule = 'C20.empty-parameters'
    fn = p.find('bumble.hfp.AtCommand.parse_from')
    if fn is None:
        R.bad(rule, 'bumble.hfp.AtCommand.parse_from', 'anchor missing')
        return
    calls = [c for c in calls_in(fn) if dotted(c.func) == 'at.parse_parameters']
    R.check(len(calls) == 1, rule, 'bumble.hfp.AtCommand.parse_from | parameter parser', 'one call', f'{len(calls)} calls', p.loc(fn))
    for c in calls:
        arg = c.args[0]
        base = arg.func.value if isinstance(arg, ast.Call) and isinstance(arg.func, ast.Attribute) and arg.func.attr == 'encode' else arg
        nm = base.id if isinstance(base, ast.Name) else None
        g = paths.flat_guards(c, stop=fn)
        ok = nm is not None and any(pol and (norm(t) == nm or (isinstance(t, ast.NamedExpr) and t.target.id == nm)) for t, pol in g)
        R.check(ok, rule, 'bumble.hfp.AtCommand.parse_from | only with parameter text', f'parse_parameters runs only when `{nm}` is non-empty', 'the parameter parser can run on an empty parameter text (it returns one empty parameter): AT+BAC= / AT+BIND= from a hands-free with an empty list are answered ERROR and the service-level connection is never completed', p.loc(c))


def brsf_reply(ctx):
    """What the gateway announces in +BRSF is what it holds: the reply is formatted from self.supported_ag_features itself,
    not from an adjusted copy (the hands-free side stores the announced value, the gateway keeps its own)."""
    R, p = ctx.r, ctx.p
    rule = 'C20.brsf-reply'
    fn = p.find(f'{AG}._on_brsf')
    if fn is None:
        R.bad(rule, f'{AG}._on_brsf', 'anchor missing')
        return
    sends = [c for c in calls_in(fn) if dotted(c.func) == 'self.send_response' and c.args and isinstance(c.args[0], ast.JoinedStr) and any(isinstance(v, ast.Constant) and '+BRSF' in str(v.value) for v in c.args[0].values)]
    R.check(len(sends) == 1, rule, f'{AG}._on_brsf | +BRSF reply', 'one reply', f'{len(sends)} replies', p.loc(fn))
    for c in sends:
        vals = [norm(v.value) for v in c.args[0].values if isinstance(v, ast.FormattedValue)]
        R.check(vals == ['self.supported_ag_features'], rule, f'{AG}._on_brsf | announced value', 'self.supported_ag_features', f'the reply announces `{vals}` while the gateway keeps self.supported_ag_features: after the service level connection the two sides hold different gateway feature sets', p.loc(c))


def queued_frames_hold_credits(ctx):
    """Frames a DLC keeps for a sink that is not attached yet sit in a bounded deque: they keep occupying the receive window
    (rx_credits_needed counts them), the window is no larger than the deque, and attaching the sink - which empties the
    deque - triggers process_tx() so that the peer gets its credits back."""
    R, p = ctx.r, ctx.p
    rule = 'C20.queued-frames-hold-credits'
    need = p.find('bumble.rfcomm.DLC.rx_credits_needed')
    ci = p.cls('bumble.rfcomm.DLC')
    if need is None or ci is None:
        R.bad(rule, 'bumble.rfcomm.DLC.rx_credits_needed', 'anchor missing')
        return
    counts = [c for c in calls_in(need) if dotted(c.func) == 'len' and c.args and dotted(c.args[0]) == 'self._enqueued_rx_packets']
    rets = [r for r in walk_local(need) if isinstance(r, ast.Return) and r.value is not None and not is_const(r.value)]
    R.check(bool(counts) and bool(rets), rule, 'bumble.rfcomm.DLC.rx_credits_needed', 'queued frames count as occupied window', 'rx_credits_needed() ignores the frames queued for a missing sink: the peer keeps getting credits, more than the deque holds arrive and the oldest are dropped - the receiver gets the tail of the stream only', p.loc(need))
    try:
        q, mx = p.module_const('bumble.rfcomm', 'DEFAULT_RX_QUEUE_SIZE'), p.module_const('bumble.rfcomm', 'RFCOMM_DEFAULT_MAX_CREDITS')
    except Exception:
        q = mx = None
    R.check(isinstance(q, int) and isinstance(mx, int) and q >= mx, rule, 'bumble.rfcomm | queue size against window', f'queue {q} >= window {mx}', f'the receive queue ({q}) is smaller than the receive window ({mx})', '')
    setter = next((s_ for s_ in ci.node.body if isinstance(s_, FUNC) and s_.name == 'sink' and any(text(d).endswith('.setter') for d in s_.decorator_list)), None)
    ok = setter is not None and any(dotted(c.func) == 'self.process_tx' for c in calls_in(setter)) and any(call_attr(c) == 'clear' and dotted(c.func.value) == 'self._enqueued_rx_packets' for c in calls_in(setter))
    R.check(ok, rule, 'bumble.rfcomm.DLC.sink (setter)', 'hands the queued frames over, empties the queue and lets process_tx() return the credits', 'attaching the sink does not trigger process_tx(): the credits held by the frames that were queued are never returned and the sender stalls', p.loc(setter) if setter is not None else p.loc(ci.node))


def open_guard_first(ctx):
    """Multiplexer.open_dlc refuses a second open before it touches the state of the one in flight: the state test (and
    its raise) precedes every assignment to `self.open_*`, or the parameters remembered for the pending open are
    overwritten by a call that is then rejected."""
    R, p = ctx.r, ctx.p
    rule = 'C20.open-guard-first'
    fn = p.find('bumble.rfcomm.Multiplexer.open_dlc')
    if fn is None:
        R.bad(rule, 'bumble.rfcomm.Multiplexer.open_dlc', 'anchor missing')
        return
    early = []

    class D(paths.Domain):
        def assume(self, atom, truth, v):
            if 'self.state' in norm(atom):
                return (True,)
            return (v,)

        def event(self, node, v):
            if isinstance(node, ast.Assign) and any((dotted(t) or '').startswith('self.open_') for t in node.targets) and not v:
                early.append(node)
            return (v,)
    paths.run(fn, D(), False)
    guard = [i_ for i_ in walk_local(fn) if isinstance(i_, ast.If) and 'self.state' in norm(i_.test) and any(isinstance(x, ast.Raise) for x in ast.walk(i_))]
    R.check(bool(guard) and not early, rule, 'bumble.rfcomm.Multiplexer.open_dlc', 'state tested before self.open_* is written', f'`{norm(early[0])[:50] if early else ""}` is executed before the state test: an open_dlc() call that is rejected ("open already in progress") has already replaced the PN parameters of the open in flight - that link is then set up with the other call\'s frame size and credits on one side only', p.loc(early[0]) if early else p.loc(fn))


def pending_under_lock(ctx):
    """HfProtocol.execute_command makes itself the pending command only once it holds command_lock: a command that is merely
    queued must not replace the one whose responses are being collected."""
    R, p = ctx.r, ctx.p
    rule = 'C20.pending-under-lock'
    fn = p.find(f'{HF}.execute_command')
    if fn is None:
        R.bad(rule, f'{HF}.execute_command', 'anchor missing')
        return
    sets = [s_ for s_ in walk_local(fn) if isinstance(s_, ast.Assign) and dotted(s_.targets[0]) == 'self.pending_command' and not (is_const(s_.value) and const(s_.value) is None)]
    R.check(len(sets) >= 1, rule, f'{HF}.execute_command | pending_command', f'{len(sets)} assignment(s)', 'pending_command is never set (anchor)', p.loc(fn))
    for s_ in sets:
        a = getattr(s_, '_parent', None)
        inside = False
        while a is not None and a is not fn:
            if isinstance(a, (ast.AsyncWith, ast.With)) and any('command_lock' in norm(i.context_expr) for i in a.items):
                inside = True
            a = getattr(a, '_parent', None)
        R.check(inside, rule, f'{HF}.execute_command | {norm(s_)[:40]}', 'inside `async with self.command_lock`', 'pending_command is set before the lock is held: a command queued behind the running one replaces it, the running command\'s responses are filed as unsolicited and it fails with NO ANSWER - the service level connection does not complete when the application issues a command meanwhile', p.loc(s_))


def empty_write(ctx):
    """DLC.write clears `drained` only when it has queued something: process_tx() sets the event again when the transmit
    buffer has been emptied by a send - with nothing queued nothing is sent, and a drain() after an empty write would wait
    for ever."""
    R, p = ctx.r, ctx.p
    rule = 'C20.empty-write'
    fn = p.find('bumble.rfcomm.DLC.write')
    if fn is None:
        R.bad(rule, 'bumble.rfcomm.DLC.write', 'anchor missing')
        return
    clears = [c for c in calls_in(fn) if dotted(c.func) == 'self.drained.clear']
    R.check(len(clears) == 1, rule, 'bumble.rfcomm.DLC.write | drained.clear()', 'one site', f'{len(clears)} sites', p.loc(fn))
    for c in clears:
        g = [(norm(t), pol) for t, pol in paths.flat_guards(c, stop=fn)]
        ok = ('data', True) in g or ('not data', False) in g or ('len(data) > 0', True) in g or ('len(data) == 0', False) in g
        R.check(ok, rule, 'bumble.rfcomm.DLC.write | only with data', 'reached only when there is data to send', f'`drained` is cleared whatever is written (guards {g}): after write(b"") nothing is sent and nothing sets the event again - drain() never returns', p.loc(c))


RULES = [
    ('C20.empty-write', empty_write),
    ('C20.pending-under-lock', pending_under_lock),
    ('C20.open-guard-first', open_guard_first),
    ('C20.queued-frames-hold-credits', queued_frames_hold_credits),
    ('C20.brsf-reply', brsf_reply),
    ('C20.empty-parameters', empty_parameters),
    ('C20.listener-cleanup', listener_cleanup),
    ('C20.mux-teardown', mux_teardown),
    ('C20.enum-agreement', enum_agreement_rule),
    ('C20.fifo', fifo_rule),
    ('C20.identity', identity_rule),
    ('C20.iter-mutation', iter_mutation_rule),
    ('C20.frame-info', frame_info),
    ('C20.cind-ranges', cind_ranges),
    ('C20.credit-guard', credit_guard),
    ('C20.bounds', bounds),
    ('C20.pf-agreement', pf_agreement),
    ('C20.rx-ledger', rx_ledger),
    ('C20.progress', progress),
    ('C20.teardown', teardown),
    ('C20.negotiation', negotiation),
    ('C20.ag-once', ag_once),
    ('C20.hf-coverage', hf_coverage),
    ('C20.feature-typing', feature_typing),
    ('C20.guard-agreement', guard_agreement),
    ('C20.arg-selection', arg_selection),
    ('C20.indicator-table', indicator_table),
    ('C20.negotiated-state', negotiated_state),
]

VARIANTS = [
    ('data without credit in the piggy-back branch', 'bumble/rfcomm.py', "                if self.tx_buffer and self.tx_credits > 0:\n                    chunk += self.tx_buffer[: self.mtu - 1]", "                if self.tx_buffer:\n                    chunk += self.tx_buffer[: self.mtu - 1]", 'fire', 'C20.credit-guard'),
    ('loop runs on data alone', 'bumble/rfcomm.py', "        while (self.tx_buffer and self.tx_credits > 0) or rx_credits_needed > 0:", "        while self.tx_buffer or rx_credits_needed > 0:", 'fire', 'C20.credit-guard'),
    ('credit-only frame spends a credit', 'bumble/rfcomm.py', "                else:\n                    tx_credit_spent = False\n", "                else:\n                    tx_credit_spent = True\n", 'fire', 'C20.credit-guard'),
    ('credit byte not counted against mtu', 'bumble/rfcomm.py', "                    chunk += self.tx_buffer[: self.mtu - 1]", "                    chunk += self.tx_buffer[: self.mtu]", 'fire', 'C20.bounds'),
    ('consumes one byte too many', 'bumble/rfcomm.py', "                    self.tx_buffer = self.tx_buffer[len(chunk) - 1 :]", "                    self.tx_buffer = self.tx_buffer[len(chunk) :]", 'fire', 'C20.bounds'),
    ('mtu ignores frame overhead', 'bumble/rfcomm.py', "        max_overhead = 4 + 1  # header with 2-byte length + fcs", "        max_overhead = 3  # header + fcs", 'fire', 'C20.bounds'),
    ('p_f always set', 'bumble/rfcomm.py', "                    p_f=1 if rx_credits_needed > 0 else 0,", "                    p_f=1,", 'fire', 'C20.pf-agreement'),
    ('grant not recorded', 'bumble/rfcomm.py', "                self.rx_credits += rx_credits_needed\n", "", 'fire', 'C20.rx-ledger'),
    ('grant is the maximum', 'bumble/rfcomm.py', '            return self.rx_max_credits - occupied\n', '            return self.rx_max_credits\n', 'fire', 'C20.rx-ledger'),
    ('no pump after receive', 'bumble/rfcomm.py', "        # Check if there's anything to send (including credits)\n        self.process_tx()\n", "", 'fire', 'C20.progress'),
    ('responder only acknowledges DISC', 'bumble/rfcomm.py', "        self.multiplexer.on_dlc_disconnection(self)\n        self.emit(self.EVENT_CLOSE)\n\n    def on_uih_frame", "        self.emit(self.EVENT_CLOSE)\n\n    def on_uih_frame", 'fire', 'C20.teardown'),
    ('acceptor swaps tx and rx frame size', 'bumble/rfcomm.py', "                            tx_max_frame_size=pn.max_frame_size,\n                            tx_initial_credits=pn.initial_credits,\n                            rx_max_frame_size=dlc_params[0],", "                            tx_max_frame_size=dlc_params[0],\n                            tx_initial_credits=pn.initial_credits,\n                            rx_max_frame_size=pn.max_frame_size,", 'fire', 'C20.negotiation'),
    ('PN response advertises tx credits', 'bumble/rfcomm.py', "            initial_credits=self.rx_initial_credits,", "            initial_credits=self.tx_credits,", 'fire', 'C20.negotiation'),
    ('CMER error falls through to OK', 'bumble/hfp.py', "            self.send_cme_error(CmeError.INVALID_INDEX)\n            return\n\n        self.indicator_report_enabled", "            self.send_cme_error(CmeError.INVALID_INDEX)\n\n        self.indicator_report_enabled", 'fire', 'C20.ag-once'),
    ('handler exceptions not contained', 'bumble/hfp.py', "                except Exception:\n                    # The handlers validate", "                except (KeyError,):\n                    # The handlers validate", 'fire', 'C20.ag-once'),
    ('only value errors contained', 'bumble/hfp.py', "                except Exception:\n                    # The handlers validate", "                except (ValueError, KeyError):\n                    # The handlers validate", 'fire', 'C20.ag-once'),
    ('OK before conversion', 'bumble/hfp.py', "        state = VoiceRecognitionState(int(vrec))\n        self.send_ok()\n", "        self.send_ok()\n        state = VoiceRecognitionState(int(vrec))\n", 'fire', 'C20.ag-once'),
    ('HF sends CMER with five fields', 'bumble/hfp.py', 'await self.execute_command("AT+CMER=3,,,1")', 'await self.execute_command("AT+CMER=3,,,1,0")', 'fire', 'C20.hf-coverage'),
    ('HF emits a command without handler', 'bumble/hfp.py', 'await self.execute_command("AT+BCC")', 'await self.execute_command("AT+BCCX")', 'fire', 'C20.hf-coverage'),
    ('AG feature asked of the HF mask', 'bumble/hfp.py', "        ) and self.supports_ag_feature(AgFeature.CODEC_NEGOTIATION):", "        ) and self.supports_hf_feature(AgFeature.CODEC_NEGOTIATION):", 'fire', 'C20.feature-typing'),
    ('CHLD=? sent on the HF bit alone', 'bumble/hfp.py', "        if self.supports_hf_feature(\n            HfFeature.THREE_WAY_CALLING\n        ) and self.supports_ag_feature(AgFeature.THREE_WAY_CALLING):\n            # After the HF has enabled", "        if self.supports_hf_feature(\n            HfFeature.THREE_WAY_CALLING\n        ):\n            # After the HF has enabled", 'fire', 'C20.guard-agreement'),
    ('AG waits for HF indicators on its own bit alone', 'bumble/hfp.py', "        if self.supports_hf_feature(\n            HfFeature.HF_INDICATORS\n        ) and self.supports_ag_feature(AgFeature.HF_INDICATORS):\n            self._remained_slc_setup_features.add", "        if self.supports_ag_feature(AgFeature.HF_INDICATORS):\n            self._remained_slc_setup_features.add", 'fire', 'C20.guard-agreement'),
    ('positional indicator state again', 'bumble/hfp.py', "                AgIndicatorState(\n                    indicator=description,\n                    supported_values=set(supported_values),\n                    current_status=0,\n                    index=index,\n                )", "                AgIndicatorState(description, index, set(supported_values), 0)", 'fire', 'C20.arg-selection'),
    ('roam factory describes call', 'bumble/hfp.py', "            indicator=AgIndicator.ROAM, supported_values={0, 1}, current_status=0", "            indicator=AgIndicator.CALL, supported_values={0, 1}, current_status=0", 'fire', 'C20.indicator-table'),
    ('enabled flag ignored', 'bumble/hfp.py', "                    self.hf_indicators[indicator].enabled = enabled", "                    self.hf_indicators[indicator].enabled = True", 'fire', 'C20.negotiated-state'),
    ('benign: local rename in process_tx', 'bumble/rfcomm.py', "            # Update the tx credits\n", "            # Account for the tx credit\n", 'silent', ''),
    ('benign: equivalent threshold test', 'bumble/rfcomm.py', '        if occupied <= self.rx_credits_threshold:\n            return self.rx_max_credits - occupied\n\n        return 0', '        if occupied > self.rx_credits_threshold:\n            return 0\n\n        return self.rx_max_credits - occupied', 'silent', ''),
    ('contiguity test off by one', 'bumble/hfp.py', "        if len(self.supported_values) == (max_value - min_value + 1):", "        if len(self.supported_values) == (max_value - min_value):", 'fire', 'C20.cind-ranges'),
    ('benign: contiguity test rearranged', 'bumble/hfp.py', "        if len(self.supported_values) == (max_value - min_value + 1):", "        if 1 + max_value - min_value == len(self.supported_values):", 'silent', ''),
    ('HF expands ranges exclusively', 'bumble/hfp.py', "range(value_min, value_max + 1)", "range(value_min, value_max)", 'fire', 'C20.cind-ranges'),
]
