"""C02 — HCI byte streams are re-framed into the same packets under any chunking."""
from __future__ import annotations

import ast
import struct

from .. import paths
from ..core import FUNC, call_attr, calls_in, const, dotted, is_const, kwarg, norm, slice_parts, text, walk_local
from .c01 import _fmt_in

EXPLANATION = [
    'C02.usb-transfers-untimed: the inbound USB transfers set up in UsbPacketSource.start() have no timeout (the completion callback re-submits only completed transfers).',
    'C02.feed-once: outside PacketParser, a feed_data() call inside a loop is fed with data received in that iteration, never with a re-slice of a chunk already fed.',
    "C02.reset-first: in the server transports' new-client hooks only log calls and plain assignments precede parser.reset() (nothing that can raise: the event loop would log the failure and keep feeding a parser that was not reset).",
    'C02.external-reset: outside PacketParser itself, parser.reset() is called only where a server transport accepts a new client (connection_made / on_connection): no per-message reset.',
    'C02.delivery-order: no transport function that hands packets to a sink sorts, reverses or otherwise reorders them.',
    'C02.message-size: no websocket transport passes the websockets library a max_size below 65540 (type byte + 4-byte header + 0xFFFF data bytes): a maximum-length packet is never rejected by the carrier.',
    "C02.splitter-subclasses: the USB per-endpoint splitters (subclasses of PacketSplitter) define nothing but __init__: the framing is the base class's feed for every endpoint.",
    "C02.reader-cancel: the asynchronous reader's next_packet() (several reads per packet, no state kept across calls) is awaited directly at every call site, never under wait_for / a cancelling wrapper.",
    'C02.threadsafe: every scheduling call onto the event loop in the USB transports (whose callbacks run on the libusb / pyusb thread) is call_soon_threadsafe.',
    'C02.reset-callers: the framing state of PacketParser (the fields reset() assigns) is reset or written only by __init__ and feed_data: no other method (set_packet_sink, ...) throws away the position in the stream.',
    'C02.bounded-buffers: no transport hands packets over through a bounded deque / Queue (a full one drops or raises in a callback that only logs): every packet split out of the byte stream reaches the sink.',
    'C02.shared-state: no class of the anchored modules keeps per-instance state in an object shared by all instances (an empty mutable container or synchronisation object as class-level default that is read through self and not rebound in __init__, or as a dataclass field default); process-wide registries are listed by name.',
    'C02.feed-contained: the error the push parser reports for an unknown type byte cannot tear the transport down at any site that feeds it (same rule as C17.feed-contained), so subsequently fed well-formed data is framed.',
    'C02.info-table: HCI_PACKET_INFO[type] = (length size, length offset, format) equals position and width of the length field in '
    'the header layout hci.py itself uses for that packet type.',
    'C02.pull-framers: PacketReader and AsyncPacketReader read 1, info[0]+info[1] and body_length bytes, unpack the length with '
    'info[2] at offset info[1] of the header and return type+header+body; the blocking reader treats short reads as end/error.',
    'C02.push-parser: PacketParser.feed_data consumes min(needed, left) and advances all counters by it; TYPE->LENGTH sets '
    'needed = info[0]+info[1]; LENGTH->BODY unpacks with info[2] at 1+info[1]; the emission test is a separate `if` evaluated in the '
    'iteration that performed LENGTH->BODY (zero-length bodies); emission and the unknown-type path call reset() (the latter before '
    'raising); a sink exception cannot escape.',
    'C02.usb-splitters: each PacketSplitter subclass is constructed with (length offset, length size) of the type it is registered for.',
    'C02.server-reset: every server transport that shares one parser among successive clients resets it when a client connects.',
    'Not decided: equality of emitted packets with the input for all chunkings (runtime data).',
]
ASSUMPTIONS = []

TC = 'bumble.transport.common'


def _table(p):
    v = p.modules[TC].assigns.get('HCI_PACKET_INFO')
    out = {}
    if isinstance(v, ast.Dict):
        for k, e in zip(v.keys, v.values):
            if is_const(e):
                out[text(k).split('.')[-1]] = const(e)
    return out


def info_table(ctx):
    R, p = ctx.r, ctx.p
    rule = 'C02.info-table'
    if TC not in p.modules:
        R.bad(rule, TC, 'anchor missing')
        return
    tab = _table(p)
    want_types = {'HCI_COMMAND_PACKET': 'HCI_Command', 'HCI_ACL_DATA_PACKET': 'HCI_AclDataPacket', 'HCI_SYNCHRONOUS_DATA_PACKET': 'HCI_SynchronousDataPacket', 'HCI_EVENT_PACKET': 'HCI_Event', 'HCI_ISO_DATA_PACKET': 'HCI_IsoDataPacket'}
    for t, cls in want_types.items():
        key = f'{TC}.HCI_PACKET_INFO[{t}]'
        if t not in tab:
            R.bad(rule, key, f'no framing entry for {t}: the push parser raises on every such packet')
            continue
        size, off, fmt = tab[t]
        fb = p.find(f'bumble.hci.{cls}.from_bytes')
        if fb is None:
            R.bad(rule, key, f'anchor missing: bumble.hci.{cls}.from_bytes')
            continue
        f, c = _fmt_in(fb)
        if cls == 'HCI_Event':
            src = norm(fb)
            exp = (1, 1, 'B') if 'parameters_length = packet[2]' in src and 'packet[3:3 + parameters_length]' in src else None
        else:
            body = f.lstrip('<>') if f else ''
            exp = None
            at = c.args[2] if len(c.args) > 2 else None
            if isinstance(at, ast.Name):
                first = next((n.value for n in walk_local(fb) if isinstance(n, ast.Assign) and dotted(n.targets[0]) == at.id), None)
                at = first
            if body and at is not None and is_const(at) and const(at) == 1:
                last = body[-1]
                exp = (struct.calcsize('<' + last), struct.calcsize('<' + body[:-1]), last)
        R.check(exp is not None and (size, off, fmt.lstrip('<>')) == exp and struct.calcsize('<' + fmt.lstrip('<>')) == size, rule, key,
                f'({size}, {off}, {fmt!r}) = length field of {cls}\'s header ({f or "bytes 1,2"})', f'table says length is {size} byte(s) at offset {off} ({fmt!r}); {cls}.from_bytes reads it as {exp}', p.loc(fb))
    R.floor(rule, 5, 'table entries')


def _norm_reads(fn):
    out = []
    for s in fn.body:
        t = norm(s).replace('await self.source.readexactly', 'READ').replace('self.source.read', 'READ')
        out.append(t)
    return out


def pull_framers(ctx):
    R, p = ctx.r, ctx.p
    rule = 'C02.pull-framers'
    for q, sync in ((f'{TC}.PacketReader.next_packet', True), (f'{TC}.AsyncPacketReader.next_packet', False)):
        fn = p.find(q)
        if fn is None:
            R.bad(rule, q, f'anchor missing: {q}')
            continue
        st = _norm_reads(fn)
        need = [
            'packet_type = READ(1)',
            'packet_info = HCI_PACKET_INFO.get(packet_type[0])',
            'header_size = packet_info[0] + packet_info[1]',
            'header = READ(header_size)',
            'body_length = struct.unpack_from(packet_info[2], header, packet_info[1])[0]',
            'body = READ(body_length)',
            'return packet_type + header + body',
        ]
        idx = []
        for n in need:
            idx.append(st.index(n) if n in st else -1)
        ok = all(i >= 0 for i in idx) and idx == sorted(idx)
        missing = [n for n, i in zip(need, idx) if i < 0]
        R.check(ok, rule, q + ' | read sequence', 'reads 1, info[0]+info[1], body_length; length unpacked with info[2] at info[1]; returns type+header+body', f'framing steps changed or reordered (missing: {missing})', p.loc(fn))
        unk = [s for s in fn.body if isinstance(s, ast.If) and norm(s.test) == 'packet_info is None' and any(isinstance(x, ast.Raise) for x in s.body)]
        R.check(len(unk) == 1, rule, q + ' | unknown type', 'unknown packet type raises', 'unknown packet types are not rejected', p.loc(fn))
        if sync:
            shorts = [norm(s.test) for s in fn.body if isinstance(s, ast.If) and 'len(' in norm(s.test)]
            R.check(shorts == ['len(packet_type) != 1', 'len(header) != header_size', 'len(body) != body_length'], rule, q + ' | short reads', 'every read is checked for its full length', f'short-read checks: {shorts}', p.loc(fn))


def push_parser(ctx, rule='C02.push-parser'):
    R, p = ctx.r, ctx.p
    fd = p.find(f'{TC}.PacketParser.feed_data')
    rs = p.find(f'{TC}.PacketParser.reset')
    if fd is None or rs is None:
        R.bad(rule, f'{TC}.PacketParser.feed_data', 'anchor missing')
        return
    key = f'{TC}.PacketParser.feed_data'
    loop = next((s for s in fd.body if isinstance(s, ast.While)), None)
    if loop is None:
        R.bad(rule, key, 'consume loop not found', p.loc(fd))
        return
    R.check(norm(loop.test) == 'data_left and self.bytes_needed', rule, key + ' | loop condition', 'runs while data is left and bytes are needed', f'loop condition is `{norm(loop.test)}`', p.loc(loop))
    b = [norm(s) for s in loop.body]
    cons = ['consumed = min(self.bytes_needed, data_left)', 'self.packet.extend(data[data_offset:data_offset + consumed])', 'data_offset += consumed', 'data_left -= consumed', 'self.bytes_needed -= consumed']
    R.check(set(cons) <= set(b) and b.index(cons[0]) == 0 and b.index(cons[1]) < b.index(cons[2]), rule, key + ' | consume step', 'takes min(needed, left) bytes and advances offset, left and needed by exactly that', f'consume step changed: {[x for x in cons if x not in b]}', p.loc(loop))
    done = next((s for s in loop.body if isinstance(s, ast.If) and norm(s.test) == 'self.bytes_needed == 0'), None)
    if done is None:
        R.bad(rule, key + ' | state step', '`if self.bytes_needed == 0:` block not found', p.loc(loop))
        return
    chain = done.body[0] if done.body and isinstance(done.body[0], ast.If) else None
    ok = chain is not None and norm(chain.test) == 'self.state == PacketParser.NEED_TYPE' and len(chain.orelse) == 1 and isinstance(chain.orelse[0], ast.If) and norm(chain.orelse[0].test) == 'self.state == PacketParser.NEED_LENGTH' and not chain.orelse[0].orelse
    R.check(ok, rule, key + ' | TYPE / LENGTH are exclusive', 'NEED_LENGTH handled in the `elif` of NEED_TYPE (not in the iteration that only has the type byte)', 'the TYPE and LENGTH steps are not an if/elif pair', p.loc(done))
    if not ok:
        return
    tb, lb = chain.body, chain.orelse[0].body
    tn = [norm(s) for s in tb]
    R.check('self.state = PacketParser.NEED_LENGTH' in tn and 'self.bytes_needed = self.packet_info[0] + self.packet_info[1]' in tn and any('self.packet[0]' in x for x in tn), rule, key + ' | TYPE -> LENGTH',
            'info looked up by packet[0]; needs info[0]+info[1] header bytes', 'TYPE->LENGTH transition changed', p.loc(chain))
    unk = next((s for s in tb if isinstance(s, ast.If) and norm(s.test) == 'self.packet_info is None'), None)
    ok = unk is not None and len(unk.body) >= 2 and norm(unk.body[0]) == 'self.reset()' and isinstance(unk.body[-1], ast.Raise)
    R.check(ok, rule, key + ' | unknown type', 'parser is reset before the error is raised: later data is framed from scratch', 'an unknown type byte raises without resetting the parser first (the parser stays wedged on the bad byte)', p.loc(unk) if unk else p.loc(chain))
    ln = [norm(s) for s in lb]
    R.check('body_length = struct.unpack_from(self.packet_info[2], self.packet, 1 + self.packet_info[1])[0]' in ln and 'self.bytes_needed = body_length' in ln and 'self.state = PacketParser.NEED_BODY' in ln, rule, key + ' | LENGTH -> BODY',
            'length unpacked with info[2] at 1+info[1] of the accumulated packet', 'LENGTH->BODY transition changed', p.loc(chain.orelse[0]))
    # the body length is the unpacked field, unmodified, on every path of the LENGTH step
    from .. import sym
    res = paths.run_block(lb, sym.Sym(), sym.Sym.init())
    vals = {st.get('self.bytes_needed') for k_, f_, st, e_, w_ in sym.exits(res)}
    want = 'struct.unpack_from(self.packet_info[2], self.packet, 1 + self.packet_info[1])[0]'
    R.check(vals == {want}, rule, key + ' | body length is the length field', 'bytes_needed = the value unpacked with the table\'s format, on every path, exactly as the pull framers use it',
            f'the push parser alters the unpacked length before using it ({sorted(str(v) for v in vals)}): it frames some well-formed packets differently from the other framers', p.loc(chain.orelse[0]))
    emit = [s for s in done.body[1:] if isinstance(s, ast.If) and 'PacketParser.NEED_BODY' in norm(s.test)]
    ok = len(emit) == 1 and norm(emit[0].test) == 'self.state == PacketParser.NEED_BODY and (not self.bytes_needed)'
    R.check(ok, rule, key + ' | emission test', 'a separate `if` after the transitions: a zero-length body is emitted in the same iteration', 'the emission test is not evaluated after the LENGTH->BODY transition of the same iteration (zero-length packets are emitted late or merged)', p.loc(done))
    if ok:
        e = emit[0]
        R.check(norm(e.body[-1]) == 'self.reset()', rule, key + ' | reset after emission', 'reset() ends the emission block', 'the parser is not reset after a packet is emitted', p.loc(e))
        sinks = [c for c in calls_in(e) if dotted(c.func) == 'self.sink.on_packet']
        ok2 = len(sinks) == 1 and norm(sinks[0].args[0]) == 'bytes(self.packet)' and any(isinstance(a, ast.Try) and any(h.type is not None and norm(h.type) == 'Exception' for h in a.handlers) for a in _anc(sinks[0]))
        R.check(ok2, rule, key + ' | sink call contained', 'the whole accumulated packet goes to the sink once, inside try/except Exception', 'sink delivery is not contained or does not pass the whole packet', p.loc(e))
    rn = {norm(s) for s in rs.body}
    R.check({'self.state = PacketParser.NEED_TYPE', 'self.bytes_needed = 1', 'self.packet = bytearray()', 'self.packet_info = None'} <= rn, rule, f'{TC}.PacketParser.reset', 'back to NEED_TYPE, 1 byte needed, empty packet', 'reset() no longer restores the initial state', p.loc(rs))
    sp = p.find(f'{TC}.StreamPacketSource.data_received')
    if sp is not None:
        ok = any(isinstance(t, ast.Try) and any('InvalidPacketError' in norm(h.type) for h in t.handlers if h.type is not None) for t in walk_local(sp))
        R.check(ok and 'self.parser.feed_data(data)' in norm(sp), rule, f'{TC}.StreamPacketSource.data_received', 'feeds the parser and contains its framing error', 'stream source does not contain the framing error', p.loc(sp))


def _anc(n):
    q = getattr(n, '_parent', None)
    while q is not None:
        yield q
        q = getattr(q, '_parent', None)


def parser_reset_callers(ctx):
    """The push parser's position in the stream (state, bytes_needed, partial packet) is reset only where a packet ends or the
    stream is declared broken: __init__ and feed_data.  Attaching or replacing the sink is not such a point."""
    R, p = ctx.r, ctx.p
    rule = 'C02.reset-callers'
    ci = p.cls('bumble.transport.common.PacketParser')
    if ci is None:
        R.bad(rule, 'bumble.transport.common.PacketParser', 'anchor missing')
        return
    state = {dotted(t)[5:] for n in walk_local(ci.methods['reset']) if isinstance(n, ast.Assign) for t in n.targets if (dotted(t) or '').startswith('self.')} if 'reset' in ci.methods else set()
    callers = sorted(mn for mn, m in ci.methods.items() if mn != 'reset' and any(dotted(c.func) == 'self.reset' for c in calls_in(m)))
    writers = sorted(mn for mn, m in ci.methods.items() if mn not in ('reset', 'feed_data', '__init__') and any(isinstance(n, (ast.Assign, ast.AugAssign)) and any((dotted(t) or '')[5:] in state for t in (n.targets if isinstance(n, ast.Assign) else [n.target])) for n in walk_local(m)))
    R.check(bool(state) and set(callers) <= {'__init__', 'feed_data'} and not writers, rule, 'bumble.transport.common.PacketParser | framing state',
            f'{sorted(state)} reset only from {callers}', f'the framing state is reset / written from {sorted(set(callers) - {"__init__", "feed_data"}) + writers}: a consumer attached between two chunks of a packet makes the rest of that packet be framed as a new one', p.loc(ci.node))


def usb_splitters(ctx):
    R, p = ctx.r, ctx.p
    rule = 'C02.usb-splitters'
    tab = _table(p)
    reg = {'EventPacketSplitter': 'HCI_EVENT_PACKET', 'AclPacketSplitter': 'HCI_ACL_DATA_PACKET', 'ScoPacketSplitter': 'HCI_SYNCHRONOUS_DATA_PACKET'}
    src = p.find('bumble.transport.usb.UsbPacketSource.__init__')
    for cls, t in reg.items():
        ci = p.cls(f'bumble.transport.usb.{cls}')
        if ci is None or '__init__' not in ci.methods:
            R.bad(rule, f'bumble.transport.usb.{cls}', 'anchor missing')
            continue
        sup = [c for c in calls_in(ci.methods['__init__']) if call_attr(c) == '__init__']
        lo = const(kwarg(sup[0], 'length_offset')) if sup and kwarg(sup[0], 'length_offset') is not None else None
        ls = const(kwarg(sup[0], 'length_size')) if sup and kwarg(sup[0], 'length_size') is not None else None
        size, off, _ = tab.get(t, (None, None, None))
        R.check((lo, ls) == (off, size), rule, f'bumble.transport.usb.{cls}', f'(offset {lo}, size {ls}) = HCI_PACKET_INFO[{t}]', f'{cls} frames with length at {lo} size {ls}; the common table says offset {off} size {size} for {t}', p.loc(ci.node))
        if src is not None:
            R.check(f'hci.{t}: {cls}(' in norm(src).replace('\n', ''), rule, f'bumble.transport.usb.UsbPacketSource | {t}', f'{cls} registered for {t}', f'{cls} is not registered for {t}', p.loc(src))
    # what is fed to a splitter is what was received in this completion: the transfer buffer is a fixed-size buffer that is
    # reused, so every use of transfer.getBuffer() is cut at transfer.getActualLength()
    um = p.modules.get('bumble.transport.usb')
    nb = 0
    for c in (ast.walk(um.tree) if um else []):
        if isinstance(c, ast.Call) and call_attr(c) == 'getBuffer':
            nb += 1
            par = getattr(c, '_parent', None)
            obj = dotted(c.func.value)
            ok = isinstance(par, ast.Subscript) and par.value is c and isinstance(par.slice, ast.Slice) and par.slice.lower is None and par.slice.step is None \
                and isinstance(par.slice.upper, ast.Call) and call_attr(par.slice.upper) == 'getActualLength' and dotted(par.slice.upper.func.value) == obj
            R.check(ok, rule, f'{p.qual_of(c)} | {obj}.getBuffer()', 'cut at getActualLength() of the same transfer',
                    f'the whole transfer buffer of `{obj}` is used, not just the getActualLength() bytes received in this completion: stale and padding bytes are framed as packets', um.rel + f':{c.lineno}')
    R.check(nb >= 1, rule, 'bumble.transport.usb | transfer buffers', f'{nb} use(s) of a transfer buffer', 'no use of transfer.getBuffer() found')
    feed = p.find('bumble.transport.usb.PacketSplitter.feed')
    init = p.find('bumble.transport.usb.PacketSplitter.__init__')
    if feed is None or init is None:
        R.bad(rule, 'bumble.transport.usb.PacketSplitter.feed', 'anchor missing')
        return
    s = norm(feed)
    R.check('self.header_size = length_offset + length_size' in norm(init), rule, 'bumble.transport.usb.PacketSplitter.__init__', 'header size = offset + size of the length field', 'header size computed differently', p.loc(init))
    ok = "packet_length = self.header_size + int.from_bytes(self.packet[self.length_offset:self.length_offset + self.length_size], 'little')" in s and 'if len(self.packet) == packet_length:' in s and 'self.emit(self.packet)' in s and "self.packet = b''" in s
    R.check(ok, rule, 'bumble.transport.usb.PacketSplitter.feed | boundary', 'packet length = header + little-endian length field; emitted when complete and buffer cleared', 'splitter boundary arithmetic changed', p.loc(feed))
    ok = 'self.packet += data[:bytes_needed]' in s and 'data = data[bytes_needed:]' in s and s.count('data = data[bytes_needed:]') == 2
    R.check(ok, rule, 'bumble.transport.usb.PacketSplitter.feed | consume', 'what is appended to the packet is removed from the input (twice: header, body)', 'input consumption no longer mirrors what is appended', p.loc(feed))


def server_reset(ctx):
    R, p = ctx.r, ctx.p
    rule = 'C02.server-reset'
    n = 0
    for mod in sorted(m for m in p.modules if m.startswith('bumble.transport.')):
        m = p.modules[mod]
        for fn in [x for x in ast.walk(m.tree) if isinstance(x, FUNC)]:
            # a function that creates ONE parser-owning source and hands it to a per-connection factory/handler
            owners = [n_ for n_ in walk_local(fn) if isinstance(n_, ast.Assign) and isinstance(n_.value, ast.Call) and call_attr(n_.value) in ('StreamPacketSource', 'ParserSource')]
            if not owners:
                continue
            is_server = any(isinstance(c, ast.Call) and call_attr(c) in ('create_server', 'create_unix_server', 'serve') for c in ast.walk(fn))
            encl = fn
            cls = next((a for a in _anc(fn) if isinstance(a, ast.ClassDef)), None)
            scope = cls if cls is not None else encl
            if not is_server and cls is not None:
                is_server = any(isinstance(c, ast.Call) and call_attr(c) in ('create_server', 'create_unix_server', 'serve') for c in ast.walk(cls))
            if not is_server:
                continue
            n += 1
            # per-connection entry points in scope
            entries = [x for x in ast.walk(scope if cls is not None else fn) if isinstance(x, FUNC) and x.name in ('connection_made', 'on_connection')]
            resets = [c for e in entries for c in ast.walk(e) if isinstance(c, ast.Call) and (dotted(c.func) or '').endswith('.parser.reset')]
            key = f'{mod}.{fn.name if cls is None else cls.name} | shared parser reset on connect'
            R.check(bool(entries) and bool(resets), rule, key, f'per-connection entry {[e.name for e in entries]} resets the shared parser',
                    'one parser is shared by all successive clients and is never reset when a client connects: a client cut mid-packet poisons the next client\'s first packets', m.rel + f':{fn.lineno}')
    R.floor(rule, 3, 'server transports')


def feed_contained(ctx):
    from . import c17
    c17.feed_contained(ctx, rule='C02.feed-contained')


def shared_state_rule(ctx):
    from ..shared_state import shared_state
    shared_state(ctx, 'C02.shared-state', ['bumble.transport'])


def bounded_buffers_rule(ctx):
    from .. import generic_rules as g
    g.bounded_buffers(ctx, 'C02.bounded-buffers', ['bumble.transport.common', 'bumble.transport.usb', 'bumble.transport.pyusb', 'bumble.transport.tcp_server', 'bumble.transport.tcp_client', 'bumble.transport.ws_server', 'bumble.transport.ws_client', 'bumble.transport.udp', 'bumble.transport.unix', 'bumble.transport.serial', 'bumble.transport.hci_socket', 'bumble.transport.vhci'])


def threadsafe(ctx):
    """Packets framed on the libusb / pyusb thread are handed to the asyncio side: from a foreign thread only
    call_soon_threadsafe wakes the loop; plain call_soon appends to the ready list of a sleeping loop."""
    R, p = ctx.r, ctx.p
    rule = 'C02.threadsafe'
    n = 0
    for mn in ('bumble.transport.usb', 'bumble.transport.pyusb'):
        m = p.modules.get(mn)
        if m is None:
            R.bad(rule, mn, 'anchor missing')
            continue
        for c in [x for x in ast.walk(m.tree) if isinstance(x, ast.Call) and isinstance(x.func, ast.Attribute) and x.func.attr in ('call_soon', 'call_soon_threadsafe', 'call_later', 'call_at')]:
            n += 1
            R.check(c.func.attr == 'call_soon_threadsafe', rule, f'{p.qual_of(c)} | {norm(c)[:50]}', 'scheduled with call_soon_threadsafe',
                    f'`{norm(c)[:60]}` schedules onto the event loop with {c.func.attr} in a module whose callbacks run on the USB thread: the loop is not woken, framed packets sit in the ready list until something else wakes it', f'{m.rel}:{c.lineno}')
    R.check(n >= 3, rule, 'bumble.transport.usb, bumble.transport.pyusb | loop scheduling', f'{n} scheduling calls, all thread-safe', f'only {n} scheduling calls found')


def reader_cancel(ctx):
    """AsyncPacketReader.next_packet reads a packet in several awaits (type, header, body) and keeps no state between
    calls: cancelling it half-way (a timeout wrapper) discards what was consumed and framing restarts mid-packet."""
    R, p = ctx.r, ctx.p
    rule = 'C02.reader-cancel'
    n = 0
    for mn, m in sorted(p.modules.items()):
        if not mn.startswith('bumble.transport'):
            continue
        for c in [x for x in ast.walk(m.tree) if isinstance(x, ast.Call) and call_attr(x) == 'next_packet']:
            par = getattr(c, '_parent', None)
            fn = c
            while fn is not None and not isinstance(fn, FUNC):
                fn = getattr(fn, '_parent', None)
            if not isinstance(fn, ast.AsyncFunctionDef):
                continue   # the blocking reader
            n += 1
            R.check(isinstance(par, ast.Await), rule, f'{p.qual_of(c)} | {norm(c)[:50]}', 'awaited directly (never under wait_for / a timeout)',
                    f'`{norm(getattr(par, "_parent", par))[:80]}`: the asynchronous reader is run under a wrapper that can cancel it between two of its reads; the bytes already consumed are lost and the rest of the packet is framed as new packets', f'{m.rel}:{c.lineno}')
    R.check(n >= 1, rule, 'bumble.transport | next_packet call sites', f'{n} asynchronous call sites', 'no call site found')


def splitter_subclasses(ctx):
    """The per-endpoint splitters differ only in where the length field sits: the framing itself lives in PacketSplitter.feed.
    A subclass that overrides feed (to skip "padding", say) frames differently from the other framers for some chunking."""
    R, p = ctx.r, ctx.p
    rule = 'C02.splitter-subclasses'
    m = p.modules.get('bumble.transport.usb')
    if m is None:
        R.bad(rule, 'bumble.transport.usb', 'anchor missing')
        return
    n = 0
    for c in [x for x in ast.walk(m.tree) if isinstance(x, ast.ClassDef) and any((dotted(b) or '').split('.')[-1] == 'PacketSplitter' for b in x.bases)]:
        n += 1
        extra = [f.name for f in c.body if isinstance(f, FUNC) and f.name != '__init__']
        R.check(not extra, rule, f'bumble.transport.usb.{c.name}', 'only configures the base splitter (length offset / size)', f'{c.name} overrides {extra}: its framing is no longer the base splitter\'s, so some chunkings (a chunk of zero bytes at a packet start, a cut after the first header byte) frame differently from the other framers', f'{m.rel}:{c.lineno}')
    R.check(n >= 3, rule, 'bumble.transport.usb | PacketSplitter subclasses', f'{n} subclasses', f'only {n} subclasses found')


def message_size(ctx):
    """A websocket transport carries one or more whole HCI packets per message.  A `max_size` given to the websockets library
    must admit the largest packet: type byte + 4-byte header + 0xFFFF data bytes = 65540 (None = unlimited is fine)."""
    R, p = ctx.r, ctx.p
    rule = 'C02.message-size'
    need = 1 + 4 + 0xFFFF
    n = 0
    for mn in ('bumble.transport.ws_server', 'bumble.transport.ws_client'):
        m = p.modules.get(mn)
        if m is None:
            R.bad(rule, mn, 'anchor missing')
            continue
        consts = {}
        for st in m.tree.body:
            if isinstance(st, ast.Assign) and len(st.targets) == 1 and isinstance(st.targets[0], ast.Name):
                try:
                    consts[st.targets[0].id] = eval(compile(ast.Expression(st.value), '<c>', 'eval'), {'__builtins__': {}}, dict(consts))
                except Exception:
                    pass
        for c in [x for x in ast.walk(m.tree) if isinstance(x, ast.Call) and (dotted(x.func) or '').split('.')[-1] in ('serve', 'connect')]:
            n += 1
            ms = kwarg(c, 'max_size')
            if ms is None:
                R.ok(rule, f'{p.qual_of(c)} | {norm(c.func)}', 'library default (1 MiB) kept', f'{m.rel}:{c.lineno}')
                continue
            try:
                v = eval(compile(ast.Expression(ms), '<c>', 'eval'), {'__builtins__': {}}, dict(consts))
            except Exception:
                v = 'unknown'
            R.check(v is None or (isinstance(v, int) and v >= need), rule, f'{p.qual_of(c)} | max_size={norm(ms)}', f'admits the largest HCI packet ({need} bytes)',
                    f'max_size={norm(ms)} (= {v}) is below {need}, the size of a maximum-length ACL / ISO packet with its type byte: the library closes the connection on such a message and every later packet of the stream is lost', f'{m.rel}:{c.lineno}')
    R.check(n >= 2, rule, 'bumble.transport.ws_* | websocket endpoints', f'{n} serve / connect calls', f'only {n} found')


def delivery_order(ctx):
    """Packets are handed to the sink in the order they were framed: no function of a transport that delivers packets
    (`... .on_packet(...)`) sorts, reverses or otherwise reorders what it delivers."""
    R, p = ctx.r, ctx.p
    rule = 'C02.delivery-order'
    n = 0
    for mn, m in sorted(p.modules.items()):
        if not mn.startswith('bumble.transport'):
            continue
        for fn in [x for x in ast.walk(m.tree) if isinstance(x, FUNC)]:
            if not any(call_attr(c) == 'on_packet' for c in calls_in(fn)):
                continue
            n += 1
            re_ = [c for c in calls_in(fn) if (dotted(c.func) or '') in ('sorted', 'reversed') or call_attr(c) in ('sort', 'reverse', 'appendleft')]
            R.check(not re_, rule, p.qual_of(fn), 'delivers in arrival order', f'{fn.name} reorders what it delivers ({[norm(c)[:40] for c in re_][:2]}): packets of one stream reach the sink in another order than they were framed', f'{m.rel}:{fn.lineno}')
    R.check(n >= 5, rule, 'bumble.transport | delivering functions', f'{n} functions hand packets to a sink', f'only {n} found')


def external_reset(ctx):
    """Outside the parser itself, its framing state is reset in exactly one situation: a server transport accepting a new
    client (whose stream starts on a packet boundary).  A reset per received message / chunk throws away the head of every
    packet that straddles two chunks."""
    R, p = ctx.r, ctx.p
    rule = 'C02.external-reset'
    ALLOWED = ('connection_made', 'on_connection')
    n = 0
    for mn, m in sorted(p.modules.items()):
        if not mn.startswith('bumble.transport'):
            continue
        for c in [x for x in ast.walk(m.tree) if isinstance(x, ast.Call) and isinstance(x.func, ast.Attribute) and x.func.attr == 'reset' and (dotted(x.func.value) or '').endswith('parser')]:
            n += 1
            fn = c
            while fn is not None and not isinstance(fn, FUNC):
                fn = getattr(fn, '_parent', None)
            R.check(fn is not None and fn.name in ALLOWED, rule, f'{p.qual_of(c)} | {norm(c)}', 'a new client is being accepted', f'`{norm(c)}` resets the parser in {fn.name if fn is not None else "?"}: whatever part of a packet was received before is forgotten, the rest of that packet is framed as new packets', f'{m.rel}:{c.lineno}')
    R.check(n >= 3, rule, 'bumble.transport | parser resets from outside', f'{n} sites, all on accepting a client', f'only {n} sites found')


def reset_first(ctx):
    """In a server transport's new-client hook nothing that can fail stands before the parser reset: asyncio only logs an
    exception raised by connection_made() and goes on delivering the client's bytes - to a parser that still holds the
    previous client's partial packet.  Allowed before the reset: log calls and plain single-target assignments of names,
    attributes and get_extra_info() results (no destructuring, indexing or other calls)."""
    R, p = ctx.r, ctx.p
    rule = 'C02.reset-first'
    n = 0

    def harmless(st):
        if isinstance(st, ast.Pass) or (isinstance(st, ast.Expr) and isinstance(st.value, ast.Constant)):
            return True
        if isinstance(st, ast.Expr) and isinstance(st.value, ast.Call) and (dotted(st.value.func) or '').startswith('logger.'):
            return not any(isinstance(x, (ast.Subscript, ast.Call)) and x is not st.value for a in list(st.value.args) for x in ast.walk(a) if not isinstance(x, ast.JoinedStr))
        if isinstance(st, ast.Assign) and len(st.targets) == 1 and isinstance(st.targets[0], (ast.Name, ast.Attribute)):
            v = st.value
            return isinstance(v, (ast.Name, ast.Attribute, ast.Constant)) or (isinstance(v, ast.Call) and call_attr(v) == 'get_extra_info')
        return False
    for mn, m in sorted(p.modules.items()):
        if not mn.startswith('bumble.transport'):
            continue
        for fn in [x for x in ast.walk(m.tree) if isinstance(x, FUNC)]:
            idx = next((i for i, st in enumerate(fn.body) if any(call_attr(c) == 'reset' and (dotted(c.func.value) or '').endswith('parser') for c in calls_in(st))), None)
            if idx is None or fn.name not in ('connection_made', 'on_connection'):
                continue
            n += 1
            risky = [st for st in fn.body[:idx] if not harmless(st)]
            R.check(not risky, rule, p.qual_of(fn), 'nothing that can raise before the reset', f'`{norm(risky[0])[:70] if risky else ""}` can raise before the parser is reset (a destructuring, an index, a call): the event loop logs the exception of the hook and keeps feeding the new client\'s bytes to a parser that still holds the previous client\'s partial packet', f'{m.rel}:{(risky[0] if risky else fn).lineno}')
    R.check(n >= 3, rule, 'bumble.transport | new-client hooks that reset the parser', f'{n}', f'only {n} found')


def feed_once(ctx):
    """Every received chunk is fed to the push parser exactly once.  A feed_data() call inside a loop is fed with data
    received in that iteration (bound from an await / a receive call in the loop body), never with a re-slice of a chunk
    that has already been fed (the parser stops at the offending byte, not at offset 0 of the chunk: feeding `data[1:]`
    again replays bytes it has already consumed)."""
    R, p = ctx.r, ctx.p
    rule = 'C02.feed-once'
    n = 0
    for mn, m in sorted(p.modules.items()):
        if not mn.startswith('bumble.transport'):
            continue
        for fn in [x for x in ast.walk(m.tree) if isinstance(x, FUNC)]:
            if p.qual_of(fn).startswith('bumble.transport.common.PacketParser.'):
                continue
            for c in [x for x in walk_local(fn) if isinstance(x, ast.Call) and call_attr(x) == 'feed_data']:
                n += 1
                loop = getattr(c, '_parent', None)
                while loop is not None and loop is not fn and not isinstance(loop, (ast.While, ast.For, ast.AsyncFor)):
                    loop = getattr(loop, '_parent', None)
                if loop is None or loop is fn:
                    continue
                arg = c.args[0] if c.args else None
                ok = False
                if isinstance(loop, (ast.For, ast.AsyncFor)) and isinstance(arg, ast.Name) and any(isinstance(x, ast.Name) and x.id == arg.id for x in ast.walk(loop.target)):
                    ok = True
                if isinstance(arg, ast.Name):
                    defs_ = [s_ for s_ in ast.walk(loop) if isinstance(s_, ast.Assign) and any(isinstance(t, ast.Name) and t.id == arg.id for t in s_.targets)]
                    ok = ok or (bool(defs_) and all(isinstance(d.value, ast.Await) or (isinstance(d.value, ast.Call) and not any(isinstance(x, ast.Name) and x.id == arg.id for x in ast.walk(d.value))) for d in defs_))
                R.check(ok, rule, f'{p.qual_of(fn)} | feed_data in a loop', 'fed with what was received in that iteration', f'{fn.name} feeds `{norm(arg) if arg is not None else ""}` to the parser in a loop without receiving new data: bytes the parser has already consumed are framed again (packets delivered twice, bogus packets out of shifted bytes)', f'{m.rel}:{c.lineno}')
    R.check(n >= 4, rule, 'bumble.transport | feed_data call sites', f'{n}', f'only {n} found')


def usb_transfers_untimed(ctx):
    """The USB source re-submits an inbound transfer only when it completed: an inbound transfer therefore has no timeout
    (a timed-out transfer takes the "not completed" path - the transport is declared lost and the rest of the stream,
    including the tail of a packet already half-buffered, is never read)."""
    R, p = ctx.r, ctx.p
    rule = 'C02.usb-transfers-untimed'
    fn = p.find('bumble.transport.usb.open_usb_transport')
    m = p.modules.get('bumble.transport.usb')
    if m is None:
        R.bad(rule, 'bumble.transport.usb', 'anchor missing')
        return
    n = 0
    for cls_fn in [x for x in ast.walk(m.tree) if isinstance(x, FUNC) and x.name == 'start']:
        for c in [x for x in calls_in(cls_fn) if call_attr(x) in ('setBulk', 'setInterrupt', 'setIsochronous')]:
            n += 1
            t = kwarg(c, 'timeout')
            R.check(t is None or (is_const(t) and const(t) == 0), rule, f'{p.qual_of(c)} | {norm(c.func)}', 'no timeout', f'`{norm(c.func)}(..., timeout={norm(t) if t is not None else None})`: after an idle period the transfer completes as TIMED_OUT, which the callback treats as a lost transport and does not re-submit - the rest of that endpoint\'s stream is never read', f'{m.rel}:{c.lineno}')
    R.check(n >= 3, rule, 'bumble.transport.usb | inbound transfers', f'{n} transfers set up in start()', f'only {n} found')


RULES = [
    ('C02.usb-transfers-untimed', usb_transfers_untimed),
    ('C02.feed-once', feed_once),
    ('C02.reset-first', reset_first),
    ('C02.external-reset', external_reset),
    ('C02.delivery-order', delivery_order),
    ('C02.message-size', message_size),
    ('C02.splitter-subclasses', splitter_subclasses),
    ('C02.reader-cancel', reader_cancel),
    ('C02.threadsafe', threadsafe),
    ('C02.reset-callers', parser_reset_callers),
    ('C02.bounded-buffers', bounded_buffers_rule),
    ('C02.shared-state', shared_state_rule),
    ('C02.feed-contained', feed_contained),
    ('C02.info-table', info_table),
    ('C02.pull-framers', pull_framers),
    ('C02.push-parser', push_parser),
    ('C02.usb-splitters', usb_splitters),
    ('C02.server-reset', server_reset),
]

VARIANTS = [
    ('ACL length declared 1 byte', 'bumble/transport/common.py', "    hci.HCI_ACL_DATA_PACKET: (2, 2, 'H'),\n", "    hci.HCI_ACL_DATA_PACKET: (1, 2, 'B'),\n", 'fire', 'C02.info-table'),
    ('emission becomes elif', 'bumble/transport/common.py',
     "                # Emit a packet if one is complete\n                if self.state == PacketParser.NEED_BODY and not self.bytes_needed:\n",
     "                # Emit a packet if one is complete\n                elif self.state == PacketParser.NEED_BODY and not self.bytes_needed:\n", 'fire', 'C02.push-parser'),
    ('no reset before raising', 'bumble/transport/common.py', "                    if self.packet_info is None:\n                        self.reset()\n                        raise", "                    if self.packet_info is None:\n                        raise", 'fire', 'C02.push-parser'),
    ('length unpacked at info[1]', 'bumble/transport/common.py', "                        self.packet_info[2], self.packet, 1 + self.packet_info[1]\n", "                        self.packet_info[2], self.packet, self.packet_info[1]\n", 'fire', 'C02.push-parser'),
    ('async reader drops the header', 'bumble/transport/common.py',
     "        body = await self.source.readexactly(body_length)\n\n        return packet_type + header + body\n", "        body = await self.source.readexactly(body_length)\n\n        return packet_type + body\n", 'fire', 'C02.pull-framers'),
    ('sco splitter offset', 'bumble/transport/usb.py', "        super().__init__(length_offset=2, length_size=1, emit=emit)\n", "        super().__init__(length_offset=1, length_size=1, emit=emit)\n", 'fire', 'C02.usb-splitters'),
    ('tcp server stops resetting', 'bumble/transport/tcp_server.py', "            # Start framing afresh: the previous client may have been cut mid-packet\n            self.packet_source.parser.reset()\n", "", 'fire', 'C02.server-reset'),
    ('benign: swap two counter updates', 'bumble/transport/common.py', "            data_offset += consumed\n            data_left -= consumed\n", "            data_left -= consumed\n            data_offset += consumed\n", 'silent', ''),
]
