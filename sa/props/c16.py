"""C16 — teardown is complete: no stale connection state, no waiter left hanging."""
from __future__ import annotations

import ast

from .. import paths, waiters
from ..core import FUNC, call_attr, calls_in, const, dotted, is_const, kwarg, norm, text, walk_local
from .c09 import waiter_rule, _stored_in_cancelled_table

EXPLANATION = [
    'C16.disconnect-guard-identity: the "already gone" guard of Device.disconnect tests the link object against what is registered under its handle, not the handle alone.',
    'C16.semaphore-identity: the closed-bearer test of Server._indicate_single_bearer re-reads indication_semaphores.get(bearer) without a default.',
    'C16.cis-follow-acl: Controller.on_le_disconnected concludes (on_le_cis_disconnected) every central / peripheral CIS whose acl_connection is the ACL being removed; every LE ACL removal goes through it.',
    'C16.sink-chain: every set_packet_sink override in a BaseSource subclass chains to super().set_packet_sink (or assigns self.sink).',
    'C16.cancel-dispatch: in utils.cancel_on_event, set_exception on the ensured future is reached only under `not isinstance(future, asyncio.Task)`.',
    'C16.loss-reaches-sink: every path of BaseSource.on_transport_lost on which a sink with on_transport_lost exists calls it (the state of `terminated` does not gate the notification).',
    "C16.subscription-of-live-bearer: every creation of a `subscribers[bearer]` entry in the GATT server is guarded by an identity test of the bearer's connection against device.lookup_connection(handle) (write handlers run in tasks, possibly after the disconnection was processed).",
    'C16.pending-table-scope: the per-connection table of pending enhanced credit-based requests is dropped only by ChannelManager.on_disconnection; everything else removes its own identifier from the inner table.',
    'C16.loss-not-swallowed: in bumble.device / bumble.host, no handler that swallows a failure of an awaited HCI command (catching a class that covers TransportLostError without re-raising or returning) is followed by another await (other than a further command, which fails at once) in the same function.',
    'C16.source-loss-reported: every transport read loop that records a failure with terminated.set_exception also calls on_transport_lost in the same handler: the host is told through its sink interface.',
    'C16.lost-transport-senders: Host.on_transport_lost fails the pending response and, when none is pending, releases a locked command semaphore; _send_command raises TransportLostError once it holds the semaphore: no sender waits for ever after the loss.',
    "C16.gone-connection: Connection.cancel_on_disconnection cancels at once when the connection is no longer registered with its device (the 'disconnection' event it would wait for has already been emitted), and Device.disconnect refuses a link that is in none of the device's tables before sending anything.",
    'C16.settle-guard: every set_result / set_exception on a future kept in a channel attribute is under `not <future>.done()`, unless every coroutine waiting on that attribute clears it in a finally (a waiter that timed out leaves a cancelled future behind; settling it raises InvalidStateError in the middle of the link teardown).',
    'C16.uncalled-predicate: done / cancelled / is_set / locked / empty used as truth values are called (a bound method is always true).',
    'C16.dead-default-check: no value obtained by indexing a defaultdict attribute is afterwards tested for absence (`is None` / falsy): such a test is dead and the lookup has created the entry (drain() would wait on a fresh event nobody sets).',
    'C16.one-shot: no name bound to a generator expression or to filter() / map() / zip() / reversed() / enumerate() is read in more than one consuming position or inside a loop that evaluates it repeatedly: such an iterator is empty after its first walk.',
    'C16.sink-wrappers: every class that installs itself as the packet sink of a transport source and forwards packets to a sink of its own also has on_transport_lost and passes it on (BaseSource only notifies sinks that have the method).',
    'C16.exception-payloads: `future.set_exception(x)` is never given a status / number, and every emit of an event that has a bound `set_exception` registered directly as listener passes an exception object built in that function.',
    'C16.iter-mutation: no loop over a live dict view (`.values()` / `.items()` / `.keys()` of an attribute table) has a body that, through the methods it calls (resolved by name, three levels, local aliases of the table followed), inserts into or removes from the same table; iterating a copy or a sub-table detached with pop() first is accepted.',
    'C16.listeners: the long-lived wiring of the L2CAP channel manager and of the device to their host uses on(), never once(): teardown handlers stay subscribed for every connection.',
    'C16.pending-slots: a manager-wide pending-request slot that a coroutine of ChannelManager fills with a future is set back to None on every exit of that coroutine after the store, the cancellation of its await (disconnection) included.',
    'C16.late-binding: no closure that is created inside a loop and kept (a sink, an event listener, a callback) reads the loop\'s variables freely; values are bound per iteration (default argument or functools.partial), so each bearer\'s callback serves its own bearer.',
    'C16.shared-state: no class of the anchored modules keeps per-instance state in an object shared by all instances (an empty mutable container or synchronisation object as class-level default that is read through self and not rebound in __init__, or as a dataclass field default); process-wide registries are listed by name.',
    'C16.queued-waiters: a GATT client request that was waiting for the request semaphore when the bearer closed tests, right after obtaining the semaphore and before sending, a flag that Client.on_disconnection sets; the in-flight request is cancelled there (the server-side twin for indications is in C16.pending-indication).',
    'C16.queue-waiters: DataPacketQueue.flush(handle) sets the drained event of the popped per-connection state on every path on which such a state exists (whatever its in-flight count), so a drain() waiting on a closed connection ends (same rule as C04.drain).',
    'C16.pending-indication: Server.on_disconnection cancels the confirmation future it removes, and the indication coroutine\'s `finally` does not re-create an entry for a bearer that is gone.',
    'C16.device-cleanup: in Device.on_disconnection every subsystem clean-up call (GATT server, ...) is guarded exactly like the emission of the disconnection event: no extra condition such as the link-layer role.',
    'C16.smp-sessions: Session.on_disconnection reports the end of the session to the manager on every path and the manager removes it from its table; the session registers for its connection\'s disconnection event.',
    'C16.parity: the host tears a link down in one place (Host.on_disconnection: event to listeners, host tables, three data queues); '
    'both ways a link can end reach it for every live handle - the Disconnection Complete event and the loss of the transport - and '
    'the listeners of the event cover the device table, the GATT server state and the L2CAP tables; the per-connection event fans out '
    'to the GATT client, the SMP session and every cancel-on-disconnection waiter.',
    'C16.variants: registries keyed by bearer (Connection | LeCreditBasedChannel) have a removal call for each variant.',
    'C16.controller-tables: every path on which the virtual controller emits a Disconnection Complete also removes that link from its table.',
    'C16.waiters: census of every await on a future/event in host, device, l2cap, gatt_client, gatt_server, smp, rfcomm, sdp, avdtp: '
    'wrapped in a cancel helper / timeout, or settled by every teardown method of its owner on all paths, or a named local exception.',
    'Not decided: agreement of live-connection sets after every interleaving (runtime).',
]
ASSUMPTIONS = [
    'pyee delivers an emitted event synchronously to all listeners registered at that time',
    'AVRCP/AVCTP/HFP waits are outside this property\'s quantifier (GATT, pairing, L2CAP, RFCOMM/SDP/AVDTP, HCI)',
]

HOST = 'bumble.host.Host'
DEV = 'bumble.device.Device'


def parity(ctx):
    R, p = ctx.r, ctx.p
    rule = 'C16.parity'
    h = p.cls(HOST)
    if h is None:
        R.bad(rule, HOST, 'anchor missing')
        return
    od = h.methods.get('on_disconnection')
    dc = h.methods.get('on_hci_disconnection_complete_event')
    tl = h.methods.get('on_transport_lost')
    for q, n in ((f'{HOST}.on_disconnection', od), (f'{HOST}.on_hci_disconnection_complete_event', dc), (f'{HOST}.on_transport_lost', tl)):
        if n is None:
            R.bad(rule, q, f'anchor missing: {q}')
    if not (od and dc and tl):
        return
    hp = od.args.args[1].arg
    s = norm(od)
    R.check(f"self.emit('disconnection', {hp}, " in s, rule, f'{HOST}.on_disconnection | event', 'listeners are told', 'host teardown does not emit the disconnection event', p.loc(od))
    for tab in ('connections', 'cis_links', 'sco_links'):
        R.check(f'self.{tab}.pop({hp}, ' in s, rule, f'{HOST}.on_disconnection | {tab}', f'{tab} entry removed', f'host teardown leaves the handle in {tab}', p.loc(od))
    for q in ('acl_packet_queue', 'le_acl_packet_queue', 'iso_packet_queue'):
        R.check(f'self.{q}.flush({hp})' in s, rule, f'{HOST}.on_disconnection | {q}', 'queued data of the link discarded', f'host teardown does not flush {q}: packets of the dead link are still sent and their credits never return', p.loc(od))
    # emit happens before the tables are dropped (listeners still find the connection)
    stm = [norm(x) for x in od.body]
    ie = next((i for i, x in enumerate(stm) if "self.emit('disconnection'" in x), -1)
    ip = next((i for i, x in enumerate(stm) if 'self.connections.pop(' in x), 99)
    R.check(0 <= ie < ip, rule, f'{HOST}.on_disconnection | order', 'listeners run while the connection is still known', 'tables are dropped before listeners are told', p.loc(od))
    # entry 1: disconnection complete (success) -> on_disconnection(handle, reason)
    calls = [c for c in calls_in(dc) if dotted(c.func) == 'self.on_disconnection']
    ok = len(calls) == 1 and norm(calls[0].args[0]) == 'handle' and any(norm(t) == 'event.status == hci.HCI_SUCCESS' and pol for t, pol in paths.flat_guards(calls[0]))
    R.check(ok, rule, f'{HOST}.on_hci_disconnection_complete_event', 'successful disconnection runs the teardown for its handle', 'Disconnection Complete does not run the host teardown', p.loc(dc))
    # entry 2: transport lost -> on_disconnection for every live handle, then flush
    loops = [n for n in walk_local(tl) if isinstance(n, ast.For) and any(dotted(c.func) == 'self.on_disconnection' for c in calls_in(n))]
    ok = len(loops) == 1 and all(f'self.{t}' in norm(loops[0].iter) for t in ('connections', 'cis_links', 'sco_links'))
    R.check(ok, rule, f'{HOST}.on_transport_lost | all links torn down', 'every ACL, CIS and SCO link goes through the same teardown', 'transport loss does not tear down every live link: host tables, queued data, GATT/L2CAP state of the lost links survive', p.loc(tl))
    if loops:
        it = norm(loops[0].iter)
        R.check(it.startswith('[') or it.startswith('list(') or it.startswith('tuple('), rule, f'{HOST}.on_transport_lost | snapshot', 'iterates over a snapshot (the teardown mutates the tables)', 'iterates the live tables while they are being modified', p.loc(loops[0]))
    # nothing before the teardown loop can raise: the pending command's future is settled only if it is still pending
    # (its response may have arrived in the same loop iteration, before the waiting task resumed)
    settles = [c for c in calls_in(tl) if call_attr(c) in ('set_exception', 'set_result') and (dotted(c.func.value) or '').startswith('self.')]
    unguarded = [c for c in settles if not any(norm(t) == f'{dotted(c.func.value)}.done()' and not pol for t, pol in paths.flat_guards(c))]
    R.check(bool(settles) and not unguarded, rule, f'{HOST}.on_transport_lost | settles only a pending future', 'set_exception is under `not <future>.done()`',
            'the pending command\'s future is settled without testing done(): if its response arrived in the same loop iteration set_exception raises InvalidStateError and the whole teardown (links, flush) is skipped', p.loc(unguarded[0]) if unguarded else p.loc(tl))
    R.check("self.pending_response.set_exception(TransportLostError(" in norm(tl) and "self.emit('flush')" in norm(tl), rule, f'{HOST}.on_transport_lost | command and flush', 'pending HCI command fails; flush emitted', 'pending command is not failed / flush not emitted on transport loss', p.loc(tl))
    # listeners of host 'disconnection'
    dod = p.find(f'{DEV}.on_disconnection')
    if dod is None:
        R.bad(rule, f'{DEV}.on_disconnection', 'anchor missing')
    else:
        sd = norm(dod)
        R.check(any('host_event_handler' in text(d) for d in dod.decorator_list), rule, f'{DEV}.on_disconnection | registered', 'host event handler', 'Device.on_disconnection is not registered as host event handler', p.loc(dod))
        R.check('self.connections.pop(connection_handle, None)' in sd and 'connection.emit(connection.EVENT_DISCONNECTION, reason)' in sd and 'self.gatt_server.on_disconnection(connection)' in sd, rule, f'{DEV}.on_disconnection | fan-out', 'device table, per-connection event, GATT server state', 'device-level teardown lost one of: table removal, per-connection event, GATT server clean-up', p.loc(dod))
        R.check('self.sco_links.pop(connection_handle, None)' in sd and 'self.cis_links.pop(connection_handle, None)' in sd, rule, f'{DEV}.on_disconnection | other links', 'SCO and CIS links removed and notified', 'SCO/CIS links are not removed on disconnection', p.loc(dod))
    hs = p.cls('bumble.l2cap.ChannelManager')
    setter = next((m for m in hs.node.body if isinstance(m, ast.FunctionDef) and m.name == 'host' and any('setter' in text(d) for d in m.decorator_list)), None) if hs else None
    R.check(setter is not None and "host.on('disconnection', self.on_disconnection)" in norm(setter), rule, 'bumble.l2cap.ChannelManager.host | registered', 'L2CAP manager listens to host disconnections', 'L2CAP manager does not listen to host disconnections', p.loc(setter) if setter else '')
    # per-connection event listeners
    gc = p.cls('bumble.gatt_client.Client')
    if gc is not None:
        init = gc.methods.get('__init__')
        ok = init is not None and 'on_disconnection' in norm(init) and 'EVENT_DISCONNECTION' in norm(init)
        odc = gc.methods.get('on_disconnection')
        ok2 = odc is not None and 'self.pending_response.cancel()' in norm(odc)
        R.check(ok and ok2, rule, 'bumble.gatt_client.Client | request cancelled on disconnection', 'client listens to its connection and cancels the pending request', 'a GATT request waiting for its response is not cancelled when the link goes away', p.loc(gc.node))
        sr = gc.methods.get('send_request')
        if sr is not None:
            s2 = norm(sr)
            R.check('async with self.request_semaphore:' in s2 and 'finally:' in s2 and 'self.pending_request = None' in s2 and 'self.pending_response = None' in s2 and 'asyncio.wait_for(' in s2, rule, 'bumble.gatt_client.Client.send_request', 'one request at a time, timeout, slots cleared in finally', 'GATT client request bookkeeping changed', p.loc(sr))
    ss = p.cls('bumble.smp.Session')
    if ss is not None:
        init = ss.methods.get('__init__')
        odc = ss.methods.get('on_disconnection')
        ok = init is not None and 'connection.on(connection.EVENT_DISCONNECTION, self.on_disconnection)' in norm(init) and odc is not None and 'self.manager.on_session_end(self)' in norm(odc)
        se = p.find('bumble.smp.Manager.on_session_end')
        ok2 = se is not None and 'del self.sessions[session.connection.handle]' in norm(se)
        R.check(ok and ok2, rule, 'bumble.smp.Session | session dropped on disconnection', 'session listens to its connection and is removed from the manager', 'a pairing session outlives its connection', p.loc(ss.node))
    gs = p.find('bumble.gatt_server.Server.on_disconnection')
    if gs is not None:
        sg = norm(gs)
        R.check(all(f'self.{t}.pop(bearer, None)' in sg for t in ('subscribers', 'indication_semaphores', 'pending_confirmations')), rule, 'bumble.gatt_server.Server.on_disconnection', 'subscriptions, indication semaphore and pending confirmation of the bearer dropped', 'GATT server keeps per-bearer state after the bearer is gone', p.loc(gs))
    # Device.on_flush (after transport loss nothing is left; it still clears its own view)
    of = p.find(f'{DEV}.on_flush')
    if of is not None:
        R.check('self.emit(self.EVENT_FLUSH)' in norm(of) and 'self.connections = {}' in norm(of), rule, f'{DEV}.on_flush', 'flush event for device-level waiters; connection table cleared', 'device flush changed', p.loc(of))
    R.floor(rule, 18, 'fan-out obligations')


def variants(ctx):
    R, p = ctx.r, ctx.p
    rule = 'C16.variants'
    srv = p.cls('bumble.gatt_server.Server')
    if srv is None:
        R.bad(rule, 'bumble.gatt_server.Server', 'anchor missing')
        return
    # variant 1: Connection bearers -> Device.on_disconnection
    dod = p.find(f'{DEV}.on_disconnection')
    R.check(dod is not None and 'self.gatt_server.on_disconnection(connection)' in norm(dod), rule, 'bumble.gatt_server.Server | Connection bearer', 'removed by Device.on_disconnection', 'connection bearers are never removed from the GATT server', p.loc(dod) if dod else '')
    # variant 2: enhanced bearers (L2CAP channels) -> close hook where they are adopted
    reg = srv.methods.get('register_eatt')
    if reg is None:
        R.bad(rule, 'bumble.gatt_server.Server.register_eatt', 'anchor missing')
        return
    adopt = [f for f in ast.walk(reg) if isinstance(f, FUNC) and f is not reg]
    ok = False
    for f in adopt:
        s = norm(f)
        if 'channel.sink =' in s and 'EVENT_CLOSE' in s and 'self.on_disconnection(channel)' in s:
            ok = True
    R.check(ok, rule, 'bumble.gatt_server.Server | EATT bearer', 'a close hook removes the channel bearer\'s state', 'enhanced ATT bearers (L2CAP channels) are adopted without a close hook: their subscriptions and pending indication are never removed', p.loc(reg))


def controller_tables(ctx):
    R, p = ctx.r, ctx.p
    rule = 'C16.controller-tables'
    ctl = p.cls('bumble.controller.Controller')
    if ctl is None:
        R.bad(rule, 'bumble.controller.Controller', 'anchor missing')
        return
    n = 0
    for name, m in sorted(ctl.methods.items()):
        if name == 'on_hci_disconnect_command':
            continue  # error completions for unknown handles carry nothing to remove
        evs = [c for c in calls_in(m) if call_attr(c) == 'HCI_Disconnection_Complete_Event']
        if not evs:
            continue
        n += 1
        # the table the reported link lives in, by the kind of link the handler is about
        kind = 'cis' if '_cis_' in name else 'sco' if '_sco_' in name else 'classic' if 'classic' in name else 'le'
        tables = {'cis': ('peripheral_cis_links',), 'sco': ('sco_links',), 'classic': ('classic_connections',), 'le': ('le_connections',)}[kind]
        removes = any((isinstance(d, ast.Delete) and any(isinstance(t, ast.Subscript) and (dotted(t.value) or '').split('.')[-1] in tables for t in d.targets)) for d in walk_local(m)) \
            or any(call_attr(c) == 'pop' and (dotted(c.func.value) or '').split('.')[-1] in tables for c in calls_in(m))
        R.check(removes, rule, f'bumble.controller.Controller.{name}', 'the link reported as disconnected is removed / detached in the same handler', f'{name} reports a disconnection but keeps the link in the controller\'s table (host and controller disagree on live connections)', p.loc(m))
    R.check(n >= 3, rule, 'bumble.controller.Controller | disconnect handlers', f'{n}', f'only {n} handlers emit Disconnection Complete')


SCOPE = ['bumble.host', 'bumble.device', 'bumble.l2cap', 'bumble.gatt_client', 'bumble.gatt_server', 'bumble.smp', 'bumble.rfcomm', 'bumble.sdp', 'bumble.avdtp']

TEARDOWN = {
    'bumble.l2cap.LeCreditBasedChannel': ['abort'],
    'bumble.l2cap.ClassicChannel': ['abort'],
    'bumble.l2cap.ChannelManager': ['on_disconnection'],
    'bumble.rfcomm.DLC': ['abort'],
    'bumble.rfcomm.Multiplexer': ['on_l2cap_channel_close'],
    'bumble.gatt_client.Client': ['on_disconnection'],
}

EXCEPTIONS = {
    # key -> reason (local plumbing, not settled by a peer)
    'bumble.host.DataPacketQueue.drain | await connection_state.drained': 'set by DataPacketQueue.flush(handle), which Host.on_disconnection calls for the handle (checked in C04.drain / C16.parity)',
    'bumble.device.Big.terminate | await terminated': 'broadcast group, no connection; local HCI completion',
    'bumble.device.Device.create_big | await established': 'broadcast group, no connection; failure event settles it',
    'bumble.device.Device.create_big_sync | await established': 'broadcast sync, no connection; failure event settles it',
    'bumble.device.Device.accept_cis_request | await pending_establishment': 'CIS establishment failure event settles it (controller completes or fails the procedure, C03)',
    'bumble.smp.Session.on_pairing | await self.ctkd_task': 'local task (key derivation), started by this session',
    'bumble.avdtp.MediaPacketPump.wait_for_completion | await self.completed': 'local pump task completion',
    'bumble.avdtp.MediaPacketPump.stop | await self.pump_task': 'local task being cancelled',
    'bumble.avdtp.Protocol.on_message.wait_and_send | await result': 'runs inside utils.cancel_on_event(self, EVENT_CLOSE, ...)',
}


def waiters_rule(ctx):
    R, p = ctx.r, ctx.p
    rule = 'C16.waiters'
    aws = waiters.census(p, SCOPE)
    counts = {}
    for aw in aws:
        counts[aw.kind] = counts.get(aw.kind, 0) + 1
        key = aw.key()
        if aw.kind == 'wrapped':
            R.ok(rule, key, 'wrapped in a cancel-on-disconnection / cancel-on-event / timeout helper', aw.loc)
            continue
        if aw.kind == 'other' and 'wait_for' in norm(aw.node.value):
            R.ok(rule, key, 'awaited under wait_for', aw.loc)
            continue
        if aw.kind not in ('bare-future', 'bare-event'):
            continue
        if key in EXCEPTIONS:
            R.ok(rule, key, 'named exception: ' + EXCEPTIONS[key], aw.loc, trivial=True)
            continue
        # nested coroutine started only through cancel_on_disconnection (SMP prompts)
        fn = aw.fn
        outer = fn
        while getattr(outer, '_parent', None) is not None and not isinstance(outer._parent, (ast.ClassDef, ast.Module)):
            outer = outer._parent
        owner = p.class_of(outer) if isinstance(outer, FUNC) else aw.cls
        if owner is not None and fn is not outer:
            spawned = [c for m in owner.methods.values() for c in ast.walk(m) if isinstance(c, ast.Call) and call_attr(c) in ('cancel_on_disconnection', 'cancel_on_event') and c.args and isinstance(c.args[-1], ast.Call) and call_attr(c.args[-1]) == fn.name]
            if spawned:
                R.ok(rule, key, 'the enclosing coroutine is started through a cancel helper', aw.loc)
                continue
        attr = waiters.resolve_attr(aw)
        cls = aw.cls or owner
        if attr is None and cls is not None and _stored_in_cancelled_table(p, aw, TEARDOWN):
            R.ok(rule, key, 'future stored in a per-connection table whose entries the teardown cancels', aw.loc)
            continue
        if attr is None or cls is None:
            R.bad(rule, key, f'bare await on `{aw.target}`: not wrapped in a cancel helper and not settled by any teardown: the caller waits forever if the link or transport goes away', aw.loc)
            continue
        tds = TEARDOWN.get(cls.qual)
        if not tds:
            R.bad(rule, key, f'bare await on self.{attr}: {cls.qual} has no teardown method that could settle it', aw.loc)
            continue
        probs = []
        for td in tds:
            ok, wit = waiters.settles(p, cls, td, attr)
            if not ok:
                probs.append(f'{td}() does not settle self.{attr} ({"; ".join(wit[:2])})')
        R.check(not probs, rule, key, f'self.{attr} is settled by {tds} on every path', f'bare await on self.{attr} is not released on teardown: ' + ' | '.join(probs), aw.loc)
    R.extra['await_census'] = counts
    R.floor(rule, 45, 'awaits on futures/events')



def smp_sessions(ctx):
    """A pairing session never outlives its link."""
    R, p = ctx.r, ctx.p
    rule = 'C16.smp-sessions'
    fn = p.find('bumble.smp.Session.on_disconnection')
    end = p.find('bumble.smp.Manager.on_session_end')
    if fn is None or end is None:
        R.bad(rule, 'bumble.smp.Session.on_disconnection / Manager.on_session_end', 'anchor missing')
        return

    class D(paths.Domain):
        def event(self, node, v):
            if isinstance(node, ast.Call) and dotted(node.func) == 'self.manager.on_session_end':
                return (True,)
            return (v,)
    res = paths.run(fn, D(), False)
    bad = [' '.join(w) for v, w in paths.normal_exits(res).items() if not v]
    R.check(not bad, rule, 'bumble.smp.Session.on_disconnection | session ends with the link', 'every exit reports the session\'s end to the manager, whatever the pairing state',
            'a session can survive the disconnection of its link (e.g. when pairing had completed): it stays in Manager.sessions and, once the controller reuses the handle, receives the next link\'s SMP PDUs', p.loc(fn), bad[:2])
    dels = [n for n in walk_local(end) if isinstance(n, ast.Delete) and any(isinstance(t, ast.Subscript) and dotted(t.value) == 'self.sessions' for t in n.targets)]
    pops = [c for c in calls_in(end) if call_attr(c) == 'pop' and dotted(c.func.value) == 'self.sessions']
    R.check(bool(dels) or bool(pops), rule, 'bumble.smp.Manager.on_session_end', 'removes the session from Manager.sessions', 'the manager does not forget an ended session', p.loc(end))
    # the session listens for its link's disconnection
    init = p.find('bumble.smp.Session.__init__')
    ok = init is not None and any(call_attr(c) in ('on', 'once') and len(c.args) >= 2 and 'EVENT_DISCONNECTION' in norm(c.args[0]) and norm(c.args[1]) == 'self.on_disconnection' for c in calls_in(init))
    R.check(ok, rule, 'bumble.smp.Session.__init__ | listens for disconnection', 'registers on_disconnection on its connection', 'the session is not told when its link goes away', p.loc(init) if init else '')



def device_cleanup(ctx):
    """Per-connection clean-up in Device.on_disconnection depends only on the connection being known."""
    R, p = ctx.r, ctx.p
    rule = 'C16.device-cleanup'
    fn = p.find('bumble.device.Device.on_disconnection')
    if fn is None:
        R.bad(rule, 'bumble.device.Device.on_disconnection', 'anchor missing')
        return
    emit = next((c for c in calls_in(fn) if call_attr(c) == 'emit' and c.args and 'EVENT_DISCONNECTION' in norm(c.args[0]) and dotted(c.func.value) == 'connection'), None)
    clean = [c for c in calls_in(fn) if call_attr(c) == 'on_disconnection' and (dotted(c.func.value) or '').startswith('self.')]
    if emit is None or not clean:
        R.bad(rule, 'bumble.device.Device.on_disconnection | clean-up calls', f'event emission {"found" if emit else "missing"}, {len(clean)} subsystem clean-up calls', p.loc(fn))
        return
    ge = sorted((norm(t), pol) for t, pol in paths.flat_guards(emit))
    for c in clean:
        gc = sorted((norm(t), pol) for t, pol in paths.flat_guards(c))
        R.check(gc == ge, rule, f'bumble.device.Device.on_disconnection | {dotted(c.func)}', 'runs for every connection that is reported as disconnected (same guards as the disconnection event)',
                f'{dotted(c.func)} runs only under {[g for g in gc if g not in ge]}: for the other connections the subsystem keeps its per-connection state (e.g. GATT subscriptions of a server on the central) after the link is gone', p.loc(c))



def pending_indication(ctx):
    """An indication that waits for its confirmation is released when its bearer goes away, and leaves no entry behind."""
    R, p = ctx.r, ctx.p
    rule = 'C16.pending-indication'
    od = p.find('bumble.gatt_server.Server.on_disconnection')
    ind = p.find('bumble.gatt_server.Server._indicate_single_bearer')
    if od is None or ind is None:
        R.bad(rule, 'bumble.gatt_server.Server.on_disconnection/_indicate_single_bearer', 'anchor missing')
        return
    pops = [n for n in walk_local(od) if isinstance(n, (ast.Assign, ast.NamedExpr)) and isinstance(n.value, ast.Call) and call_attr(n.value) == 'pop' and dotted(n.value.func.value) == 'self.pending_confirmations']
    ok = False
    if pops:
        var = dotted(pops[0].targets[0]) if isinstance(pops[0], ast.Assign) else dotted(pops[0].target)
        ok = any(dotted(c.func) in (f'{var}.cancel', f'{var}.set_exception') for c in calls_in(od))
    R.check(ok, rule, 'bumble.gatt_server.Server.on_disconnection | pending confirmation released', 'the future removed from pending_confirmations is cancelled',
            'the pending confirmation of a closed bearer is dropped from the table but not cancelled: the indicate call waits for the whole GATT timeout', p.loc(od))
    # ... on every path: each per-bearer table of the server loses its entry and the pending future is released, whether or
    # not the bearer ever subscribed (a forced indication needs no subscription)
    srv = p.cls('bumble.gatt_server.Server')
    init = srv.methods.get('__init__') if srv else None
    per_bearer = set()
    if init is not None:
        for n in walk_local(init):
            if isinstance(n, (ast.Assign, ast.AnnAssign)):
                tg = n.targets[0] if isinstance(n, ast.Assign) else n.target
                d = dotted(tg) or ''
                ann = text(srv.annots.get(d[5:])) if d.startswith('self.') and d[5:] in srv.annots else (text(n.annotation) if isinstance(n, ast.AnnAssign) else '')
                if d.startswith('self.') and ('Bearer' in ann) and ('dict' in ann.lower()):
                    per_bearer.add(d[5:])
    per_bearer |= {a for a, ann in (srv.annots.items() if srv else []) if 'Bearer' in text(ann) and 'dict' in text(ann).lower()}

    class Gone(paths.Domain):
        def event(self, node, v):
            if isinstance(node, ast.Call) and call_attr(node) == 'pop' and (dotted(node.func.value) or '').startswith('self.') and (dotted(node.func.value))[5:] in per_bearer and node.args and norm(node.args[0]) == od.args.args[1].arg:
                v = v | {dotted(node.func.value)[5:]}
            if isinstance(node, ast.Delete):
                for t_ in node.targets:
                    if isinstance(t_, ast.Subscript) and (dotted(t_.value) or '')[5:] in per_bearer:
                        v = v | {dotted(t_.value)[5:]}
            if isinstance(node, ast.Call) and call_attr(node) in ('cancel', 'set_exception'):
                v = v | {'<released>'}
            return (v,)

        def assume(self, atom, truth, v):
            # the pending future exists and is not done: the case that matters
            t = norm(atom)
            if t.endswith('is not None') and 'pending' in t:
                return (v,) if truth else ()
            if t.endswith('is None') and 'pending' in t:
                return () if truth else (v,)
            if t.endswith('.done()'):
                return () if truth else (v,)
            return (v,)
    res = paths.run(od, Gone(), frozenset())
    want = set(per_bearer) | {'<released>'}
    short = sorted(f'{k}: keeps {sorted(want - set(v))}' for k, st in res.items() if not k.startswith('raise') for v in st if want - set(v))
    R.check(len(per_bearer) >= 3 and not short, rule, 'bumble.gatt_server.Server.on_disconnection | every per-bearer table, every path', f'every normal path drops the bearer from {sorted(per_bearer)} and releases the pending confirmation',
            'a path through on_disconnection leaves an entry of the closed bearer behind (or its pending confirmation unreleased), e.g. for a bearer that never subscribed: a forced indication keeps waiting and its slot stays locked', p.loc(od), short[:3])
    # an indication that was queued behind another one when the bearer went away does not start after the teardown: between
    # obtaining the per-bearer semaphore and creating its pending confirmation it checks that the bearer still has its entry
    withs = [w for w in ast.walk(ind) if isinstance(w, ast.AsyncWith)]
    stores = [n for n in ast.walk(ind) if isinstance(n, ast.Assign) and any(isinstance(t, ast.Subscript) and dotted(t.value) == 'self.pending_confirmations' for t in n.targets) and not (isinstance(n.value, ast.Constant) and n.value.value is None)]
    okq = bool(withs) and bool(stores)
    for st_ in stores:
        w = next((w for w in withs if any(st_ is x for x in ast.walk(w))), None)
        if w is None:
            okq = False
            continue
        top = st_
        while getattr(top, '_parent', None) is not w:
            top = top._parent
        before = w.body[:w.body.index(top)]
        okq = okq and any(isinstance(b_, ast.If) and 'indication_semaphores' in norm(b_.test) and b_.body and isinstance(b_.body[-1], (ast.Raise, ast.Return)) for b_ in before)
    R.check(okq, rule, 'bumble.gatt_server.Server._indicate_single_bearer | queued indication after teardown', 'after obtaining the semaphore the bearer\'s entry is checked before a pending confirmation is created',
            'an indication queued behind another one proceeds after the bearer was torn down: it re-creates pending_confirmations[bearer] for the closed connection and waits for the whole GATT timeout', p.loc(ind))
    # nothing is re-inserted for a bearer that has been torn down meanwhile
    bad = []
    for t in [x for x in ast.walk(ind) if isinstance(x, ast.Try)]:
        for s_ in t.finalbody:
            for x in ast.walk(s_):
                if isinstance(x, ast.Assign) and isinstance(x.targets[0], ast.Subscript) and dotted(x.targets[0].value) == 'self.pending_confirmations':
                    g = [(norm(tt), pol) for tt, pol in paths.flat_guards(x, stop=t)]
                    if ('bearer in self.pending_confirmations', True) not in g:
                        bad.append(p.loc(x))
    R.check(not bad, rule, 'bumble.gatt_server.Server._indicate_single_bearer | no entry resurrected', 'the slot is reset in `finally` only if the bearer still has an entry',
            'the `finally` clause writes pending_confirmations[bearer] after the bearer may have been torn down: an entry for the closed connection reappears in the table', bad[0] if bad else p.loc(ind))


def queued_waiters(ctx):
    """An operation that was queued on a per-bearer semaphore when the bearer went away does not start afterwards."""
    R, p = ctx.r, ctx.p
    rule = 'C16.queued-waiters'
    sr = p.find('bumble.gatt_client.Client.send_request')
    od = p.find('bumble.gatt_client.Client.on_disconnection')
    if sr is None or od is None:
        R.bad(rule, 'bumble.gatt_client.Client.send_request / on_disconnection', 'anchor missing')
        return
    withs = [w for w in ast.walk(sr) if isinstance(w, ast.AsyncWith) and any('request_semaphore' in norm(it.context_expr) for it in w.items)]
    flags = set()
    ok = len(withs) == 1
    if ok:
        w = withs[0]
        sends = [c for c in calls_in(w) if dotted(c.func) == 'self.send_gatt_pdu']
        first_send_stmt = None
        for s_ in w.body:
            if any(c is x for c in sends for x in ast.walk(s_)):
                first_send_stmt = s_
                break
        before = w.body[:w.body.index(first_send_stmt)] if first_send_stmt is not None else []
        for b_ in before:
            if isinstance(b_, ast.If) and b_.body and isinstance(b_.body[-1], (ast.Raise, ast.Return)):
                flags |= {dotted(x) for x in ast.walk(b_.test) if isinstance(x, ast.Attribute) and dotted(x) and dotted(x).startswith('self.')}
    set_in_teardown = {dotted(n.targets[0]) for n in walk_local(od) if isinstance(n, ast.Assign) and isinstance(n.value, ast.Constant) and n.value.value is True}
    R.check(ok and bool(flags & set_in_teardown), rule, 'bumble.gatt_client.Client.send_request | queued request after teardown', f'after obtaining the request semaphore a flag set by on_disconnection ({sorted(flags & set_in_teardown)}) is tested before anything is sent',
            'a request queued behind another one when the bearer closed proceeds after the teardown: it is sent into the closed connection and waits for the whole GATT timeout (only the in-flight request was cancelled)', p.loc(sr))
    # the HCI command queue of the host: a command that obtains the command semaphore after the transport was lost
    # (it was queued behind the pending one, or is issued later) is refused before anything is sent, and gives the semaphore back
    sc = p.find('bumble.host.Host._send_command')
    tl = p.find('bumble.host.Host.on_transport_lost')
    if sc is None or tl is None:
        R.bad(rule, 'bumble.host.Host._send_command / on_transport_lost', 'anchor missing')
    else:
        set_true = {dotted(n.targets[0]) for n in walk_local(tl) if isinstance(n, ast.Assign) and isinstance(n.value, ast.Constant) and n.value.value is True}
        acq = next((i for i, s_ in enumerate(sc.body) if 'self.command_semaphore.acquire()' in norm(s_)), None)
        snd = next((i for i, s_ in enumerate(sc.body) if any(dotted(c.func) == 'self.send_hci_packet' for c in calls_in(s_))), None)
        guard = None
        if acq is not None and snd is not None:
            for s_ in sc.body[acq + 1:snd]:
                if isinstance(s_, ast.If) and {dotted(x) for x in ast.walk(s_.test) if isinstance(x, ast.Attribute)} & set_true and s_.body and isinstance(s_.body[-1], ast.Raise):
                    guard = s_
        rel = guard is not None and any(dotted(c.func) == 'self.command_semaphore.release' for c in calls_in(guard))
        R.check(guard is not None and rel, rule, 'bumble.host.Host._send_command | command after transport loss', f'between obtaining the semaphore and sending, a flag set by on_transport_lost ({sorted(set_true)}) is tested: the command fails and the semaphore is released',
                'a command that obtains the command semaphore after the transport was lost is written to the dead transport and waits forever (no response can come, no timeout by default)', p.loc(sc))
    cancels = [c for c in calls_in(od) if call_attr(c) == 'cancel' and 'pending_response' in norm(c)]
    R.check(bool(cancels), rule, 'bumble.gatt_client.Client.on_disconnection | in-flight request', 'the in-flight request is cancelled', 'the in-flight request is not cancelled on disconnection', p.loc(od))


def pending_slots(ctx):
    """A manager-wide "request pending" slot holding a future is cleared on every exit of the coroutine that set it --
    also when the wait is cancelled because the connection went away -- so the next request (on any connection) is not
    refused as "already pending" for ever."""
    R, p = ctx.r, ctx.p
    rule = 'C16.pending-slots'
    n = 0
    for cq in ('bumble.l2cap.ChannelManager',):
        ci = p.cls(cq)
        if ci is None:
            R.bad(rule, cq, 'anchor missing')
            continue
        for name, m in sorted(ci.methods.items()):
            if not isinstance(m, ast.AsyncFunctionDef):
                continue
            slots = {dotted(n_.targets[0]) for n_ in walk_local(m) if isinstance(n_, ast.Assign) and len(n_.targets) == 1 and (dotted(n_.targets[0]) or '').startswith('self.') and 'create_future()' in norm(n_.value)}
            for slot in sorted(slots):
                n += 1

                class D(paths.Domain):
                    cancel_at_await = True   # the wait is cancelled when the connection goes away

                    def event(self, node, v):
                        if isinstance(node, ast.Assign) and dotted(node.targets[0]) == slot:
                            return ('clear' if norm(node.value) == 'None' else 'set',)
                        return (v,)
                res = paths.run(m, D(), 'unset')
                stuck = sorted({k for k, st in res.items() for v in st if v == 'set'})
                R.check(not stuck, rule, f'{cq}.{name} | {slot}', 'cleared on every exit after it was set (normal return, explicit raise, cancellation at the await)',
                        f'`{slot}` still holds the future on exit {stuck}: after a disconnection cancelled the wait, the slot keeps the dead connection\'s future and every later request on any connection is refused as already pending', p.loc(m))
    # Device.accept(): the pending-accept registration is taken back on every exceptional exit, cancellation included
    acc = p.find('bumble.device.Device.accept')
    if acc is None:
        R.bad(rule, 'bumble.device.Device.accept', 'anchor missing')
    else:
        class Reg(paths.Domain):
            cancel_at_await = True

            def event(self, node, v):
                if isinstance(node, ast.Await) and 'pending_request' in norm(node) and v == 'registered':
                    # the wait ended normally: whoever settled the future (on_connection_request / on_connection) took the entry out
                    return ('consumed',)
                if isinstance(node, ast.Assign) and isinstance(node.targets[0], ast.Subscript) and dotted(node.targets[0].value) == 'self.classic_pending_accepts':
                    return ('registered',)
                if isinstance(node, ast.Call) and isinstance(node.func, ast.Attribute) and 'self.classic_pending_accepts' in norm(node.func.value):
                    if node.func.attr == 'append':
                        return ('registered',)
                    if node.func.attr in ('pop', 'remove'):
                        return ('removed',)
                return (v,)
        res = paths.run(acc, Reg(), 'none')
        left = sorted({k for k, st in res.items() if k.startswith('raise') for v in st if v == 'registered'})
        n += 1
        R.check(any(v == 'registered' or v == 'removed' for st in res.values() for v in st) and not left, rule, 'bumble.device.Device.accept | classic_pending_accepts', 'the registration is removed on every exceptional exit (timeout, error, cancellation by flush or by the caller)',
                f'accept() leaves its entry in classic_pending_accepts on exit {left}: after a transport loss (or a cancelled caller) the next accept() for that address is refused as already pending', p.loc(acc))
    R.check(n >= 2, rule, 'manager-wide pending slots', f'{n} slot(s) analysed', 'no pending slot found')


def queue_waiters(ctx):
    """drain() waiters of a data queue are released when their connection is flushed (same rule as C04.drain)."""
    from . import c04
    c04.drain(ctx, rule='C16.queue-waiters')
    c04.flush_handle(ctx, rule='C16.queue-waiters')


def shared_state_rule(ctx):
    from ..shared_state import shared_state
    shared_state(ctx, 'C16.shared-state', ['bumble.host', 'bumble.device', 'bumble.gatt_server', 'bumble.gatt_client', 'bumble.l2cap', 'bumble.smp', 'bumble.controller'])


def iter_mutation_rule(ctx):
    from ..iter_mutation import iter_mutation
    iter_mutation(ctx, 'C16.iter-mutation', ['bumble.l2cap', 'bumble.device', 'bumble.host', 'bumble.gatt_server', 'bumble.gatt_client', 'bumble.smp', 'bumble.controller'])


def late_binding_rule(ctx):
    from ..late_binding import late_binding
    late_binding(ctx, 'C16.late-binding', ['bumble.device', 'bumble.host', 'bumble.l2cap', 'bumble.gatt_client', 'bumble.gatt_server', 'bumble.smp'])


def listeners_rule(ctx):
    from .. import generic_rules as g
    g.persistent_listeners(ctx, 'C16.listeners', ['bumble.l2cap.ChannelManager.host', 'bumble.device.Device.host'])


def exception_payloads_rule(ctx):
    from ..generic_rules import exception_payloads
    exception_payloads(ctx, 'C16.exception-payloads', ['bumble.device', 'bumble.host', 'bumble.l2cap', 'bumble.gatt_client', 'bumble.smp', 'bumble.rfcomm', 'bumble.avdtp', 'bumble.sdp'])


def sink_wrappers(ctx):
    """An object that installs itself as the packet sink of a transport source stands between the transport and the host:
    `BaseSource.on_transport_lost` only tells a sink that has `on_transport_lost`, so the wrapper must have it and pass it on."""
    R, p = ctx.r, ctx.p
    rule = 'C16.sink-wrappers'
    n = 0
    for mn, m in sorted(p.modules.items()):
        if not (mn.startswith('bumble.transport') or mn in ('bumble.host', 'bumble.controller', 'bumble.hci_bridge', 'bumble.bridge')):
            continue
        for cls in [x for x in ast.walk(m.tree) if isinstance(x, ast.ClassDef)]:
            methods = {f.name: f for f in cls.body if isinstance(f, FUNC)}
            reg = [c for f in methods.values() for c in calls_in(f) if call_attr(c) == 'set_packet_sink' and len(c.args) == 1 and dotted(c.args[0]) == 'self' and dotted(c.func.value) != 'self']
            if not reg or 'on_packet' not in methods:
                continue
            n += 1
            key = f'{mn}.{cls.name} | on_transport_lost'
            tl = methods.get('on_transport_lost')
            if tl is None:
                # host-like end points (no downstream sink) are the final consumer
                fwd = any(call_attr(c) == 'on_packet' and (dotted(c.func.value) or '').startswith('self.') for c in calls_in(methods['on_packet']))
                R.check(not fwd, rule, key, 'end point: consumes the packets itself', f'{cls.name} registers itself as the sink of a transport source and forwards packets to its own sink, but has no on_transport_lost: the loss of the transport stops here and the host keeps waiting for command responses', f'{m.rel}:{cls.lineno}')
                continue
            passes = any(call_attr(c) == 'on_transport_lost' and (dotted(c.func.value) or '').startswith('self.') for c in calls_in(tl)) or cls.name in ('Host',)
            R.check(passes, rule, key, 'forwards the loss to its own sink / handles it', f'{cls.name}.on_transport_lost does not pass the loss on to its sink', f'{m.rel}:{tl.lineno}')
    R.check(n >= 1, rule, 'bumble.transport | sink wrappers', f'{n} classes register themselves as a source\'s sink', 'no sink wrapper found (anchor moved)')


def one_shot_rule(ctx):
    from ..generic_rules import one_shot_iterators
    one_shot_iterators(ctx, 'C16.one-shot', ['bumble.device', 'bumble.host', 'bumble.gatt_server', 'bumble.gatt_client', 'bumble.smp'])


def dead_default_check_rule(ctx):
    from ..generic_rules import dead_default_check
    dead_default_check(ctx, 'C16.dead-default-check', ['bumble.host', 'bumble.gatt_server', 'bumble.l2cap', 'bumble.device'])


def uncalled_predicate_rule(ctx):
    from ..generic_rules import uncalled_predicate
    uncalled_predicate(ctx, 'C16.uncalled-predicate', ['bumble.device', 'bumble.host', 'bumble.l2cap', 'bumble.gatt_client', 'bumble.gatt_server', 'bumble.rfcomm'])


def settle_guard_rule(ctx):
    from ..generic_rules import settle_guard
    settle_guard(ctx, 'C16.settle-guard', ['bumble.l2cap.ClassicChannel', 'bumble.l2cap.LeCreditBasedChannel'])


def gone_connection(ctx):
    """An operation started on a connection that has already been disconnected can never be ended by that connection's
    'disconnection' event: it has to end at once.  (a) Connection.cancel_on_disconnection -- behind every
    "send the command, then wait for the completion event" procedure -- tests that the connection is still registered with
    its device and cancels the awaitable when it is not; (b) Device.disconnect refuses a link that is in none of the
    device's link tables before it registers its listeners."""
    R, p = ctx.r, ctx.p
    rule = 'C16.gone-connection'
    cod = p.find('bumble.device.Connection.cancel_on_disconnection')
    dis = p.find('bumble.device.Device.disconnect')
    if cod is None or dis is None:
        R.bad(rule, 'bumble.device.Connection.cancel_on_disconnection / Device.disconnect', 'anchor missing')
        return
    # identity, not membership: the controller recycles handles, so after a reconnection the closed object's handle is a key again
    tests = [n for n in walk_local(cod) if isinstance(n, ast.If) and any(isinstance(c_, ast.Compare) and len(c_.ops) == 1 and isinstance(c_.ops[0], (ast.Is, ast.IsNot)) and 'self.device.connections' in norm(c_.left) and norm(c_.comparators[0]) == 'self' for c_ in ast.walk(n.test))]
    cancels = [c for t in tests for c in calls_in(t) if call_attr(c) in ('cancel', 'set_exception')]
    R.check(bool(tests) and bool(cancels), rule, 'bumble.device.Connection.cancel_on_disconnection | already disconnected', 'an awaitable tied to a connection object that is no longer the one registered under its handle is cancelled at once',
            'cancel_on_disconnection does not test that *this object* is still registered (identity; handles are recycled) or only listens for a future `disconnection` event: when the Disconnection Complete was processed between the Command Status and this call, the listener is attached to a dead connection and the caller (get_remote_le_features, encrypt, authenticate, ...) waits for ever', p.loc(cod))
    first_reg = min([c.lineno for c in calls_in(dis) if call_attr(c) in ('on', 'once') and (dotted(c.func.value) or '') == 'connection'] or [10 ** 9])
    refuse = [n for n in walk_local(dis) if isinstance(n, ast.If) and n.lineno < first_reg and any(isinstance(x, ast.Raise) for x in n.body) and all(t in norm(n.test) for t in ('self.connections', 'self.sco_links', 'self.cis_links'))]
    R.check(bool(refuse), rule, 'bumble.device.Device.disconnect | link already gone', 'a link found in none of the device tables is refused before anything is sent',
            'Device.disconnect sends HCI_Disconnect for a link the host no longer knows: the controller\'s failure report for the unknown handle is dropped by the host and disconnect() waits for ever', p.loc(dis))


def lost_transport_senders(ctx):
    """After the transport is lost every sender of an HCI command ends with an error.  A sender first waits for the command
    semaphore and tests `transport_lost` only once it holds it; the semaphore may be locked with no command in flight (the
    controller answered with Num_HCI_Command_Packets = 0).  Host.on_transport_lost therefore fails the pending response if
    there is one, and otherwise releases a locked semaphore so that the waiting senders get in and fail."""
    R, p = ctx.r, ctx.p
    rule = 'C16.lost-transport-senders'
    fn = p.find('bumble.host.Host.on_transport_lost')
    sc = p.find('bumble.host.Host._send_command')
    if fn is None or sc is None:
        R.bad(rule, 'bumble.host.Host.on_transport_lost / _send_command', 'anchor missing')
        return
    fails = [c for c in calls_in(fn) if dotted(c.func) == 'self.pending_response.set_exception']
    rel = [c for c in calls_in(fn) if dotted(c.func) == 'self.command_semaphore.release']
    guarded = [c for c in rel if any(norm(t) == 'self.command_semaphore.locked()' and pol for t, pol in paths.flat_guards(c, stop=fn))]
    R.check(bool(fails) and bool(guarded), rule, 'bumble.host.Host.on_transport_lost | senders released', 'the pending response fails, and a semaphore locked with nothing in flight is released',
            'on_transport_lost fails the pending response but never releases a command semaphore that is locked with no command in flight (the controller had answered with zero command credits): every later send_command waits on acquire() for ever, and with it flush(), reset() and power_off()', p.loc(fn))
    # the senders do test the flag once they hold the semaphore
    tests = [n for n in walk_local(sc) if isinstance(n, ast.If) and norm(n.test) == 'self.transport_lost' and any(isinstance(x, ast.Raise) for x in n.body)]
    R.check(bool(tests), rule, 'bumble.host.Host._send_command | refuses after the loss', 'raises once it holds the semaphore when the transport is lost', '_send_command no longer refuses to send after the transport was lost', p.loc(sc))


def source_loss_reported(ctx):
    """A transport source that stops reading because the read failed records the failure in `terminated` AND reports the loss
    to its sink (on_transport_lost): the future alone is looked at by applications, the host learns about the loss only
    through its sink interface."""
    R, p = ctx.r, ctx.p
    rule = 'C16.source-loss-reported'
    n = 0
    for mn, m in sorted(p.modules.items()):
        if not mn.startswith('bumble.transport'):
            continue
        for c in [x for x in ast.walk(m.tree) if isinstance(x, ast.Call) and (dotted(x.func) or '') == 'self.terminated.set_exception']:
            n += 1
            blk = c
            while blk is not None and not isinstance(blk, (ast.ExceptHandler,) + FUNC):
                blk = getattr(blk, '_parent', None)
            told = [x for x in ast.walk(blk) if isinstance(x, ast.Call) and (dotted(x.func) or '') in ('self.on_transport_lost', 'self.sink.on_transport_lost')] if blk is not None else []
            R.check(bool(told), rule, f'{p.qual_of(c)} | terminated.set_exception', 'the sink is told as well', f'the read loop records its failure in `terminated` and stops without calling on_transport_lost: with this transport the host is never told that the link to the controller is gone (pending commands wait for ever, connections stay in the tables)', f'{m.rel}:{c.lineno}')
    R.check(n >= 1, rule, 'bumble.transport | failing read loops', f'{n} site(s) record a read failure', 'no site found (anchor moved)')


def loss_not_swallowed(ctx):
    """An `except` around an awaited HCI command that also catches TransportLostError (BaseBumbleError, Exception, bare) and
    carries on must not be followed by another wait: the one `flush` / loss notification has already been delivered, so a
    wait armed afterwards is never released."""
    R, p = ctx.r, ctx.p
    rule = 'C16.loss-not-swallowed'
    SEND = ('send_command', 'send_sync_command', 'send_async_command', 'send_sync_command_raw')
    COVER = ('BaseBumbleError', 'Exception', 'BaseException', '<bare>', 'TransportLostError')
    n = 0
    for mn in ('bumble.device', 'bumble.host'):
        m = p.modules.get(mn)
        if m is None:
            R.bad(rule, mn, 'anchor missing')
            continue
        for fn in [x for x in ast.walk(m.tree) if isinstance(x, FUNC)]:
            for t in [x for x in walk_local(fn) if isinstance(x, ast.Try)]:
                if not any(isinstance(x, ast.Await) and isinstance(x.value, ast.Call) and call_attr(x.value) in SEND for s_ in t.body for x in ast.walk(s_)):
                    continue
                n += 1
                for h in t.handlers:
                    names = ['<bare>'] if h.type is None else [norm(e).split('.')[-1] for e in (h.type.elts if isinstance(h.type, ast.Tuple) else [h.type])]
                    if not set(names) & set(COVER) or any(isinstance(x, (ast.Raise, ast.Return)) for x in ast.walk(h)):
                        continue
                    end = getattr(t, 'end_lineno', t.lineno)
                    later = [x for x in walk_local(fn) if isinstance(x, ast.Await) and x.lineno > end and not (isinstance(x.value, ast.Call) and call_attr(x.value) in SEND)]  # a command sent after the loss fails at once
                    R.check(not later, rule, f'{p.qual_of(t)} | except {"/".join(names)}', 'nothing is awaited after the swallowed failure', f'the failure of the command (a lost transport included: TransportLostError is a {"/".join(names)}) is swallowed and the function then waits again (`{norm(later[0])[:60] if later else ""}`): after a transport loss that wait is armed when the flush has already been emitted, and the caller hangs', f'{m.rel}:{h.lineno}')
    R.check(n >= 5, rule, 'bumble.device, bumble.host | try blocks around awaited commands', f'{n}', f'only {n} found')


def pending_table_scope(ctx):
    """pending_credit_based_connections is keyed by connection handle, then by request identifier: a request that ends
    removes its own entry of the inner table; the whole per-connection table is dropped only when the connection goes
    (on_disconnection, which cancels every waiter in it first)."""
    R, p = ctx.r, ctx.p
    rule = 'C16.pending-table-scope'
    ci = p.cls('bumble.l2cap.ChannelManager')
    if ci is None:
        R.bad(rule, 'bumble.l2cap.ChannelManager', 'anchor missing')
        return
    n = 0
    for name, fn in sorted(ci.methods.items()):
        rm = [c for c in calls_in(fn) if call_attr(c) in ('pop', 'clear', 'popitem') and dotted(c.func.value) == 'self.pending_credit_based_connections']
        rm += [d for d in walk_local(fn) if isinstance(d, ast.Delete) and any(isinstance(t, ast.Subscript) and dotted(t.value) == 'self.pending_credit_based_connections' for t in d.targets)]
        for c in rm:
            n += 1
            R.check(name == 'on_disconnection', rule, f'bumble.l2cap.ChannelManager.{name} | drops a per-connection table', 'only when the connection goes', f'{name} removes the whole table of pending requests of the connection (`{norm(c)[:60]}`): the other requests still waiting on that connection are forgotten and on_disconnection / a transport loss no longer releases them', p.loc(c))
    R.check(n >= 1, rule, 'bumble.l2cap.ChannelManager | outer-table removals', f'{n} (on_disconnection)', 'none found')


def subscription_of_live_bearer(ctx):
    """Write requests are processed in spawned tasks, i.e. possibly after Server.on_disconnection() has removed the bearer's
    state: whatever creates an entry of `subscribers` first checks that the bearer's connection is still the device's
    connection for that handle."""
    R, p = ctx.r, ctx.p
    rule = 'C16.subscription-of-live-bearer'
    ci = p.cls('bumble.gatt_server.Server')
    if ci is None:
        R.bad(rule, 'bumble.gatt_server.Server', 'anchor missing')
        return
    n = 0
    for name, fn in sorted(ci.methods.items()):
        sites = [c for c in calls_in(fn) if call_attr(c) == 'setdefault' and dotted(c.func.value) == 'self.subscribers']
        sites += [s_ for s_ in walk_local(fn) if isinstance(s_, ast.Assign) and isinstance(s_.targets[0], ast.Subscript) and dotted(s_.targets[0].value) == 'self.subscribers']
        for c in sites:
            n += 1
            live = False
            for t, pol in paths.flat_guards(c, stop=fn):
                if isinstance(t, ast.Compare) and len(t.ops) == 1 and 'lookup_connection' in norm(t):
                    live = live or (isinstance(t.ops[0], ast.Is) and pol) or (isinstance(t.ops[0], ast.IsNot) and not pol)
            R.check(live, rule, f'bumble.gatt_server.Server.{name} | creates a subscribers entry', 'only for a bearer whose connection is still registered with the device', f'{name} creates `subscribers[bearer]` without checking that the link still exists: a CCCD write whose task runs after the Disconnection Complete was processed re-creates the state of the closed bearer, which is then never removed', p.loc(c))
    R.check(n >= 1, rule, 'bumble.gatt_server.Server | subscribers entry creations', f'{n}', 'none found')
    dis = ci.methods.get('on_disconnection')
    R.check(dis is not None and any(call_attr(c) == 'pop' and dotted(c.func.value) == 'self.subscribers' for c in calls_in(dis)), rule, 'bumble.gatt_server.Server.on_disconnection | removes the entry', 'subscribers.pop(bearer)', 'on_disconnection no longer removes the subscribers entry', p.loc(dis) if dis is not None else '')


def loss_reaches_sink(ctx):
    """BaseSource.on_transport_lost() tells its sink on every path: some callers settle `terminated` themselves (with the
    error) before they call it, so the state of that future must not decide whether the sink (the Host) is told."""
    R, p = ctx.r, ctx.p
    rule = 'C16.loss-reaches-sink'
    fn = p.find('bumble.transport.common.BaseSource.on_transport_lost')
    if fn is None:
        R.bad(rule, 'bumble.transport.common.BaseSource.on_transport_lost', 'anchor missing')
        return

    class D(paths.Domain):
        def event(self, node, v):
            if isinstance(node, ast.Call) and dotted(node.func) == 'self.sink.on_transport_lost':
                return ('told',)
            return (v,)

        def assume(self, atom, truth, v):
            t = norm(atom)
            if t == 'self.sink' and not truth:
                return ('nobody',)
            if t.startswith('hasattr(self.sink') and not truth:
                return ('nobody',)
            return (v,)
    res = paths.run(fn, D(), 'silent')
    bad = [f'{k} via {" ".join(w)}' for k, st in res.items() if not k.startswith('raise') for v, w in st.items() if v == 'silent']
    R.check(bool(res) and not bad, rule, 'bumble.transport.common.BaseSource.on_transport_lost', 'the sink is told on every path on which there is one', f'a path returns without telling the sink ({bad[:1]}): a source that has already settled `terminated` itself (PumpedPacketSource sets the read error first) never reports the loss - pending commands, connections and queued packets of the host wait for ever', p.loc(fn))


def cancel_dispatch(ctx):
    """utils.cancel_on_event releases the waiter according to what the ensured future *is*: a Task is cancelled, a plain
    Future gets the CancelledError set (Task.set_exception raises RuntimeError - inside the emit of the disconnection, which
    then never reaches the other listeners and the clean-up behind it)."""
    R, p = ctx.r, ctx.p
    rule = 'C16.cancel-dispatch'
    fn = p.find('bumble.utils.cancel_on_event')
    if fn is None:
        R.bad(rule, 'bumble.utils.cancel_on_event', 'anchor missing')
        return
    sets = [c for c in ast.walk(fn) if isinstance(c, ast.Call) and call_attr(c) == 'set_exception']
    R.check(len(sets) >= 1, rule, 'bumble.utils.cancel_on_event | set_exception', f'{len(sets)} site(s)', 'no set_exception site (anchor)', p.loc(fn))
    for c in sets:
        tgt = norm(c.func.value)
        g = [(norm(t), pol) for t, pol in paths.flat_guards(c)]
        ok = (f'isinstance({tgt}, asyncio.Task)', False) in g
        R.check(ok, rule, f'bumble.utils.cancel_on_event | {tgt}.set_exception', f'only when {tgt} is not a Task', f'`{tgt}.set_exception(...)` is reached under {g}: for a waiter that is a Task (a caller passed a task it had created) this raises RuntimeError inside the event emission - the waiter is not released and the listeners after it (table clean-up, queue flush) never run', p.loc(c))


def sink_chain(ctx):
    """BaseSource.on_transport_lost() notifies `self.sink`: every override of set_packet_sink in a subclass of BaseSource
    still records the sink there (chains to super() or assigns self.sink), or the Host is never told that its transport is
    gone."""
    R, p = ctx.r, ctx.p
    rule = 'C16.sink-chain'
    n = 0
    for cn, ci in sorted(p.classes.items()):
        if not cn.startswith('bumble.transport') or 'set_packet_sink' not in ci.methods:
            continue
        if not any(x.qual == 'bumble.transport.common.BaseSource' for x in p.mro(cn)[1:]):
            continue
        n += 1
        fn = ci.methods['set_packet_sink']
        ok = any(isinstance(c.func, ast.Attribute) and c.func.attr == 'set_packet_sink' and isinstance(c.func.value, ast.Call) and dotted(c.func.value.func) == 'super' for c in calls_in(fn)) or any(isinstance(s_, ast.Assign) and dotted(s_.targets[0]) == 'self.sink' for s_ in walk_local(fn))
        R.check(ok, rule, f'{cn}.set_packet_sink', 'records the sink in BaseSource too', f'{ci.name}.set_packet_sink does not chain to BaseSource: `self.sink` stays None, so on_transport_lost() tells nobody - pending commands, connections and queued packets of the host wait for ever after the transport died', p.loc(fn))
    R.check(n >= 1, rule, 'bumble.transport | set_packet_sink overrides', f'{n}', 'none found (anchor)')


def cis_follow_acl(ctx):
    """A CIS is carried by an ACL: when the virtual controller removes an LE ACL (both ways: the peer\'s TERMINATE_IND and
    the local Disconnect go through on_le_disconnected) it concludes every CIS whose acl_connection is that ACL through
    on_le_cis_disconnected, which reports the Disconnection Complete that makes host and device drop the link."""
    R, p = ctx.r, ctx.p
    rule = 'C16.cis-follow-acl'
    fn = p.find('bumble.controller.Controller.on_le_disconnected')
    if fn is None:
        R.bad(rule, 'bumble.controller.Controller.on_le_disconnected', 'anchor missing')
        return
    loops = [l for l in walk_local(fn) if isinstance(l, (ast.For, ast.AsyncFor)) and 'cis_links' in norm(l.iter)]
    both = any('central_cis_links' in norm(l.iter) for l in loops) and any('peripheral_cis_links' in norm(l.iter) for l in loops)
    concl = [c for l in loops for c in calls_in(l) if dotted(c.func) == 'self.on_le_cis_disconnected']
    guarded = bool(concl) and all(any('acl_connection' in norm(t) and 'connection' in norm(t) for t, pol in paths.flat_guards(c, stop=fn)) for c in concl)
    R.check(both and guarded, rule, 'bumble.controller.Controller.on_le_disconnected', 'concludes the CISes of the ACL (central and peripheral tables)', 'the CIS links carried by a disconnected ACL are not concluded: they stay in the controllers\' CIS tables, no Disconnection Complete is sent for them and Host.cis_links / Device.cis_links keep them after their connection is gone', p.loc(fn))
    callers = [p.qual_of(c) for m_ in [p.modules.get('bumble.controller')] if m_ is not None for c in ast.walk(m_.tree) if isinstance(c, ast.Call) and dotted(c.func) == 'self.on_le_disconnected']
    R.check(len(callers) >= 2, rule, 'bumble.controller | ACL removals', f'{len(callers)} sites go through on_le_disconnected', f'only {len(callers)} callers found', p.loc(fn))
    dels = [d for m_ in [p.modules.get('bumble.controller')] if m_ is not None for d in ast.walk(m_.tree) if isinstance(d, ast.Delete) and any('le_connections' in norm(t) for t in d.targets)]
    # (a branch for a controller without a link is never taken: C03's census shows Controller.link is never None)
    outside = [d for d in dels if p.qual_of(d) != 'bumble.controller.Controller.on_le_disconnected' and not any(norm(t) in ('self.link', 'self.link is not None') and not pol for t, pol in paths.flat_guards(d))]
    R.check(not outside, rule, 'bumble.controller | le_connections removals', 'only on_le_disconnected deletes an LE connection', f'{[p.qual_of(d) for d in outside]} delete LE connections without concluding their CISes', p.loc(outside[0]) if outside else '')


def semaphore_identity(ctx):
    """_indicate_single_bearer detects a bearer closed while it waited for its turn by looking the bearer\'s semaphore up
    again: `indication_semaphores.get(bearer)` without a default - on_disconnection pops the entry, so None is not the
    semaphore held.  A default equal to the held semaphore makes the test vacuous."""
    R, p = ctx.r, ctx.p
    rule = 'C16.semaphore-identity'
    fn = p.find('bumble.gatt_server.Server._indicate_single_bearer')
    if fn is None:
        R.bad(rule, 'bumble.gatt_server.Server._indicate_single_bearer', 'anchor missing')
        return
    tests = [c for c in ast.walk(fn) if isinstance(c, ast.Compare) and isinstance(c.ops[0], (ast.Is, ast.IsNot)) and 'indication_semaphores' in norm(c.left)]
    R.check(len(tests) >= 1, rule, 'bumble.gatt_server.Server._indicate_single_bearer | closed-bearer test', f'{len(tests)} test(s)', 'the closed-bearer test is gone', p.loc(fn))
    for t in tests:
        call = t.left if isinstance(t.left, ast.Call) else None
        ok = call is not None and call_attr(call) == 'get' and len(call.args) == 1 and not call.keywords
        R.check(ok, rule, 'bumble.gatt_server.Server._indicate_single_bearer | lookup without default', 'get(bearer)', f'`{norm(t)[:70]}`: after on_disconnection() has removed the entry the lookup yields the default, i.e. the very semaphore that is held - the test never fires, the indication re-creates the closed bearer\'s pending state and waits 30 s for a confirmation that cannot come', p.loc(t))


def disconnect_guard_identity(ctx):
    """Device.disconnect refuses a link object that is no longer the one registered under its handle (handles are reused:
    a stale Connection object must not disconnect the new link that got the same handle and then wait for an event that the
    old object never emits): the guard compares objects, not just handles."""
    R, p = ctx.r, ctx.p
    rule = 'C16.disconnect-guard-identity'
    fn = p.find(f'{DEV}.disconnect')
    if fn is None:
        R.bad(rule, f'{DEV}.disconnect', 'anchor missing')
        return
    guards = [i_ for i_ in walk_local(fn) if isinstance(i_, ast.If) and any(isinstance(x, ast.Raise) for x in i_.body) and 'connection' in norm(i_.test)]
    R.check(len(guards) >= 1, rule, f'{DEV}.disconnect | stale-link guard', f'{len(guards)} guard(s)', 'no guard raising for a link that is gone', p.loc(fn))
    for g in guards[:1]:
        t = g.test
        by_object = any(isinstance(c, ast.Compare) and isinstance(c.ops[0], (ast.In, ast.NotIn, ast.Is, ast.IsNot)) and norm(c.left) == 'connection' for c in ast.walk(t))
        by_handle_only = any(isinstance(c, ast.Compare) and isinstance(c.ops[0], (ast.In, ast.NotIn)) and norm(c.left) == 'connection.handle' for c in ast.walk(t))
        R.check(by_object and not by_handle_only, rule, f'{DEV}.disconnect | guard compares the object', 'the link object itself is looked up', f'the guard `{norm(t)[:80]}` only tests that the handle is in use: a stale link object whose handle has been given to a new connection passes, HCI_Disconnect tears down the new link and the caller waits for ever on the old object', p.loc(g))


RULES = [
    ('C16.disconnect-guard-identity', disconnect_guard_identity),
    ('C16.semaphore-identity', semaphore_identity),
    ('C16.cis-follow-acl', cis_follow_acl),
    ('C16.sink-chain', sink_chain),
    ('C16.cancel-dispatch', cancel_dispatch),
    ('C16.loss-reaches-sink', loss_reaches_sink),
    ('C16.subscription-of-live-bearer', subscription_of_live_bearer),
    ('C16.pending-table-scope', pending_table_scope),
    ('C16.loss-not-swallowed', loss_not_swallowed),
    ('C16.source-loss-reported', source_loss_reported),
    ('C16.lost-transport-senders', lost_transport_senders),
    ('C16.gone-connection', gone_connection),
    ('C16.settle-guard', settle_guard_rule),
    ('C16.uncalled-predicate', uncalled_predicate_rule),
    ('C16.dead-default-check', dead_default_check_rule),
    ('C16.one-shot', one_shot_rule),
    ('C16.sink-wrappers', sink_wrappers),
    ('C16.exception-payloads', exception_payloads_rule),
    ('C16.iter-mutation', iter_mutation_rule),
    ('C16.listeners', listeners_rule),
    ('C16.late-binding', late_binding_rule),
    ('C16.shared-state', shared_state_rule),
    ('C16.queue-waiters', queue_waiters),
    ('C16.pending-slots', pending_slots),
    ('C16.queued-waiters', queued_waiters),
    ('C16.pending-indication', pending_indication),
    ('C16.device-cleanup', device_cleanup),
    ('C16.smp-sessions', smp_sessions),
    ('C16.parity', parity),
    ('C16.variants', variants),
    ('C16.controller-tables', controller_tables),
    ('C16.waiters', waiters_rule),
]

VARIANTS = [
    ('transport loss only flushes', 'bumble/host.py',
     "        for handle in [*self.connections, *self.cis_links, *self.sco_links]:\n            self.on_disconnection(\n                handle, hci.HCI_CONNECTION_TERMINATED_BY_LOCAL_HOST_ERROR\n            )\n\n", "", 'fire', 'C16.parity'),
    ('queues flushed through a lookup after the pop', 'bumble/host.py',
     "        if self.acl_packet_queue:\n            self.acl_packet_queue.flush(handle)\n        if self.le_acl_packet_queue:\n            self.le_acl_packet_queue.flush(handle)\n        if self.iso_packet_queue:\n            self.iso_packet_queue.flush(handle)\n\n    def on_hci_le_connection_update_complete_event(",
     "        if packet_queue := self.get_data_packet_queue(handle):\n            packet_queue.flush(handle)\n\n    def on_hci_le_connection_update_complete_event(", 'fire', 'C16.parity'),
    ('device forgets the gatt server', 'bumble/device.py', "            # Cleanup subsystems that maintain per-connection state\n            self.gatt_server.on_disconnection(connection)\n", "", 'fire', 'C16.'),
    ('eatt close hook removed', 'bumble/gatt_server.py', "            channel.once(channel.EVENT_CLOSE, lambda: self.on_disconnection(channel))\n", "", 'fire', 'C16.variants'),
    ('LE channel abort guards everything by state', 'bumble/l2cap.py',
     '        was_open = self.state in (self.State.CONNECTED, self.State.DISCONNECTING)\n        if was_open:\n            self.manager.on_channel_closed(self)\n        if self.connection_result is not None:',
     '        was_open = self.state in (self.State.CONNECTED, self.State.DISCONNECTING)\n        if not was_open:\n            return\n        self.manager.on_channel_closed(self)\n        if self.connection_result is not None:', 'fire', 'C16.waiters'),
    ('sdp request awaits bare again', 'bumble/sdp.py', "                return await self.connection.cancel_on_disconnection(\n                    self.pending_response\n                )\n", "                return await self.pending_response\n", 'fire', 'C16.waiters'),
    ('gatt client no longer cancels the pending request', 'bumble/gatt_client.py', "        if self.pending_response and not self.pending_response.done():\n            self.pending_response.cancel()\n", "        pass\n", 'fire', 'C16.parity'),
    ('controller keeps the LE connection', 'bumble/controller.py', "        del self.le_connections[connection.peer_address]\n\n    def create_le_connection", "\n    def create_le_connection", 'fire', 'C16.controller-tables'),
    ('benign: log text', 'bumble/host.py', "            logger.warning('!!! DISCONNECTION COMPLETE: unknown handle')\n", "            logger.warning('!!! disconnection complete for an unknown handle')\n", 'silent', ''),
    ('completed session survives its link', 'bumble/smp.py', "        self.manager.on_session_end(self)\n\n    def on_peer_key_distribution_complete", "        if not self.completed:\n            self.manager.on_session_end(self)\n\n    def on_peer_key_distribution_complete", 'fire', 'C16.smp-sessions'),
]
