"""C14 — both crypto back ends agree with each other and with the specification."""
from __future__ import annotations

import ast

from .. import paths
from ..core import FUNC, call_attr, calls_in, const, dotted, is_const, kwarg, norm, slice_parts, text, walk_local

EXPLANATION = [
    "C14.builtin-standalone: bumble.crypto.builtin imports nothing from the bumble.crypto package (it is imported from the package's own ImportError fallback).",
    'C14.unsigned-reads: every integer conversion of the SMP toolbox in bumble/crypto/__init__.py (int.from_bytes / to_bytes, struct formats) is unsigned.',
    'C14.coordinates-mod-p: no arithmetic expression of the built-in elliptic-curve code combines the group order n with a point coordinate (coordinates are mod p).',
    'C14.jacobian-z: every _JacobianPoint(...) construction passes z explicitly (the default z=0 is the point at infinity) and the generator is built with z=1.',
    'C14.public-key-siblings: EccKey.y of the pure-Python back end is computed exactly like EccKey.x (the other coordinate of the same generate_public_key result), not recovered through a square root.',
    'C14.jacobian-double: in the pure-Python back end _JacobianPoint.double returns the point at infinity exactly under `self.z == 0 or self.y == 0`: x does not take part in the degenerate test.',
    'C14.dh-validates: in both back ends every return of EccKey.dh follows the validated ECDH computation on the coordinates it was given (path rule), and dh stores nothing on the key object (no result cache that could answer before validation).',
    'C14.jacobian-add: in _JacobianPoint.__add__ every assignment of U1, U2, S1, S2 is the polynomial X1*Z2^2, X2*Z1^2, Y1*Z2^3, Y2*Z1^3 (compared as polynomials, modulo p); an unscaled shortcut is accepted only under the guard that the other operand has Z = 1.',
    'C14.scalar-range: any guard the built-in back end puts on a private scalar (from_private_key_bytes) accepts the whole range [1, n-1] (range(a, b) needs a <= 1 and b >= n; comparisons with n must not refuse n - 1), so both back ends derive a key for every valid scalar.',
    'C14.reject-then-leave: when the SMP session rejects a peer value (e.g. a public key that is not on the curve) it stops: no key is derived and nothing more is sent on that path (same rule as C13.fail-then-leave).',
    'C14.scalar-mult: the built-in double-and-add loop runs until the scalar is exhausted (or for at least bit_length(group order) iterations) and its body is one conditional add on the low bit, one doubling, one one-bit shift.',
    'C14.curve: the P-256 parameters in the built-in back end equal the NIST values and the generator satisfies the curve equation.',
    'C14.aes-tables: the AES S-box equals FIPS-197 (recomputed in the checker from the field inverse and affine map), S_INV is its '
    'inverse, and every entry of T1..T8, U1..U4 and RCON equals its definition (about 3400 constants).',
    'C14.validate: on the path from EccKey.dh to the scalar multiplication the peer point is tested against the curve equation '
    'y^2 = x^3 + a x + b (mod p) (compared as a polynomial) and range, and the failing branch raises before the multiplication.',
    'C14.cmac-subkeys: both CMAC sub-key derivations test the most significant bit of their input and apply Rb in the true branch.',
    'C14.api-parity: both back ends expose e, aes_cmac and EccKey.{generate, from_private_key_bytes, x, y, dh} with the same '
    'parameters and byte-order conventions; the toolbox picks one of them.',
    'C14.rpa-layout: hash||prand written by generate_private_address is what AddressResolver.resolve slices; prand bits make the address '
    'resolvable (known-bits argument); the resolver tries every key before giving up.',
    'Not decided: equality of results on all inputs and on the specification vectors (numerical values).',
]
ASSUMPTIONS = ['the cryptography library validates public points (EllipticCurvePublicNumbers.public_key())']

B = 'bumble.crypto.builtin'

NIST = {
    'p': 0xFFFFFFFF00000001000000000000000000000000FFFFFFFFFFFFFFFFFFFFFFFF,
    'a': 0xFFFFFFFF00000001000000000000000000000000FFFFFFFFFFFFFFFFFFFFFFFC,
    'b': 0x5AC635D8AA3A93E7B3EBBD55769886BC651D06B0CC53B0F63BCE3C3E27D2604B,
    'n': 0xFFFFFFFF00000000FFFFFFFFFFFFFFFFBCE6FAADA7179E84F3B9CAC2FC632551,
    'g_x': 0x6B17D1F2E12C4247F8BCE6E563A440F277037D812DEB33A0F4A13945D898C296,
    'g_y': 0x4FE342E2FE1A7F9B8EE7EB4A7C0F9E162BCE33576B315ECECBB6406837BF51F5,
}


def curve(ctx):
    R, p = ctx.r, ctx.p
    rule = 'C14.curve'
    fn = p.find(f'{B}._EllipticCurve.SECP256R1')
    if fn is None:
        R.bad(rule, f'{B}._EllipticCurve.SECP256R1', 'anchor missing')
        return
    vals = {dotted(n.targets[0]): const(n.value) for n in walk_local(fn) if isinstance(n, ast.Assign) and is_const(n.value)}
    for k, v in NIST.items():
        R.check(vals.get(k) == v, rule, f'{B}._EllipticCurve.SECP256R1.{k}', 'equals the NIST P-256 value', f'{k} = {vals.get(k, 0):#x} differs from the NIST P-256 parameter', p.loc(fn))
    if all(k in vals for k in NIST):
        on = (vals['g_y'] ** 2 - (vals['g_x'] ** 3 + vals['a'] * vals['g_x'] + vals['b'])) % vals['p'] == 0
        R.check(on, rule, f'{B}._EllipticCurve.SECP256R1 | generator on curve', 'g_y^2 = g_x^3 + a g_x + b (mod p)', 'the generator does not satisfy the curve equation', p.loc(fn))
    ret = [r for r in walk_local(fn) if isinstance(r, ast.Return)]
    ok = ret and isinstance(ret[0].value, ast.Call) and all(k.arg == norm(k.value) for k in ret[0].value.keywords) and {k.arg for k in ret[0].value.keywords} == set(NIST)
    R.check(ok, rule, f'{B}._EllipticCurve.SECP256R1 | binding', 'each parameter passed under its own name', 'curve parameters are passed to the constructor under different names', p.loc(fn))


# -- AES reference tables (FIPS-197), computed here ---------------------------
def _xtime(a):
    a <<= 1
    return (a ^ 0x11B) & 0xFF if a & 0x100 else a


def _mul(a, b):
    r = 0
    while b:
        if b & 1:
            r ^= a
        a = _xtime(a)
        b >>= 1
    return r


def _sbox():
    inv = [0] * 256
    for x in range(1, 256):
        for y in range(1, 256):
            if _mul(x, y) == 1:
                inv[x] = y
                break
    s = []
    for x in range(256):
        b = inv[x]
        r = b
        for i in range(1, 5):
            r ^= ((b << i) | (b >> (8 - i))) & 0xFF
        s.append(r ^ 0x63)
    return s


def _w(a, b, c, d):
    return a << 24 | b << 16 | c << 8 | d


def _rot(w, k):
    k *= 8
    return ((w >> k) | (w << (32 - k))) & 0xFFFFFFFF


def aes_tables(ctx):
    R, p = ctx.r, ctx.p
    rule = 'C14.aes-tables'
    ci = p.cls(f'{B}._AES')
    if ci is None:
        R.bad(rule, f'{B}._AES', 'anchor missing')
        return
    tabs = {}
    for k, v in ci.assigns.items():
        if isinstance(v, ast.List):
            try:
                tabs[k] = list(const(v))
            except Exception:
                pass
    S = _sbox()
    SI = [0] * 256
    for i, v in enumerate(S):
        SI[v] = i
    ref = {'_S': S, '_S_INV': SI}
    t1 = [_w(_mul(s, 2), s, s, _mul(s, 3)) for s in S]
    t5 = [_w(_mul(s, 14), _mul(s, 9), _mul(s, 13), _mul(s, 11)) for s in SI]
    u1 = [_w(_mul(x, 14), _mul(x, 9), _mul(x, 13), _mul(x, 11)) for x in range(256)]
    for i, name in enumerate(('_T1', '_T2', '_T3', '_T4')):
        ref[name] = [_rot(w, i) for w in t1]
    for i, name in enumerate(('_T5', '_T6', '_T7', '_T8')):
        ref[name] = [_rot(w, i) for w in t5]
    for i, name in enumerate(('_U1', '_U2', '_U3', '_U4')):
        ref[name] = [_rot(w, i) for w in u1]
    total = 0
    for name, want in ref.items():
        got = tabs.get(name)
        if got is None:
            R.bad(rule, f'{B}._AES.{name}', f'anchor missing: table {name}')
            continue
        diff = [i for i in range(min(len(got), len(want))) if got[i] != want[i]]
        total += len(got)
        R.check(len(got) == 256 and not diff, rule, f'{B}._AES.{name}', '256 entries equal to their FIPS-197 definition', f'{name}: {len(diff)} entr{"y" if len(diff) == 1 else "ies"} differ from the definition (first at index {diff[0] if diff else "-"}), length {len(got)}', p.loc(ci.node))
    rc = tabs.get('_RCON')
    if rc is None:
        R.bad(rule, f'{B}._AES._RCON', 'anchor missing')
    else:
        want = [1]
        while len(want) < len(rc):
            want.append(_xtime(want[-1]))
        R.check(rc == want and len(rc) >= 10, rule, f'{B}._AES._RCON', f'{len(rc)} round constants = successive doublings in GF(2^8)', 'round constants differ from x^(i-1) in GF(2^8)', p.loc(ci.node))
        total += len(rc)
    nr = ci.assigns.get('_NUMBER_OF_ROUNDS')
    R.check(nr is not None and norm(nr) == '{16: 10, 24: 12, 32: 14}', rule, f'{B}._AES._NUMBER_OF_ROUNDS', '10/12/14 rounds', 'round counts changed', p.loc(ci.node))
    R.extra['aes_constants_checked'] = total


# -- polynomial normal form ---------------------------------------------------
def _poly(e, env):
    """AST -> {monomial(tuple of sorted names): coeff} ; names mapped through env."""
    if isinstance(e, ast.Constant) and isinstance(e.value, int):
        return {(): e.value}
    if isinstance(e, (ast.Name, ast.Attribute)):
        n = env.get(norm(e), norm(e))
        return {(n,): 1}
    if isinstance(e, ast.UnaryOp) and isinstance(e.op, ast.USub):
        return {k: -v for k, v in _poly(e.operand, env).items()}
    if isinstance(e, ast.BinOp):
        if isinstance(e.op, ast.Pow) and isinstance(e.right, ast.Constant):
            base = _poly(e.left, env)
            out = {(): 1}
            for _ in range(e.right.value):
                out = _pmul(out, base)
            return out
        l, r = _poly(e.left, env), _poly(e.right, env)
        if isinstance(e.op, ast.Add):
            return _padd(l, r, 1)
        if isinstance(e.op, ast.Sub):
            return _padd(l, r, -1)
        if isinstance(e.op, ast.Mult):
            return _pmul(l, r)
    raise ValueError(norm(e))


def _padd(a, b, s):
    out = dict(a)
    for k, v in b.items():
        out[k] = out.get(k, 0) + s * v
    return {k: v for k, v in out.items() if v}


def _pmul(a, b):
    out = {}
    for k1, v1 in a.items():
        for k2, v2 in b.items():
            k = tuple(sorted(k1 + k2))
            out[k] = out.get(k, 0) + v1 * v2
    return {k: v for k, v in out.items() if v}


def validate(ctx):
    R, p = ctx.r, ctx.p
    rule = 'C14.validate'
    fn = p.find(f'{B}._EllipticCurve.ecdh_shared_secret')
    dh = p.find(f'{B}.EccKey.dh')
    if fn is None or dh is None:
        R.bad(rule, f'{B}._EllipticCurve.ecdh_shared_secret', 'anchor missing')
        return
    R.check('self.private_key.curve.ecdh_shared_secret(' in norm(dh) and '_Point(x=x, y=y, curve=self.private_key.curve)' in norm(dh), rule, f'{B}.EccKey.dh', 'the peer coordinates go to ecdh_shared_secret as a point of this curve', 'EccKey.dh does not route the peer point through ecdh_shared_secret', p.loc(dh))
    # scalar multiplication statement
    mult = [n for n in walk_local(fn) if isinstance(n, ast.Assign) and isinstance(n.value, ast.BinOp) and isinstance(n.value.op, ast.Mult) and 'private_key' in norm(n.value)]
    if not mult:
        R.bad(rule, f'{B}._EllipticCurve.ecdh_shared_secret | multiplication', 'scalar multiplication not found', p.loc(fn))
        return
    # local aliases x, y
    env = {}
    for n in walk_local(fn):
        if isinstance(n, ast.Assign) and isinstance(n.targets[0], ast.Tuple) and isinstance(n.value, ast.Tuple):
            for t, v in zip(n.targets[0].elts, n.value.elts):
                env[norm(t)] = norm(v).split('.')[-1]
        elif isinstance(n, ast.Assign) and isinstance(n.targets[0], ast.Name) and isinstance(n.value, ast.Attribute):
            env[norm(n.targets[0])] = norm(n.value).split('.')[-1]
    env.update({'self.a': 'a', 'self.b': 'b', 'other_public_key.x': 'x', 'other_public_key.y': 'y'})
    guards = paths.flat_guards(mult[0])
    want = {('y', 'y'): 1, ('x', 'x', 'x'): -1, ('a', 'x'): -1, ('b',): -1}
    found_eq = False
    ranged = set()
    for a, pol in guards:
        if not pol and isinstance(a, ast.Compare) and len(a.ops) == 1 and isinstance(a.ops[0], ast.NotEq) and norm(a.comparators[0]) == '0' and isinstance(a.left, ast.BinOp) and isinstance(a.left.op, ast.Mod) and norm(a.left.right) == 'self.p':
            try:
                poly = _poly(a.left.left, env)
                if poly == want or poly == {k: -v for k, v in want.items()}:
                    found_eq = True
            except ValueError:
                pass
        if pol and isinstance(a, ast.Compare) and len(a.ops) == 2 and norm(a.left) == '0' and isinstance(a.ops[0], ast.LtE) and isinstance(a.ops[1], ast.Lt) and norm(a.comparators[1]) == 'self.p':
            ranged.add(env.get(norm(a.comparators[0]), norm(a.comparators[0])))
    found_range = {'x', 'y'} <= ranged
    R.check(found_eq, rule, f'{B}._EllipticCurve.ecdh_shared_secret | curve equation', 'the multiplication is dominated by y^2 - (x^3 + a x + b) = 0 (mod p), failing branch leaves',
            'no test of the curve equation y^2 = x^3 + a*x + b (mod p) dominates the scalar multiplication: an invalid-curve point yields a shared secret', p.loc(mult[0]))
    R.check(found_range, rule, f'{B}._EllipticCurve.ecdh_shared_secret | coordinate range', 'coordinates are checked to lie in [0, p)', 'coordinates are not range-checked before use', p.loc(mult[0]))
    # the failing branch raises
    raising = [n for n in walk_local(fn) if isinstance(n, ast.If) and 'self.b' in norm(n.test) and any(isinstance(x, ast.Raise) for x in n.body)]
    R.check(len(raising) == 1, rule, f'{B}._EllipticCurve.ecdh_shared_secret | rejects', 'an off-curve point raises', 'the validity test does not raise', p.loc(fn))
    inf = [n for n in walk_local(fn) if isinstance(n, ast.If) and 'infinite' in norm(n.test) and any(isinstance(x, ast.Raise) for x in n.body)]
    R.check(len(inf) == 1, rule, f'{B}._EllipticCurve.ecdh_shared_secret | infinity', 'a result at infinity raises', 'point at infinity is not rejected', p.loc(fn))
    # the coordinates that the range test sees are the received ones: the affine point class does not rewrite them on
    # construction (a reduction mod p there would make the range test above unable to fail)
    pt = p.cls(f'{B}._Point')
    if pt is None:
        R.bad(rule, f'{B}._Point', 'anchor missing')
    else:
        writes = [(mn, n) for mn, m_ in pt.methods.items() for n in ast.walk(m_) if isinstance(n, (ast.Assign, ast.AugAssign, ast.AnnAssign))
                  for t in (n.targets if isinstance(n, ast.Assign) else [n.target]) if dotted(t) in ('self.x', 'self.y')]
        setattrs = [(mn, c) for mn, m_ in pt.methods.items() for c in ast.walk(m_) if isinstance(c, ast.Call) and (dotted(c.func) or '').endswith('__setattr__') and c.args and is_const(c.args[-2] if len(c.args) >= 2 else c.args[0]) and const(c.args[-2] if len(c.args) >= 2 else c.args[0]) in ('x', 'y')]
        R.check(not writes and not setattrs, rule, f'{B}._Point | coordinates kept as given', 'no method of the point class assigns x or y',
                f'{B}._Point rewrites its coordinates in {sorted({mn for mn, _ in writes + setattrs})}: a coordinate >= p is reduced before ecdh_shared_secret tests its range, so the non-canonical encoding of a curve point is accepted by this back end only', p.loc((writes + setattrs)[0][1]) if writes or setattrs else p.loc(pt.node))
    # the library back end: the library checks the curve equation itself but reduces coordinates >= p silently, so the
    # exchange must be dominated by a range test of both coordinates against the P-256 prime (value from FIPS 186-4 D.1.2.3)
    P256 = 0xFFFFFFFF00000001000000000000000000000000FFFFFFFFFFFFFFFFFFFFFFFF
    ldh = p.find('bumble.crypto.cryptography.EccKey.dh')
    lm = p.modules.get('bumble.crypto.cryptography')
    if ldh is None or lm is None:
        R.bad(rule, 'bumble.crypto.cryptography.EccKey.dh', 'anchor missing')
    else:
        consts = {dotted(n.targets[0]): const(n.value) for n in lm.tree.body if isinstance(n, ast.Assign) and len(n.targets) == 1 and is_const(n.value)}
        ex = [c for c in calls_in(ldh) if call_attr(c) == 'exchange']
        ranged = set()
        for c in ex:
            top = c
            while getattr(top, '_parent', None) is not ldh:
                top = top._parent
            for s_ in ldh.body[:ldh.body.index(top)]:
                if isinstance(s_, ast.If) and s_.body and isinstance(s_.body[-1], ast.Raise):
                    for a in ast.walk(s_.test):
                        if isinstance(a, ast.Compare) and len(a.ops) == 1 and isinstance(a.ops[0], (ast.GtE, ast.Gt)) and isinstance(a.left, ast.Name):
                            bound = a.comparators[0]
                            val = const(bound) if is_const(bound) else consts.get(dotted(bound))
                            if val == P256 and isinstance(a.ops[0], ast.GtE):
                                ranged.add(a.left.id)
        R.check(len(ex) == 1 and {'x', 'y'} <= ranged, rule, 'bumble.crypto.cryptography.EccKey.dh | coordinate range', 'both coordinates are tested against the P-256 prime before the exchange; a larger value raises',
                f'the library back end does not reject coordinates >= p (range-tested: {sorted(ranged)}): it reduces them and returns a shared secret where the built-in back end refuses the key', p.loc(ldh))
    # the library back end builds a validated public key
    cg = p.find('bumble.crypto.cryptography.EccKey.dh')
    R.check(cg is not None and 'ec.EllipticCurvePublicNumbers(x, y, ec.SECP256R1()).public_key()' in norm(cg), rule, 'bumble.crypto.cryptography.EccKey.dh', 'public numbers are turned into a (validated) public key on P-256', 'library back end no longer builds the public key through EllipticCurvePublicNumbers.public_key()', p.loc(cg) if cg else '')
    # SMP uses the back end on the peer key and failure is contained
    h = p.find('bumble.smp.Session.on_smp_pairing_public_key_command')
    R.check(h is not None and '.dh(' in norm(h), rule, 'bumble.smp.Session.on_smp_pairing_public_key_command', 'peer key goes through EccKey.dh', 'peer public key is not passed through EccKey.dh', p.loc(h) if h else '')


def cmac_subkeys(ctx):
    R, p = ctx.r, ctx.p
    rule = 'C14.cmac-subkeys'
    fn = p.find(f'{B}._CMAC.__init__')
    if fn is None:
        R.bad(rule, f'{B}._CMAC.__init__', 'anchor missing')
        return
    derivs = []
    for n in walk_local(fn):
        if isinstance(n, ast.If) and len(n.body) == 1 and len(n.orelse) == 1 and isinstance(n.body[0], ast.Assign) and isinstance(n.orelse[0], ast.Assign):
            tb, te = n.body[0], n.orelse[0]
            if dotted(tb.targets[0]) == dotted(te.targets[0]) and (dotted(tb.targets[0]) or '').startswith('self._k'):
                derivs.append((dotted(tb.targets[0]), n))
    derivs.sort(key=lambda d: d[1].lineno)
    R.check([d[0] for d in derivs] == ['self._k1', 'self._k2'], rule, f'{B}._CMAC.__init__ | two derivations', 'K1 then K2', f'sub-key derivations found: {[d[0] for d in derivs]}', p.loc(fn))
    src_of = {'self._k1': 'L', 'self._k2': 'self._k1'}
    for name, n in derivs:
        src = src_of.get(name)
        t = norm(n.test)
        ok = t in (f'{src}[0] & 128', f'{src}[0] & 128 != 0', f'{src}[0] >= 128', f'{src}[0] > 127')
        tb, te = norm(n.body[0].value), norm(n.orelse[0].value)
        ok2 = tb == f'_shift_bytes({src}, const_Rb)' and te == f'_shift_bytes({src})'
        R.check(ok and ok2, rule, f'{B}._CMAC.__init__ | {name}', f'{name} = {src} << 1, xor Rb iff msb({src}) is set', f'{name}: condition `{t}` / branches `{tb}` / `{te}` are not "shift, xor Rb iff the top bit of {src} is set"', p.loc(n))
    rb = [norm(x.value) for x in walk_local(fn) if isinstance(x, ast.Assign) and dotted(x.targets[0]) == 'const_Rb']
    R.check('135' in rb, rule, f'{B}._CMAC.__init__ | Rb', 'Rb = 0x87 for 128-bit blocks', f'Rb constants {rb}', p.loc(fn))
    sb = p.find(f'{B}._shift_bytes')
    if sb is not None:
        R.check('int.from_bytes(bs, ' in norm(sb) or '<< 1' in norm(sb), rule, f'{B}._shift_bytes', 'shifts left by one bit', 'shift helper changed', p.loc(sb))


def scalar_range(ctx):
    """Neither back end refuses a private scalar of [1, n-1]: a range guard on the scalar in the built-in back end (the
    library validates it itself) must accept every value from 1 up to and including n - 1."""
    from ..sym import lin
    R, p = ctx.r, ctx.p
    rule = 'C14.scalar-range'
    fn = p.find(f'{B}.EccKey.from_private_key_bytes')
    if fn is None:
        R.bad(rule, f'{B}.EccKey.from_private_key_bytes', 'anchor missing')
        return
    guards = [n for n in walk_local(fn) if isinstance(n, ast.If) and any(isinstance(x, ast.Raise) for x in n.body)]
    bad = []

    def n_minus(e):
        """e as (coefficient of the curve order, constant) when it is `k*n + c`."""
        f = lin(e)
        if f is None:
            return None
        ns = [k for k in f if k and (k.endswith('.n') or k == 'n')]
        others = [k for k in f if k and k not in ns and f[k]]
        if others or len(ns) > 1:
            return None
        return (f.get(ns[0], 0) if ns else 0, f.get('', 0))
    for g in guards:
        t = g.test
        # `d not in range(a, b)` -> accepted a..b-1 ; `d < a or d > b` / `not (a <= d <= b)` forms are read through their text
        if isinstance(t, ast.Compare) and len(t.ops) == 1 and isinstance(t.ops[0], ast.NotIn) and isinstance(t.comparators[0], ast.Call) and dotted(t.comparators[0].func) == 'range' and len(t.comparators[0].args) == 2:
            lo, hi = n_minus(t.comparators[0].args[0]), n_minus(t.comparators[0].args[1])
            ok = lo is not None and hi is not None and lo[0] == 0 and lo[1] <= 1 and hi[0] == 1 and hi[1] >= 0
            if not ok:
                bad.append(f'`{norm(t)}` accepts {norm(t.comparators[0].args[0])} .. ({norm(t.comparators[0].args[1])}) - 1')
        elif any('.n' in norm(x) or norm(x) == 'n' for x in ast.walk(t) if isinstance(x, (ast.Attribute, ast.Name))):
            # comparisons with the order: d >= n / d > n - 1 are the only refusals that keep n - 1
            for c in [x for x in ast.walk(t) if isinstance(x, ast.Compare) and len(x.ops) == 1]:
                l_, r_ = n_minus(c.left), n_minus(c.comparators[0])
                if l_ is None or r_ is None:
                    continue
                op = type(c.ops[0])
                # normalise to  d  OP  k*n + c   with d on the left
                if l_[0] and not r_[0]:
                    l_, r_ = r_, l_
                    op = {ast.Lt: ast.Gt, ast.Gt: ast.Lt, ast.LtE: ast.GtE, ast.GtE: ast.LtE}.get(op, op)
                if r_[0] == 1:
                    refuses_n_minus_1 = (op is ast.GtE and r_[1] <= -1) or (op is ast.Gt and r_[1] <= -2)
                    if refuses_n_minus_1:
                        bad.append(f'`{norm(c)}` refuses n - 1')
    R.check(not bad, rule, f'{B}.EccKey.from_private_key_bytes', f'{len(guards)} range guard(s) on the scalar, none of which refuses a value of [1, n-1]',
            f'the built-in back end refuses a valid private scalar ({bad[:2]}): for d = n - 1 the library back end derives a public key and the built-in one raises', p.loc(fn))


def api_parity(ctx):
    R, p = ctx.r, ctx.p
    rule = 'C14.api-parity'
    mods = ('bumble.crypto.builtin', 'bumble.crypto.cryptography')
    sig = {}
    for mn in mods:
        m = p.modules.get(mn)
        if m is None:
            R.bad(rule, mn, 'anchor missing')
            return
        d = {}
        for name in ('e', 'aes_cmac'):
            fn = m.defs.get(name)
            d[name] = [a.arg for a in fn.args.args] if fn is not None else None
        ci = p.cls(f'{mn}.EccKey')
        for meth in ('generate', 'from_private_key_bytes', 'x', 'y', 'dh'):
            fn = ci.methods.get(meth) if ci else None
            d['EccKey.' + meth] = [a.arg for a in fn.args.args] if fn is not None else None
        sig[mn] = d
    for k in sig[mods[0]]:
        a, b = sig[mods[0]][k], sig[mods[1]][k]
        R.check(a is not None and a == b, rule, f'crypto back ends | {k}', f'same parameters {a}', f'{k}: built-in {a} vs library {b}', '')
    # byte order conventions of e()
    for mn in mods:
        fn = p.modules[mn].defs.get('e')
        s = norm(fn)
        R.check(s.count('[::-1]') == 3 and 'key[::-1]' in s and 'data[::-1]' in s, rule, f'{mn}.e | byte order', 'key and data reversed on input, result reversed on output', 'byte-order convention of e() changed in one back end', p.loc(fn))
        for meth in ('x', 'y'):
            f2 = p.cls(f'{mn}.EccKey').methods.get(meth)
            R.check(f2 is not None and "to_bytes(32, byteorder='big')" in norm(f2), rule, f'{mn}.EccKey.{meth}', '32 bytes big-endian', 'coordinate encoding differs', p.loc(f2) if f2 else '')
        f3 = p.cls(f'{mn}.EccKey').methods.get('dh')
        R.check(f3 is not None and norm(f3).count("int.from_bytes(") == 2 and "byteorder='big', signed=False" in norm(f3), rule, f'{mn}.EccKey.dh | decoding', 'peer coordinates decoded big-endian unsigned', 'peer coordinate decoding differs', p.loc(f3) if f3 else '')
    bi = p.find(f'{B}._EllipticCurve.ecdh_shared_secret')
    if bi is not None:
        R.check("shared_point_affine.x.to_bytes(32, 'big')" in norm(bi), rule, f'{B}._EllipticCurve.ecdh_shared_secret | result', 'shared secret = x coordinate, 32 bytes big-endian (as the library returns)', 'built-in shared secret encoding changed', p.loc(bi))


def rpa_layout(ctx):
    R, p = ctx.r, ctx.p
    rule = 'C14.rpa-layout'
    gen = p.find('bumble.hci.Address.generate_private_address')
    res = p.find('bumble.smp.AddressResolver.resolve')
    gp = p.find('bumble.crypto.generate_prand')
    ah = p.find('bumble.crypto.ah')
    if not (gen and res and gp and ah):
        R.bad(rule, 'bumble.hci.Address.generate_private_address', 'anchor missing: generate_private_address / resolve / generate_prand / ah')
        return
    irk_if = [n for n in walk_local(gen) if isinstance(n, ast.If) and norm(n.test) == 'irk']
    body = irk_if[0].body if len(irk_if) == 1 else []
    adr = [n for n in body if isinstance(n, ast.Assign) and dotted(n.targets[0]) == 'address_bytes']
    ok = len(adr) == 1 and isinstance(adr[0].value, ast.BinOp) and isinstance(adr[0].value.op, ast.Add) and isinstance(adr[0].value.left, ast.Call) and call_attr(adr[0].value.left) == 'ah' \
        and len(adr[0].value.left.args) == 2 and norm(adr[0].value.left.args[0]) == 'irk' and isinstance(adr[0].value.right, ast.Name) and norm(adr[0].value.left.args[1]) == adr[0].value.right.id
    pr = adr[0].value.right.id if ok else 'prand'
    pdefs = [norm(n.value) for n in walk_local(gen) if isinstance(n, ast.Assign) and dotted(n.targets[0]) == pr]
    ok = ok and [d.split('.')[-1] for d in pdefs] == ['generate_prand()']
    # nothing rewrites address_bytes between that assignment and its use in the irk branch
    ok = ok and not [n for n in body[body.index(adr[0]) + 1:] if pr in norm(n) or 'address_bytes' in norm(n)] if ok else ok
    R.check(bool(ok), rule, 'bumble.hci.Address.generate_private_address', 'address = ah(irk, prand) || prand with one prand from generate_prand(): the prand carried is the prand hashed',
            'the resolvable address is not ah(irk, prand) || prand for one and the same marked prand: the hash no longer matches the prand carried in the address and the owner of the IRK cannot resolve it', p.loc(gen))
    d = {dotted(n.targets[0]): slice_parts(n.value) for n in walk_local(res) if isinstance(n, ast.Assign) and slice_parts(n.value)}
    R.check(d.get('hash_part') == ('address_bytes', '0', '3') and d.get('prand') == ('address_bytes', '3', '6'), rule, 'bumble.smp.AddressResolver.resolve | slices', 'hash = bytes 0..2, prand = bytes 3..5 (as generated)', f'resolver slices {d}', p.loc(res))
    R.check('local_hash = crypto.ah(irk, prand)' in norm(res) and 'hash_part == local_hash' in norm(res), rule, 'bumble.smp.AddressResolver.resolve | compare', 'ah(irk, prand) compared with the hash part', 'resolver comparison changed', p.loc(res))
    rets = [r for r in walk_local(ah) if isinstance(r, ast.Return)]
    R.check(len(rets) == 1 and slice_parts(rets[0].value) == ('e(k, r_prime)', '0', '3') and 'r_prime = r + padding' in norm(ah) and 'padding = bytes(13)' in norm(ah), rule, 'bumble.crypto.ah', 'ah = e(k, r || 13 zero bytes)[0:3]', 'ah() definition changed', p.loc(ah))
    # prand bits: ((b & 0x7F) | 0x40) >> 6 == 1  (known bits)
    rets = [r for r in walk_local(gp) if isinstance(r, ast.Return)]
    ok = False
    if rets:
        t = norm(rets[0].value)
        ok = t == 'prand_bytes[:2] + bytes([prand_bytes[2] & 127 | 64])'
        if ok:
            ok = all((((b & 127) | 64) >> 6) == 1 for b in range(256))
    R.check(ok, rule, 'bumble.crypto.generate_prand', 'top two bits of prand forced to 0b01 for every random byte (exhaustive over 256 values) -> address byte 5 >> 6 == 1', 'prand no longer forces the resolvable-address marker bits', p.loc(gp))
    ir = p.find('bumble.hci.Address.is_resolvable')
    R.check(ir is not None and 'self.address_bytes[5] >> 6 == 1' in norm(ir), rule, 'bumble.hci.Address.is_resolvable', 'tests byte 5 >> 6 == 1 (= prand[2])', 'is_resolvable no longer tests the marker bits of the last byte', p.loc(ir) if ir else '')
    # every key is tried: the loop body must not leave unconditionally
    loops = [n for n in walk_local(res) if isinstance(n, ast.For) and 'resolving_keys' in norm(n.iter)]
    ok = len(loops) == 1 and not paths._always_leaves(loops[0].body)
    after = loops and res.body.index(loops[0]) < len(res.body) - 1 and isinstance(res.body[-1], ast.Return)
    R.check(ok and after, rule, 'bumble.smp.AddressResolver.resolve | all keys tried', 'failure is returned only after the loop over all resolving keys', 'the resolver gives up inside the loop: only the first key is ever tried', p.loc(res))



def jacobian_add(ctx):
    """Point addition in Jacobian coordinates brings both operands to a common denominator first: U1 = X1*Z2^2,
    U2 = X2*Z1^2, S1 = Y1*Z2^3, S2 = Y2*Z1^3 (mod p).  Every assignment of these four names has that polynomial; a shortcut
    that leaves one of them unscaled is only right when the *other* point's Z is 1, which must then be the guard."""
    R, p = ctx.r, ctx.p
    rule = 'C14.jacobian-add'
    fn = p.find(f'{B}._JacobianPoint.__add__')
    if fn is None:
        R.bad(rule, f'{B}._JacobianPoint.__add__', 'anchor missing')
        return
    env = {'self.x': 'x1', 'self.y': 'y1', 'self.z': 'z1', 'other.x': 'x2', 'other.y': 'y2', 'other.z': 'z2'}
    for n in walk_local(fn):
        if isinstance(n, ast.Assign) and isinstance(n.targets[0], ast.Name) and norm(n.value) in env:
            env[n.targets[0].id] = env[norm(n.value)]
    WANT = {'u1': {('x1', 'z2', 'z2'): 1}, 'u2': {('x2', 'z1', 'z1'): 1}, 's1': {('y1', 'z2', 'z2', 'z2'): 1}, 's2': {('y2', 'z1', 'z1', 'z1'): 1}}
    OTHER_Z = {'u1': 'z2', 's1': 'z2', 'u2': 'z1', 's2': 'z1'}
    seen = {k: 0 for k in WANT}
    bad = []

    def strip_mod(e):
        return e.left if isinstance(e, ast.BinOp) and isinstance(e.op, ast.Mod) else e
    for n in walk_local(fn):
        if not isinstance(n, ast.Assign):
            continue
        tg = n.targets[0]
        pairs = list(zip(tg.elts, n.value.elts)) if isinstance(tg, ast.Tuple) and isinstance(n.value, ast.Tuple) and len(tg.elts) == len(n.value.elts) else [(tg, n.value)]
        for t, v in pairs:
            name = dotted(t)
            if name not in WANT:
                continue
            seen[name] += 1
            try:
                poly = {tuple(sorted(env.get(x, x) for x in k)): c for k, c in _poly(strip_mod(v), env).items()}
            except ValueError:
                poly = None
            if poly == WANT[name]:
                continue
            # the unscaled form is acceptable only under the guard that the other point's Z is 1
            unscaled = {(WANT[name] and list(WANT[name])[0][0],): 1}
            g = [(norm(tt), pol) for tt, pol in paths.flat_guards(n)]
            oz = OTHER_Z[name]
            guard_ok = any(pol and tt.replace('self.z', 'z1').replace('other.z', 'z2') in (f'{oz} == 1',) for tt, pol in g)
            if not (poly == unscaled and guard_ok):
                bad.append(f'{name} = {norm(v)} under {[tt for tt, pol in g if pol]}')
    R.check(all(seen.values()) and not bad, rule, f'{B}._JacobianPoint.__add__ | common denominator', 'U1 = X1*Z2^2, U2 = X2*Z1^2, S1 = Y1*Z2^3, S2 = Y2*Z1^3 at every assignment',
            f'an operand is not brought to the common denominator ({bad[:2]}): the sum is wrong whenever that shortcut is taken (e.g. for every odd scalar in double-and-add), so public keys and DH keys differ from the library back end', p.loc(fn))


def scalar_mult(ctx):
    """Double-and-add processes every bit of the scalar."""
    R, p = ctx.r, ctx.p
    rule = 'C14.scalar-mult'
    fn = p.find('bumble.crypto.builtin._JacobianPoint.__mul__')
    if fn is None:
        R.bad(rule, 'bumble.crypto.builtin._JacobianPoint.__mul__', 'anchor missing')
        return
    k = fn.args.args[1].arg
    loops = [n for n in fn.body if isinstance(n, (ast.While, ast.For))]
    if len(loops) != 1:
        R.bad(rule, 'bumble.crypto.builtin._JacobianPoint.__mul__ | loop', f'{len(loops)} loops (expected the one double-and-add loop)', p.loc(fn))
        return
    lp = loops[0]
    key = 'bumble.crypto.builtin._JacobianPoint.__mul__'
    if isinstance(lp, ast.While):
        t = norm(lp.test)
        ok = t in (f'{k} > 0', f'{k}', f'{k} != 0', f'0 < {k}', f'{k} >= 1')
        R.check(ok, rule, key + ' | runs until the scalar is exhausted', f'while {t}', f'the loop condition `{t}` can stop before all bits of the scalar were processed', p.loc(lp))
    else:
        # for _ in range(N): N must cover the bit length of the group order (256)
        n_bits = None
        it = lp.iter
        if isinstance(it, ast.Call) and dotted(it.func) == 'range' and len(it.args) == 1:
            e = norm(it.args[0])
            order = None
            sec = p.find(f'{B}._EllipticCurve.SECP256R1')
            for x in walk_local(sec) if sec is not None else []:
                if isinstance(x, ast.Assign) and dotted(x.targets[0]) == 'n' and is_const(x.value):
                    order = const(x.value)
            env = {'self': type('S', (), {'curve': type('C', (), {'n': order})()})(), k: (order or 0) - 1}
            try:
                n_bits = eval(compile(ast.Expression(ast.parse(e, mode='eval').body), '<c>', 'eval'), {'__builtins__': {}}, env)
            except Exception:
                n_bits = None
            R.check(order is not None and n_bits is not None and n_bits >= order.bit_length(), rule, key + ' | runs until the scalar is exhausted', f'range({e}) = {n_bits} iterations >= {order.bit_length() if order else "?"} bits',
                    f'range({e}) = {n_bits} iterations: fewer than the {order.bit_length() if order else 256} bits a scalar below the group order can have - the top bit(s) of large private keys are ignored', p.loc(lp))
        else:
            R.bad(rule, key + ' | runs until the scalar is exhausted', f'unrecognised loop `{norm(it)}`', p.loc(lp))
    from ..core import inert
    body = [s_ for s_ in lp.body if not inert(s_)]
    # one conditional add on the low bit, one doubling, one shift - in this order
    def idx(pred):
        return [i for i, s_ in enumerate(body) if pred(s_)]
    add_i = idx(lambda s_: isinstance(s_, ast.If) and norm(s_.test) in (f'{k} % 2 != 0', f'{k} & 1', f'{k} & 1 != 0', f'{k} % 2 == 1', f'{k} % 2') and any(norm(x) in ('result = result + addend', 'result += addend', 'result = addend + result') for x in s_.body))
    dbl_i = idx(lambda s_: norm(s_) in ('addend = addend.double()', 'addend = addend + addend'))
    shf_i = idx(lambda s_: norm(s_) in (f'{k} = {k} >> 1', f'{k} >>= 1', f'{k} //= 2', f'{k} = {k} // 2'))
    ok = len(add_i) == 1 and len(dbl_i) == 1 and len(shf_i) == 1 and add_i[0] < dbl_i[0] and add_i[0] < shf_i[0] and len(body) == 3
    R.check(ok, rule, key + ' | double-and-add step', 'add on the low bit, double the addend, shift the scalar by one bit - once each per iteration', 'the loop body is not one conditional add on the low bit, one doubling and a one-bit shift', p.loc(lp))
    init = [norm(s_) for s_ in fn.body[:fn.body.index(lp)] if not inert(s_)]
    R.check('addend = self' in init and any(x.startswith('result = ') and 'point_at_infinity' in x for x in init), rule, key + ' | start values', 'addend = self, result = point at infinity', 'start values of the multiplication changed', p.loc(fn))


def reject_then_leave(ctx):
    from . import c13
    c13.fail_then_leave(ctx, rule='C14.reject-then-leave')


def dh_validates(ctx):
    """Every value EccKey.dh returns comes out of the curve's ecdh_shared_secret (which checks that the peer point is on
    the curve) applied to *these* coordinates: no return before it (a cache keyed by x alone would answer for (x, y') off
    the curve)."""
    R, p = ctx.r, ctx.p
    rule = 'C14.dh-validates'
    n = 0
    for q in ('bumble.crypto.builtin.EccKey.dh', 'bumble.crypto.cryptography.EccKey.dh'):
        fn = p.find(q)
        if fn is None:
            R.bad(rule, q, 'anchor missing')
            continue
        n += 1

        class D(paths.Domain):
            def event(self, node, v):
                if isinstance(node, ast.Call) and call_attr(node) in ('ecdh_shared_secret', 'exchange', 'public_key'):
                    return (True,)
                return (v,)

            def ret(self, node, v):
                return 'value' if node.value is not None else 'none'
        res = paths.run(fn, D(), False)
        early = [' '.join(w) for k, st_ in res.items() if k.startswith('ret:') for v, w in st_.items() if not v]
        stores = [x for x in ast.walk(fn) if isinstance(x, (ast.Attribute, ast.Subscript)) and isinstance(x.ctx, ast.Store) and (dotted(x if isinstance(x, ast.Attribute) else x.value) or '').startswith('self.')]
        R.check(not early and not stores, rule, q, 'every return follows the validated computation on the given coordinates; nothing is remembered between calls',
                'dh() can return a value without having run the on-curve check on the coordinates it was given (or keeps results between calls): an off-curve (x, y\') whose x was seen before is answered with a shared secret instead of being rejected', p.loc(fn), early[:2])
    R.check(n == 2, rule, 'EccKey.dh | both back ends', f'{n} implementations', f'{n} implementations found')


def jacobian_double(ctx):
    """Doubling yields the point at infinity exactly for the point at infinity (z == 0) and for points of order two (y == 0).
    x == 0 is an ordinary coordinate: P-256 has two valid points with x = 0, which the library back end accepts as keys."""
    R, p = ctx.r, ctx.p
    rule = 'C14.jacobian-double'
    fn = p.find('bumble.crypto.builtin._JacobianPoint.double')
    if fn is None:
        R.bad(rule, 'bumble.crypto.builtin._JacobianPoint.double', 'anchor missing')
        return
    inf = [n for n in walk_local(fn) if isinstance(n, ast.If) and any(isinstance(x, ast.Return) and 'point_at_infinity' in norm(x) for x in n.body)]
    R.check(len(inf) == 1, rule, 'bumble.crypto.builtin._JacobianPoint.double | degenerate case', 'one test leads to the point at infinity', f'{len(inf)} tests', p.loc(fn))
    for n in inf:
        coords = sorted({x.attr for x in ast.walk(n.test) if isinstance(x, ast.Attribute) and dotted(x.value) == 'self'})
        atoms = n.test.values if isinstance(n.test, ast.BoolOp) and isinstance(n.test.op, ast.Or) else [n.test]
        ok = coords == ['y', 'z'] and sorted(norm(a) for a in atoms) == ['self.y == 0', 'self.z == 0']
        R.check(ok, rule, 'bumble.crypto.builtin._JacobianPoint.double | infinity iff z == 0 or y == 0', 'only y and z decide', f'the degenerate test is `{norm(n.test)}` (coordinates {coords}): a valid point with x = 0 doubles to infinity, so ECDH with such a peer key gives an all-zero secret or fails while the library back end computes the key', p.loc(n))


def public_key_siblings(ctx):
    """EccKey.x and EccKey.y are the two coordinates of one point, d*G: both come out of the same computation (the curve's
    generate_public_key on the private scalar).  Recovering y from x through the curve equation picks one of two square
    roots -- for half of all scalars the wrong one."""
    R, p = ctx.r, ctx.p
    rule = 'C14.public-key-siblings'
    ci = p.cls('bumble.crypto.builtin.EccKey')
    if ci is None:
        R.bad(rule, 'bumble.crypto.builtin.EccKey', 'anchor missing')
        return
    fx, fy = ci.methods.get('x'), ci.methods.get('y')
    if fx is None or fy is None:
        R.bad(rule, 'bumble.crypto.builtin.EccKey.x / y', 'anchor missing')
        return
    bx = [norm(s_) for s_ in fx.body if not (isinstance(s_, ast.Expr) and is_const(s_.value))]
    by = [norm(s_) for s_ in fy.body if not (isinstance(s_, ast.Expr) and is_const(s_.value))]
    same = [b.replace(').x.', ').@.').replace('.x.to_bytes', '.@.to_bytes') for b in bx] == [b.replace(').y.', ').@.').replace('.y.to_bytes', '.@.to_bytes') for b in by]
    R.check(same and any('generate_public_key' in b for b in by) and not any('pow(' in b for b in by), rule, 'bumble.crypto.builtin.EccKey.y', 'the y coordinate of the same generate_public_key result x comes from', 'EccKey.y is not computed like EccKey.x (the other coordinate of the same scalar multiplication): a y recovered from the curve equation is one of two square roots, so for about half of all private keys the public key is -d*G and differs from the library back end and from the specification samples', p.loc(fy))


def jacobian_z(ctx):
    """z = 0 is the point at infinity and the class default: every _JacobianPoint built from coordinates says what z is, and
    the curve's generator is built with z = 1."""
    R, p = ctx.r, ctx.p
    rule = 'C14.jacobian-z'
    m = p.modules.get(B)
    if m is None:
        R.bad(rule, B, 'anchor missing')
        return
    n = 0
    for c in [x for x in ast.walk(m.tree) if isinstance(x, ast.Call) and call_attr(x) == '_JacobianPoint']:
        n += 1
        z = kwarg(c, 'z', 3)
        R.check(z is not None, rule, f'{p.qual_of(c)} | {norm(c)[:50]}', 'z given', f'`{norm(c)[:70]}` leaves z at its default 0: the point is the point at infinity whatever x and y are, every multiple of it is infinity too (all public keys / shared secrets degenerate)', f'{m.rel}:{c.lineno}')
        if z is not None and 'g_x' in norm(c):
            R.check(is_const(z) and const(z) == 1, rule, f'{p.qual_of(c)} | generator', 'z = 1', f'the generator is built with z = {norm(z)}', f'{m.rel}:{c.lineno}')
    R.check(n >= 5, rule, f'{B} | _JacobianPoint constructions', f'{n}', f'only {n} found')


def coordinates_mod_p(ctx):
    """Point coordinates live in the field (mod p); n is the order of the group and applies to scalars only: no expression
    of the built-in back end combines n with a coordinate (`n - y` is not the negation of y)."""
    R, p = ctx.r, ctx.p
    rule = 'C14.coordinates-mod-p'
    m = p.modules.get(B)
    if m is None:
        R.bad(rule, B, 'anchor missing')
        return
    n = 0
    for b in [x for x in ast.walk(m.tree) if isinstance(x, ast.BinOp)]:
        n += 1
        sides = (b.left, b.right)
        has_n = any((dotted(s_) or '').split('.')[-1] == 'n' and len((dotted(s_) or '').split('.')) >= 2 for s_ in sides)
        has_xy = any(isinstance(x, ast.Attribute) and x.attr in ('x', 'y', 'z') for s_ in sides for x in ast.walk(s_)) or any(isinstance(s_, ast.Name) and s_.id in ('x', 'y', 'x1', 'y1', 'x2', 'y2', 'x3', 'y3') for s_ in sides)
        if has_n and has_xy:
            R.bad(rule, f'{p.qual_of(b)} | {norm(b)[:40]}', f'`{norm(b)[:60]}` combines the group order n with a point coordinate: coordinates are reduced modulo the field prime p, so the result is not on the curve (public keys for the affected scalars are rejected by a conformant peer)', f'{m.rel}:{b.lineno}')
    R.check(n >= 30, rule, f'{B} | arithmetic expressions', f'{n} binary operations, none mixes n with a coordinate', f'only {n} found')


def unsigned_reads(ctx):
    """The SMP functions are defined on unsigned quantities: bumble.crypto reads integers out of MACs / keys with
    int.from_bytes(..., signed=False) or unsigned struct formats only (g2 = CMAC mod 2^32 is in [0, 2^32))."""
    R, p = ctx.r, ctx.p
    rule = 'C14.unsigned-reads'
    n = 0
    for mn in ('bumble.crypto',):  # the SMP toolbox; the pure-Python AES of bumble.crypto.builtin works on signed words by design
        m = p.modules.get(mn)
        if m is None:
            R.bad(rule, mn, 'anchor missing')
            continue
        for c in [x for x in ast.walk(m.tree) if isinstance(x, ast.Call)]:
            d = dotted(c.func) or ''
            if d.endswith('from_bytes') or d.endswith('to_bytes'):
                n += 1
                s_ = kwarg(c, 'signed')
                R.check(s_ is None or (is_const(s_) and const(s_) is False), rule, f'{p.qual_of(c)} | {norm(c)[:40]}', 'unsigned', f'`{norm(c)[:60]}` converts as a signed integer', f'{m.rel}:{c.lineno}')
            if d.startswith('struct.unpack') or d.startswith('struct.pack'):
                n += 1
                f = c.args[0] if c.args else None
                signed = is_const(f) and isinstance(const(f), str) and any(ch in 'bhilq' for ch in const(f))
                R.check(not signed, rule, f'{p.qual_of(c)} | {norm(c)[:40]}', 'unsigned format', f'`{norm(c)[:60]}` uses a signed format: values with the top bit set come out negative (g2 and the 6-digit code derived from it differ from a conformant peer\'s for half of all inputs)', f'{m.rel}:{c.lineno}')
    fn = p.find('bumble.crypto.g2')
    R.check(fn is not None and n >= 1, rule, 'bumble.crypto | integer conversions', f'{n} conversions, all unsigned', f'only {n} conversions found / g2 missing')


def builtin_standalone(ctx):
    """bumble/crypto/__init__.py imports the built-in back end while it is itself still being initialised (the fallback
    when `cryptography` is missing): builtin.py must not import anything from the bumble.crypto package."""
    R, p = ctx.r, ctx.p
    rule = 'C14.builtin-standalone'
    m = p.modules.get(B)
    pkg = p.modules.get('bumble.crypto')
    if m is None or pkg is None:
        R.bad(rule, B, 'anchor missing')
        return
    bad = [i for i in ast.walk(m.tree) if (isinstance(i, ast.ImportFrom) and ((i.module or '') == 'bumble.crypto' or (i.level > 0 and (i.module or '') in ('', 'cryptography')) or ((i.module or '') == 'bumble' and any(a.name == 'crypto' for a in i.names)))) or (isinstance(i, ast.Import) and any(a.name == 'bumble.crypto' for a in i.names))]
    fallback = any(isinstance(i, ast.ImportFrom) and (i.module or '').endswith('builtin') for t in ast.walk(pkg.tree) if isinstance(t, ast.Try) for h in t.handlers for i in ast.walk(h))
    R.check(fallback and not bad, rule, B, 'imports nothing from bumble.crypto', f'`{norm(bad[0]) if bad else ""}`: when `cryptography` is not installed, bumble.crypto imports this module before it has defined its own names - the import is circular and fails, no back end at all is available', f'{m.rel}:{bad[0].lineno}' if bad else '')


RULES = [
    ('C14.builtin-standalone', builtin_standalone),
    ('C14.unsigned-reads', unsigned_reads),
    ('C14.coordinates-mod-p', coordinates_mod_p),
    ('C14.jacobian-z', jacobian_z),
    ('C14.public-key-siblings', public_key_siblings),
    ('C14.jacobian-double', jacobian_double),
    ('C14.dh-validates', dh_validates),
    ('C14.jacobian-add', jacobian_add),
    ('C14.scalar-range', scalar_range),
    ('C14.reject-then-leave', reject_then_leave),
    ('C14.scalar-mult', scalar_mult),
    ('C14.curve', curve),
    ('C14.aes-tables', aes_tables),
    ('C14.validate', validate),
    ('C14.cmac-subkeys', cmac_subkeys),
    ('C14.api-parity', api_parity),
    ('C14.rpa-layout', rpa_layout),
]

VARIANTS = [
    ('curve b off by one', 'bumble/crypto/builtin.py', "27D2604B\n", "27D2604C\n", 'fire', 'C14.curve'),
    ('point validation dropped', 'bumble/crypto/builtin.py', "            raise core.InvalidArgumentError(\"public key is not a point on the curve\")\n", "            pass\n", 'fire', 'C14.validate'),
    ('curve equation without b', 'bumble/crypto/builtin.py', "            or (y * y - (x * x * x + self.a * x + self.b)) % self.p != 0\n", "            or (y * y - (x * x * x + self.a * x)) % self.p != 0\n", 'fire', 'C14.validate'),
    ('k2 condition is a comparison', 'bumble/crypto/builtin.py', "        if self._k1[0] & 0x80:\n", "        if self._k1[0] > 0x80:\n", 'fire', 'C14.cmac-subkeys'),
    ('resolver returns inside the loop', 'bumble/smp.py',
     "                return Address(\n                    address=str(resolved_address), address_type=resolved_address_type\n                )\n\n        return None\n",
     "                return Address(\n                    address=str(resolved_address), address_type=resolved_address_type\n                )\n\n            return None\n", 'fire', 'C14.rpa-layout'),
    ('prand marker 0b11', 'bumble/crypto/__init__.py', "    return prand_bytes[:2] + bytes([(prand_bytes[2] & 0b01111111) | 0b01000000])\n", "    return prand_bytes[:2] + bytes([(prand_bytes[2] & 0b11111111) | 0b01000000])\n", 'fire', 'C14.rpa-layout'),
    ('library e() forgets to reverse the result', 'bumble/crypto/cryptography.py', "    return encryptor.update(data[::-1])[::-1]\n", "    return encryptor.update(data[::-1])\n", 'fire', 'C14.api-parity'),
    ('benign: docstring', 'bumble/crypto/builtin.py', '        """Computes the shared secret using ECDH."""\n', '        """Compute the ECDH shared secret."""\n', 'silent', ''),
    ('scalar loop one iteration short', 'bumble/crypto/builtin.py', "        while k > 0:\n            if k % 2 != 0:", "        for _ in range(self.curve.n.bit_length() - 1):\n            if k % 2 != 0:", 'fire', 'C14.scalar-mult'),
    ('benign: fixed 256 iterations', 'bumble/crypto/builtin.py', "        while k > 0:\n            if k % 2 != 0:", "        for _ in range(self.curve.n.bit_length()):\n            if k % 2 != 0:", 'silent', ''),
    ('scalar shifted by two bits', 'bumble/crypto/builtin.py', "            k = k >> 1\n        return result", "            k = k >> 2\n        return result", 'fire', 'C14.scalar-mult'),
]
