"""C17 — hostile peer or controller input cannot wedge or derail the stack."""
from __future__ import annotations

import ast

from .. import paths
from ..core import FUNC, call_attr, calls_in, const, dotted, is_const, kwarg, norm, slice_parts, text, walk_local

EXPLANATION = [
    'C17.loop-containment: the per-result try of HfProtocol.run re-raises only HfLoopTermination and contains every other Exception.',
    'C17.overflow-recovers: the overflow branch of HfpProtocol.feed resets self.buffer (a full buffer that only refuses data never empties again).',
    'C17.continuation-kept: the parse-failure branch of sdp.Server.on_pdu does not assign current_response(s): garbage between continuation requests does not cost the transaction.',
    'C17.unhandled-rejected: ChannelManager.on_control_frame sends a Command Reject on every path on which no handler was found.',
    'C17.ertm-sdu-start: EnhancedRetransmissionProcessor.on_pdu assigns the reassembly buffer for START / UNSEGMENTED I-frames and appends only for CONTINUATION / END.',
    'C17.pump-ends: a `while True` read loop of bumble.transport.common that catches Exception and continues has an earlier handler that leaves the loop on IncompleteReadError (end of stream fails immediately and for ever).',
    'C17.one-parser: no method of sdp.DataElementParser creates another DataElementParser: nesting is parsed by the one parser whose depth counter the guard tests.',
    "C17.endpoint-lists: in bumble.avdtp the endpoints' capabilities / configuration lists are only rebound as a whole, never changed in place (slice store, extend, clear, +=): the two may be one list object.",
    'C17.avdtp-restart: in the AVDTP MessageAssembler the branch that abandons an unfinished message on a new START / SINGLE packet does not return: the new packet is processed, so the request after a malformed one is answered.',
    "C17.sdp-watchdog: (shared with C19.sdp-watchdog) each continuation loop of the SDP client runs under `watchdog > 0` and ends with an unconditional `watchdog -= 1`: a server that always answers 'more' is given up on after SDP_CONTINUATION_WATCHDOG rounds.",
    "C17.peer-mtu-floor: the MTU taken from a peer's Configure Request is bounded below (max(value, L2CAP minimum)) before it is stored, so AVDTP's and RFCOMM's fragment sizes derived from it stay positive.",
    'C17.records-not-aliased: every local container that a method of sdp.Server modifies in place (+=, append, sort, ...) is bound only to containers the method created (literals, comprehensions, list() / sorted() / copies): a request cannot alias and edit a registered service record.',
    'C17.dm-refuses-open: in Multiplexer.on_dm_frame every path taken while the multiplexer is OPENING changes the state and settles the pending open_result (path rule): a DM cannot be ignored while an open is pending.',
    'C17.except-name: no name bound by `except ... as name` is read after its handler: Python deletes it when the handler ends, so the read raises UnboundLocalError exactly when the exception was caught.',
    'C17.sdp-containment: DataElementParser records the end of the sequence being parsed and refuses (before descending) an element whose end lies past it, restoring the outer bound afterwards: the offset never moves backwards, so parsing is linear in the input.',
    'C17.regex: no regular expression in hfp / at / transport has an unbounded repeat whose body starts and ends with unbounded repeats over overlapping character sets with only nullable items between (the shape that backtracks exponentially on a failing match); decided on the re._parser tree of every literal pattern.',
    'C17.tx-progress: (shared with C20.progress) every path through one iteration of DLC.process_tx spends a tx credit or is the single credit-granting iteration: the loop ends after at most tx_credits + 1 rounds whatever frame size the peer negotiated.',
    'C17.cid-domain: the channel-table numbering rule of C09.cid-domain: a peer-chosen channel identifier in a signalling request is tested against the table keyed by peer identifiers, so a request re-using the source CID of an open channel is refused instead of overwriting its entry.',
    'C17.smp-sessions: the SMP session rules of C13.session-lifecycle (nothing is processed after the end of a session; a new Pairing Request replaces a finished session, the old one being ended before the new one is registered; keys are derived only after the key exchange): whatever SMP commands a peer sends, a later well-formed pairing on the same connection works.',
    'C17.dlc-sink: DLC.on_uih_frame calls its consumer inside try/except Exception, so hostile data that makes the consumer raise cannot desynchronise the RFCOMM credit ledgers.',
    'C17.ack-bounded: an acknowledgement received on an ERTM channel is accepted only if it covers no more frames than are actually outstanding (same rule as C08.window), so a forged ReqSeq cannot move the acknowledged sequence number past what was sent and wedge the transmitter.',
    'C17.depth-balance: the SDP parser\'s nesting counter is restored on every normal exit of the recursive list parser (path counting).',
    'C17.state-guard: in the L2CAP response handlers of both channel classes (connection, configure, disconnection response) every state-changing effect (_change_state, _disconnect_sync, abort, emit, manager.on_channel_closed) is under a test of self.state: a response that nobody is waiting for leaves an OPEN channel alone.',
    'C17.loop-contained: in the Hands-Free unsolicited-result loop an exception raised while handling one result code is caught inside the loop body (only the termination marker leaves it): a malformed result code does not end the handling of those that follow.',
    'C17.live-entry: in Multiplexer.on_mcc_pn the command branch stores a new DLC under the peer-chosen DLCI only on a path where the existing entry for that DLCI was examined and is not an open DLC; the response branch creates one only while this side is opening.',
    'C17.validate-first: in the AVCTP, AVDTP and AVRCP reassemblers no access that can raise on a short fragment (pdu[k], struct.unpack_from) is executed after a state write unless a length test on the fragment was passed before that write: a truncated fragment cannot leave half-updated assembler state.',
    'C17.cmd-complete: HCI_Command_Complete_Event.from_parameters contains a failure to parse the return parameters (falls back to the raw bytes), so a Command Complete with truncated parameters still concludes the pending command instead of being dropped by Host.on_packet.',
    'C17.format-safe: the __str__ / __repr__ / to_string methods of the PDU classes of the protocol modules read only attributes that the class, a base class or the module defines (received PDUs are formatted for the debug log before dispatch, so a formatter that raises keeps the PDU from being handled).',
    'C17.lost-write: in the AVCTP, AVDTP and AVRCP reassemblers no path through on_pdu records a state field for the fragment being handled, then calls the self-healing reset() and carries on with the wiped value (the start fragment of a well-formed message after an abandoned one keeps its packet count).',
    'C17.feed-contained: every site that pushes received bytes into the HCI packet parser is inside try/except InvalidPacketError that lets the transport continue (the handler sits inside the receive loop, or the try is itself inside a further loop: a handler outside the loop ends reception), or is a named plain event-loop callback where the escaping exception is only logged.',
    'C17.parser-reset: the push parser consumes what it needs, resets after emission and before raising on an unknown type byte, and contains sink exceptions (same rule as C02.push-parser).',
    'C17.response-routing: the HF reader queues a line as a command response only under `self.pending_command`, which execute_command clears in finally.',
    'C17.contain: every hand-over of a received packet to a sink at the transport boundary is inside try/except Exception (or is a '
    'pass-through inside such a sink); Host.on_packet contains parse errors; L2CAP signalling answers a Command Reject when a handler '
    'raises or the code is unknown; SMP handler exceptions become a two-sided pairing failure.',
    'C17.recursion: every recursive cycle of the resolved call graph of the protocol modules has a raising depth guard, or is a named '
    'walker over data produced by the guarded parser / a local API.',
    'C17.loops: no `while` loop in the protocol modules has a back-edge path that changes none of the variables its condition reads '
    '(such a path can never terminate); `while True` loops always contain a leaving statement or an await.',
    'C17.consume-first: stream readers remove a framed line from their buffer before anything that can raise on its content.',
    'C17.state-reset: reassembly state is reset as a group: wherever one field of an assembler is reset, its companions are reset in the same block.',
    'C17.all-entries: handlers of controller events that carry arrays process every entry (no return/break out of the per-entry loop).',
    'C17.locks: every semaphore/lock acquired in the protocol modules is released on all exits (async with / try-finally).',
    'Not decided: "answered correctly afterwards" for all byte strings (runtime).',
]
ASSUMPTIONS = ['calls are resolved through self./cls./module names; recursion through dunder methods (bytes(), str()) is outside the resolved graph']

SCOPE = ['bumble.sdp', 'bumble.avdtp', 'bumble.avctp', 'bumble.avrcp', 'bumble.avc', 'bumble.att', 'bumble.smp', 'bumble.l2cap', 'bumble.rfcomm', 'bumble.hfp', 'bumble.at', 'bumble.core', 'bumble.hci', 'bumble.host', 'bumble.a2dp', 'bumble.rtp', 'bumble.gatt_server', 'bumble.gatt_client', 'bumble.transport.common']


def _anc(n):
    q = getattr(n, '_parent', None)
    while q is not None:
        yield q
        q = getattr(q, '_parent', None)


def _in_try_catching_exception(node, stop=None):
    for a in _anc(node):
        if a is stop:
            return False
        if isinstance(a, ast.Try) and any(any(node is x for x in ast.walk(s)) for s in a.body):
            for h in a.handlers:
                if h.type is None or text(h.type).split('.')[-1] in ('Exception', 'BaseException'):
                    return True
    return False


def contain(ctx):
    R, p = ctx.r, ctx.p
    rule = 'C17.contain'
    n = 0
    for mn in sorted(m for m in p.modules if m.startswith('bumble.transport')):
        m = p.modules[mn]
        for fn in [x for x in ast.walk(m.tree) if isinstance(x, FUNC)]:
            for c in calls_in(fn):
                d = dotted(c.func) or ''
                if not (d.endswith('sink.on_packet') and d.startswith('self.')):
                    continue
                n += 1
                key = f'{p.qual_of(fn)} | {d}'
                if fn.name == 'on_packet':
                    R.ok(rule, key, 'pass-through inside a sink: exceptions reach the contained caller', p.loc(c))
                    continue
                R.check(_in_try_catching_exception(c, fn), rule, key, 'inside try/except Exception', 'a received packet is handed to the sink outside try/except Exception: an exception in the stack kills the transport\'s reader', p.loc(c))
    R.floor(rule, 5, 'sink call sites')
    hp = p.find('bumble.host.Host.on_packet')
    if hp is None:
        R.bad(rule, 'bumble.host.Host.on_packet', 'anchor missing')
    else:
        fb = [c for c in calls_in(hp) if norm(c.func) == 'hci.HCI_Packet.from_bytes']
        R.check(len(fb) == 1 and _in_try_catching_exception(fb[0], hp), rule, 'bumble.host.Host.on_packet | parse contained', 'a packet that does not parse is logged and dropped', 'HCI packet parsing is not contained in Host.on_packet', p.loc(hp))
    oc = p.find('bumble.l2cap.ChannelManager.on_control_frame')
    if oc is None:
        R.bad(rule, 'bumble.l2cap.ChannelManager.on_control_frame', 'anchor missing')
    else:
        rej = [c for c in ast.walk(oc) if isinstance(c, ast.Call) and call_attr(c) == 'L2CAP_Command_Reject']
        in_handler = [c for c in rej if any(isinstance(a, ast.ExceptHandler) for a in _anc(c))]
        in_else = [c for c in rej if not any(isinstance(a, ast.ExceptHandler) for a in _anc(c))]
        R.check(len(in_handler) == 1 and len(in_else) == 1 and all(norm(kwarg(c, 'identifier')) == 'control_frame.identifier' for c in rej), rule, 'bumble.l2cap.ChannelManager.on_control_frame', 'Command Reject (same identifier) when the handler raises and when no handler exists', 'signalling errors are no longer answered with a Command Reject for the offending identifier', p.loc(oc))
    sc = p.find('bumble.smp.Session.on_smp_command')
    if sc is not None:
        hs = [h for h in ast.walk(sc) if isinstance(h, ast.ExceptHandler)]
        R.check(len(hs) == 1 and (hs[0].type is None or norm(hs[0].type) == 'Exception'), rule, 'bumble.smp.Session.on_smp_command', 'handler exceptions are contained', 'SMP handler exceptions escape', p.loc(sc))
    pp = p.find('bumble.transport.common.PacketPump.run')
    if pp is not None:
        R.check(any(isinstance(t, ast.Try) for t in ast.walk(pp)), rule, 'bumble.transport.common.PacketPump.run', 'pump loop contains exceptions', 'packet pump no longer contains exceptions', p.loc(pp))


def _call_graph(p, mods):
    funcs = {}
    for mn in mods:
        m = p.modules.get(mn)
        if m is None:
            continue
        for fn in ast.walk(m.tree):
            if isinstance(fn, FUNC):
                funcs[p.qual_of(fn)] = fn
    g = {}
    for q, fn in funcs.items():
        ci = p.class_of(fn)
        outs = set()
        for c in ast.walk(fn):
            if not isinstance(c, ast.Call):
                continue
            d = dotted(c.func) or ''
            if d.startswith(('self.', 'cls.')) and d.count('.') == 1 and ci:
                r = p.resolve_method(ci.qual, d.split('.')[1])
                if r:
                    outs.add(f'{r[0].qual}.{d.split(".")[1]}')
            elif d and '.' not in d:
                mq = f'{fn._module.name}.{d}'
                if mq in funcs:
                    outs.add(mq)
            else:
                parts = d.split('.')
                if len(parts) == 2:
                    cq = p.resolve_name(fn._module, parts[0])
                    if cq in p.classes:
                        r = p.resolve_method(cq, parts[1])
                        if r:
                            outs.add(f'{r[0].qual}.{parts[1]}')
        g[q] = outs
    return funcs, g


def _sccs(g):
    import sys
    sys.setrecursionlimit(20000)
    idx, low, st, on, res, c = {}, {}, [], set(), [], [0]

    def sc(v):
        idx[v] = low[v] = c[0]
        c[0] += 1
        st.append(v)
        on.add(v)
        for w in g.get(v, ()):
            if w not in g:
                continue
            if w not in idx:
                sc(w)
                low[v] = min(low[v], low[w])
            elif w in on:
                low[v] = min(low[v], idx[w])
        if low[v] == idx[v]:
            comp = []
            while True:
                w = st.pop()
                on.discard(w)
                comp.append(w)
                if w == v:
                    break
            if len(comp) > 1 or v in g.get(v, ()):
                res.append(sorted(comp))
    for v in sorted(g):
        if v not in idx:
            sc(v)
    return res


RECURSION_EXCEPT = {
    'bumble.sdp.ServiceAttribute.is_uuid_in_value': 'walks a DataElement tree that was built locally or produced by the depth-guarded parser',
    'bumble.gatt_server.Server.add_service': 'local API (included services of a locally defined database)',
}


def recursion(ctx):
    R, p = ctx.r, ctx.p
    rule = 'C17.recursion'
    funcs, g = _call_graph(p, SCOPE)
    sccs = _sccs(g)
    R.extra['recursive_cycles'] = sccs
    for comp in sccs:
        key = ' <-> '.join(comp)
        if all(c in RECURSION_EXCEPT for c in comp):
            R.ok(rule, key, 'named exception: ' + RECURSION_EXCEPT[comp[0]], p.loc(funcs[comp[0]]), trivial=True)
            continue
        guarded = False
        for q in comp:
            fn = funcs[q]
            for n in walk_local(fn):
                if isinstance(n, ast.If) and any(isinstance(x, ast.Raise) for x in n.body):
                    t = norm(n.test)
                    if any(w in t for w in ('depth', 'nesting', 'level')) and any(op in t for op in ('>=', '>')):
                        guarded = True
        R.check(guarded, rule, key, 'a raising depth guard bounds the recursion', 'recursive cycle reachable from received data has no raising depth guard: deeply nested input exhausts the stack', p.loc(funcs[comp[0]]))
    sd = p.find('bumble.sdp.DataElementParser._list_from_bytes')
    if sd is None:
        R.bad(rule, 'bumble.sdp.DataElementParser._list_from_bytes', 'anchor missing')
    else:
        s = norm(sd)
        R.check('if self.depth >= self.max_depth:' in s and 'self.depth += 1' in s and 'self.depth -= 1' in s, rule, 'bumble.sdp.DataElementParser._list_from_bytes | depth accounting', 'depth checked, incremented and decremented around the recursion', 'SDP nesting depth is not tracked around the recursive descent', p.loc(sd))
        try:
            md = p.module_const('bumble.sdp', '_MAX_DATA_ELEMENT_NESTING')
            R.check(1 <= md <= 200, rule, 'bumble.sdp._MAX_DATA_ELEMENT_NESTING', f'{md} (well below the interpreter recursion limit: two frames per level)', f'nesting limit {md} does not protect the interpreter stack', '')
        except Exception:
            R.bad(rule, 'bumble.sdp._MAX_DATA_ELEMENT_NESTING', 'anchor missing')
    R.floor(rule, 2, 'recursive cycles')


class _Touched(paths.Domain):
    """value = frozenset of condition variables modified on this path."""

    def __init__(self, names, input_derived=()):
        self.names = names
        self.input_derived = set(input_derived)

    def _hit(self, target):
        t = norm(target)
        out = set()
        for n in self.names:
            if t == n or t.startswith(n + '[') or t.startswith(n + '.'):
                out.add(n)
        return out

    def _positive(self, e, v):
        if is_const(e):
            try:
                return const(e) > 0
            except TypeError:
                return True
        t = norm(e)
        if ('+', t) in v:
            return True
        if isinstance(e, (ast.Name, ast.Attribute)):
            # only amounts read straight from received bytes can be 0 without a guard
            return t not in self.input_derived
        if isinstance(e, ast.Call) and call_attr(e) == 'max' and any(is_const(a) and const(a) > 0 for a in e.args):
            return True
        if isinstance(e, ast.BinOp) and isinstance(e.op, ast.Add):
            return self._positive(e.left, v) or self._positive(e.right, v)
        if isinstance(e, ast.BinOp) and isinstance(e.op, ast.Mult):
            return self._positive(e.left, v) and self._positive(e.right, v)
        return True

    def assume(self, atom, truth, v):
        t = norm(atom)
        import re as _re
        facts = set()
        m = _re.match(r'^(.+) > 0$', t) or _re.match(r'^(.+) >= 1$', t) or _re.match(r'^(.+) != 0$', t)
        if m and truth:
            facts.add(('+', m.group(1)))
        m = _re.match(r'^(.+) == 0$', t) or _re.match(r'^(.+) <= 0$', t) or _re.match(r'^not (.+)$', t)
        if m and not truth:
            facts.add(('+', m.group(1)))
        if truth and isinstance(atom, (ast.Name, ast.Attribute)):
            facts.add(('+', t))
        return (v | frozenset(facts),)

    def event(self, node, v):
        hit = set()
        if isinstance(node, ast.Assign):
            for t in node.targets:
                for e in (t.elts if isinstance(t, (ast.Tuple, ast.List)) else [t]):
                    hit |= self._hit(e)
        elif isinstance(node, ast.AugAssign):
            h = self._hit(node.target)
            if h and isinstance(node.op, (ast.Add, ast.Sub)) and not self._positive(node.value, v):
                h = set()  # `x += e` with e possibly 0 is not progress
            hit |= h
        elif isinstance(node, ast.Delete):
            for t in node.targets:
                hit |= self._hit(t)
        elif isinstance(node, ast.NamedExpr):
            hit |= self._hit(node.target)
        elif isinstance(node, ast.Call) and isinstance(node.func, ast.Attribute):
            # mutation through a method of the variable (x.pop(), x.append(..), self.parse_next() advancing self.offset)
            recv = norm(node.func.value)
            for n in self.names:
                if recv == n or n.startswith(recv + '.') or recv.startswith(n + '.'):
                    hit.add(n)
        elif isinstance(node, ast.Await):
            hit |= set(self.names)  # state may change while suspended
        return (v | frozenset(hit),)


def _cond_names(test):
    """Variables a loop condition reads: names / self attributes; for method calls the
    receiver object; walrus targets (recomputed by the condition itself) excluded."""
    walrus = {norm(x.target) for x in ast.walk(test) if isinstance(x, ast.NamedExpr)}
    out = set()
    for x in ast.walk(test):
        par = getattr(x, '_parent', None)
        if isinstance(x, (ast.Name, ast.Attribute)) and not isinstance(par, ast.Attribute):
            if isinstance(par, ast.Call) and par.func is x:
                if isinstance(x, ast.Attribute):
                    out.add(norm(x.value))
                continue
            out.add(norm(x))
    return {n for n in out if n not in ('self', 'len') and not n[0].isupper() and n not in walrus}


def loops(ctx):
    R, p = ctx.r, ctx.p
    rule = 'C17.loops'
    n = n_true = 0
    for mn in SCOPE:
        m = p.modules.get(mn)
        if m is None:
            continue
        for fn in [x for x in ast.walk(m.tree) if isinstance(x, FUNC)]:
            for lp in [x for x in walk_local(fn) if isinstance(x, ast.While)]:
                key = f'{p.qual_of(fn)} | while {norm(lp.test)[:60]}'
                if isinstance(lp.test, ast.Constant) and lp.test.value:
                    n_true += 1
                    leaves = any(isinstance(x, (ast.Return, ast.Raise, ast.Break)) for x in walk_local(lp)) or any(isinstance(x, ast.Await) for x in walk_local(lp))
                    R.check(leaves, rule, key + f' @{lp.lineno}', '`while True` contains a leaving statement or an await', '`while True` loop has neither a way out nor an await: it spins forever', p.loc(lp))
                    continue
                names = _cond_names(lp.test)
                # control dependence: variables tested by the ifs that guard updates of the condition variables
                for _ in range(2):
                    for s_ in walk_local(lp):
                        if isinstance(s_, (ast.Assign, ast.AugAssign)):
                            tg = s_.targets if isinstance(s_, ast.Assign) else [s_.target]
                            if any(norm(t) in names for t in tg):
                                for a in _anc(s_):
                                    if a is lp:
                                        break
                                    if isinstance(a, ast.If):
                                        names |= _cond_names(a.test)
                # calls in the condition (e.g. `while self.queue:` / `while not q.empty()`) keep their receivers
                if not names:
                    continue
                n += 1
                derived = set()
                for s_ in walk_local(lp):
                    if isinstance(s_, ast.Assign) and len(s_.targets) == 1:
                        v_ = s_.value
                        while isinstance(v_, ast.Subscript) and isinstance(v_.value, ast.Call):
                            v_ = v_.value  # struct.unpack_from(...)[0]
                        if (isinstance(v_, ast.Subscript) and not isinstance(v_.slice, ast.Slice)) or (isinstance(v_, ast.Call) and (dotted(v_.func) or '').startswith('struct.unpack')):
                            for t_ in (s_.targets[0].elts if isinstance(s_.targets[0], ast.Tuple) else [s_.targets[0]]):
                                derived.add(norm(t_))
                names -= derived  # values re-read from the input each iteration are not progress
                if not names:
                    continue
                it = paths.Interp(_Touched(sorted(names), derived))
                it.sinks.append({})
                try:
                    entry, _f = it.branch(lp.test, {frozenset(): ()})
                    out = it.block(lp.body, entry or {frozenset(): ()})
                except Exception as e:  # pragma: no cover
                    R.skip(rule, key, f'not analysed: {e}', p.loc(lp))
                    continue
                back = paths.join(out.get('fall', {}), out.get('continue', {}))
                stuck = [w for v, w in back.items() if not any(not isinstance(x, tuple) for x in v)]
                R.check(not stuck, rule, key + f' @{lp.lineno}', f'every back edge modifies one of {sorted(names)}',
                        f'a path through the loop body reaches the next iteration without changing any of {sorted(names)}: on that input the loop never ends (via {" ".join(stuck[0]) if stuck else ""})', p.loc(lp))
    R.extra['while_loops'] = {'conditioned': n, 'while_true': n_true}
    R.floor(rule, 35, 'while loops')


def consume_first(ctx):
    R, p = ctx.r, ctx.p
    rule = 'C17.consume-first'
    for q in ('bumble.hfp.HfProtocol._read_at', 'bumble.hfp.AgProtocol._read_at'):
        fn = p.find(q)
        if fn is None:
            R.bad(rule, q, f'anchor missing: {q}')
            continue
        lp = next((x for x in walk_local(fn) if isinstance(x, ast.While)), None)
        if lp is None:
            R.bad(rule, q, 'reader loop not found', p.loc(fn))
            continue
        consume = [s for s in lp.body if isinstance(s, ast.Assign) and dotted(s.targets[0]) == 'self.read_buffer' and slice_parts(s.value) and slice_parts(s.value)[0] == 'self.read_buffer']
        parses = [c for c in calls_in(lp) if call_attr(c) in ('parse_from', 'parse_parameters')]
        ok = len(consume) == 1 and parses and all(c.lineno > consume[0].lineno for c in parses)
        R.check(ok, rule, q + ' | consume before parse', 'the framed line leaves the buffer before it is parsed', 'the line is parsed while still in the buffer: a malformed line raises on every later read and wedges the stream', p.loc(lp))
        contained = parses and all(_in_try_catching_exception(c, fn) for c in parses)
        R.check(bool(contained), rule, q + ' | parse contained', 'a line that does not parse is skipped (AG: answered with ERROR) and the loop continues', 'a parse error escapes the reader loop: the rest of the received chunk is not processed', p.loc(lp))
        if consume:
            sp = slice_parts(consume[0].value)
            delim = 2 if 'Hf' in q else 1
            R.check(sp[1] == f'trailer + {delim}' and sp[2] is None, rule, q + ' | consumed span', f'buffer advances past the {delim}-byte terminator', f'buffer advance is {sp}', p.loc(consume[0]))


def state_reset(ctx):
    R, p = ctx.r, ctx.p
    rule = 'C17.state-reset'
    groups = [
        ('bumble.l2cap.LeCreditBasedChannel.on_pdu', {'self.in_sdu': 'None', 'self.in_sdu_length': '0'}),
        ('bumble.hci.HCI_AclDataPacketAssembler.feed_packet', {'self.current_data': 'None', 'self.l2cap_pdu_length': '0'}),
    ]
    for q, grp in groups:
        fn = p.find(q)
        if fn is None:
            R.bad(rule, q, f'anchor missing: {q}')
            continue
        n = 0
        for blk_owner in ast.walk(fn):
            for fld in ('body', 'orelse', 'finalbody'):
                blk = getattr(blk_owner, fld, None)
                if not isinstance(blk, list):
                    continue
                resets = {dotted(s.targets[0]) for s in blk if isinstance(s, ast.Assign) and dotted(s.targets[0]) in grp and norm(s.value) == grp[dotted(s.targets[0])]}
                if resets:
                    n += 1
                    R.check(resets == set(grp), rule, f'{q} | reset block @{blk[0].lineno}', f'{sorted(grp)} reset together', f'only {sorted(resets)} of {sorted(grp)} is reset here: the next unit is framed against stale state', p.loc(blk[0]))
        R.check(n >= 2, rule, f'{q} | reset sites', f'{n} reset blocks (delivery and error path)', f'only {n} reset block(s) found')
    # the receiver of an LE credit-based channel keeps waiting only for bytes that are really missing: a `return` that leaves
    # the accumulated SDU in place is under `len(in_sdu) < 2` (header incomplete) or `len(in_sdu) < 2 + in_sdu_length`
    # (body incomplete) -- never under a test of a value the peer announces (a length of 0 is a legal announcement)
    from ..sym import same_ineq
    fn = p.find('bumble.l2cap.LeCreditBasedChannel.on_pdu')
    if fn is not None:
        acc = [n_ for n_ in fn.body if any(isinstance(x, (ast.Assign, ast.AugAssign)) and dotted(x.targets[0] if isinstance(x, ast.Assign) else x.target) == 'self.in_sdu' for x in ast.walk(n_))]
        start = fn.body.index(acc[0]) if acc else len(fn.body)
        waits, bad = 0, []
        for top in fn.body[start + 1:]:
            for r in [x for x in ast.walk(top) if isinstance(x, ast.Return)]:
                blk = None
                par = getattr(r, '_parent', None)
                for fld in ('body', 'orelse'):
                    b = getattr(par, fld, None)
                    if isinstance(b, list) and r in b:
                        blk = b
                if blk is not None and any(isinstance(x, ast.Assign) and dotted(x.targets[0]) == 'self.in_sdu' and norm(x.value) == 'None' for x in blk):
                    continue  # discards the SDU: not a wait
                waits += 1
                g = [(t, pol) for t, pol in paths.flat_guards(r)]
                ok = any(pol and (same_ineq(t, 'len(self.in_sdu) < 2') or same_ineq(t, 'len(self.in_sdu) < 2 + self.in_sdu_length')) for t, pol in g)
                if not ok:
                    bad.append(f'line {r.lineno} under {[norm(t) for t, pol in g]}')
        R.check(waits >= 2 and not bad, rule, 'bumble.l2cap.LeCreditBasedChannel.on_pdu | waits only for missing bytes', f'{waits} waiting exits, each under a comparison of the received size with what is still needed',
                'the receiver goes on waiting under a test that is not about missing bytes (e.g. an announced SDU length of 0 taken for "length not known yet"): after such a frame every later SDU is appended to a buffer that never completes', p.loc(fn), bad[:3])


def all_entries(ctx):
    R, p = ctx.r, ctx.p
    rule = 'C17.all-entries'
    h = p.cls('bumble.host.Host')
    if h is None:
        R.bad(rule, 'bumble.host.Host', 'anchor missing')
        return
    n = 0
    for name, m in sorted(h.methods.items()):
        if not (name.startswith('on_hci_') and name.endswith('_event')):
            continue
        for lp in [x for x in walk_local(m) if isinstance(x, ast.For)]:
            it = norm(lp.iter)
            if 'event.' not in it:
                continue
            n += 1
            leaves = [x for x in walk_local(lp) if isinstance(x, (ast.Return, ast.Break)) and next(a for a in _anc(x) if isinstance(a, (ast.For, ast.While))) is lp]
            R.check(not leaves, rule, f'bumble.host.Host.{name} | loop over {it[:50]}', 'every entry of the event is processed', 'the per-entry loop can stop early (return/break): entries after an unknown or odd one are silently dropped', p.loc(leaves[0]) if leaves else p.loc(lp))
    R.check(n >= 2, rule, 'bumble.host.Host | event loops', f'{n} per-entry loops', f'only {n} per-entry loops found')


def locks(ctx):
    R, p = ctx.r, ctx.p
    rule = 'C17.locks'
    n = 0
    for mn in SCOPE + ['bumble.device', 'bumble.gatt_client']:
        m = p.modules.get(mn)
        if m is None:
            continue
        for fn in [x for x in ast.walk(m.tree) if isinstance(x, FUNC)]:
            for c in calls_in(fn):
                if call_attr(c) == 'acquire' and isinstance(c.func, ast.Attribute):
                    recv = norm(c.func.value)
                    if not any(w in recv for w in ('semaphore', 'lock', 'mutex')):
                        continue
                    n += 1
                    rel = [x for x in calls_in(fn) if call_attr(x) == 'release' and norm(x.func.value) == recv]
                    in_finally = any(any(isinstance(a, ast.Try) and any(any(x is y for y in ast.walk(s)) for s in a.finalbody) for a in _anc(x)) for x in rel)
                    straight = bool(rel) and not any(isinstance(y, ast.Await) for y in walk_local(fn) if getattr(y, 'lineno', 0) > c.lineno and getattr(y, 'lineno', 0) < rel[-1].lineno)
                    ci = p.class_of(fn)
                    elsewhere = []
                    if ci is not None and not rel:
                        elsewhere = [mn2 for mn2, m2 in ci.methods.items() if m2 is not fn and any(call_attr(x) == 'release' and norm(x.func.value) == recv for x in calls_in(m2))]
                        # mutex-style use (some method acquires and releases it itself): every acquirer must release
                        mutex = any(any(call_attr(x) == 'acquire' and norm(x.func.value) == recv for x in calls_in(m2)) and any(call_attr(x) == 'release' and norm(x.func.value) == recv for x in calls_in(m2)) for m2 in ci.methods.values())
                        if mutex:
                            elsewhere = []
                    if elsewhere:
                        R.ok(rule, f'{p.qual_of(fn)} | {recv}.acquire()', f'credit-style semaphore: released by {sorted(elsewhere)} when the awaited event arrives', p.loc(c))
                        continue
                    R.check(in_finally or straight, rule, f'{p.qual_of(fn)} | {recv}.acquire()', 'released in `finally` (or before any further await)', f'{recv} is acquired but not released on every exit of {fn.name}: a failure in between blocks every later user', p.loc(c))
    n_with = 0
    for mn in SCOPE + ['bumble.device', 'bumble.gatt_client']:
        m = p.modules.get(mn)
        if m is None:
            continue
        for w in ast.walk(m.tree):
            if isinstance(w, ast.AsyncWith) and any(any(k in norm(it.context_expr) for k in ('semaphore', 'lock')) for it in w.items):
                n_with += 1
    R.ok(rule, 'census', f'{n} explicit acquire site(s) checked; {n_with} `async with` uses (paired by construction)', '')
    R.check(n + n_with >= 4, rule, 'coverage', f'{n + n_with} lock uses', f'only {n + n_with} lock uses found')



def parser_reset(ctx):
    """The push parser of the byte-stream transports is framed from scratch after any rejected byte (rules shared with C02)."""
    from . import c02
    c02.push_parser(ctx, rule='C17.parser-reset')


def response_routing(ctx):
    """The HF reader hands a line to the command-response queue only while a command is outstanding."""
    R, p = ctx.r, ctx.p
    rule = 'C17.response-routing'
    fn = p.find('bumble.hfp.HfProtocol._read_at')
    if fn is None:
        R.bad(rule, 'bumble.hfp.HfProtocol._read_at', 'anchor missing')
        return
    puts = [c for c in calls_in(fn) if call_attr(c) == 'put_nowait' and dotted(c.func.value) == 'self.response_queue']
    ok = bool(puts)
    for c in puts:
        g = [(norm(t), pol) for t, pol in paths.flat_guards(c)]
        ok = ok and ('self.pending_command', True) in g
    R.check(ok, rule, 'bumble.hfp.HfProtocol._read_at | response queue', 'lines are queued as command responses only under `self.pending_command`',
            'a final result code received while no command is outstanding is queued as a response: it is taken as the answer to the next command and every later command/response pair is shifted by one', p.loc(fn))
    uns = [c for c in calls_in(fn) if call_attr(c) == 'put_nowait' and dotted(c.func.value) == 'self.unsolicited_queue']
    same_if = False
    if len(uns) == 1 and len(puts) == 1:
        for n_ in ast.walk(fn):
            if isinstance(n_, ast.If):
                in_body = any(puts[0] is x for s_ in n_.body for x in ast.walk(s_))
                in_else = any(uns[0] is x for s_ in n_.orelse for x in ast.walk(s_))
                same_if = same_if or (in_body and in_else)
    R.check(same_if, rule, 'bumble.hfp.HfProtocol._read_at | every line routed', 'each parsed line goes to exactly one of the two queues (if/else)', 'a parsed line may be dropped or queued twice', p.loc(fn))
    ex = p.find('bumble.hfp.HfProtocol.execute_command')
    if ex is not None:
        fin = [t for t in ast.walk(ex) if isinstance(t, ast.Try) and t.finalbody]
        ok = any(norm(s_) == 'self.pending_command = None' for t in fin for s_ in t.finalbody)
        R.check(ok, rule, 'bumble.hfp.HfProtocol.execute_command | pending cleared', 'pending_command is cleared in finally (also on timeout / error)', 'pending_command can stay set after a failed command: unsolicited lines are then swallowed as responses', p.loc(ex))



# call sites where an exception escaping feed_data is harmless: the caller is a plain event-loop callback
# (the loop logs the exception, the reader stays registered, the parser has already reset itself)
FEED_EXEMPT = {
    'bumble.transport.hci_socket': 'socket reader callback registered with add_reader: the loop logs the exception and calls it again',
    'bumble.transport.vhci': 'read-pipe protocol callback: the exception is logged by the loop, the pipe stays open',
    'bumble.transport.udp': 'datagram_received is called outside the datagram transport\'s own try block: logged, transport stays open',
    'bumble.transport.pyusb': 'invoked through call_soon_threadsafe: logged by the loop',
}


def feed_contained(ctx, rule='C17.feed-contained'):
    """Wherever received bytes are pushed into the HCI packet parser, an InvalidPacketError cannot kill the transport."""
    R, p = ctx.r, ctx.p
    n = 0
    for mname, m in sorted(p.modules.items()):
        if not mname.startswith('bumble.transport'):
            continue
        for c in ast.walk(m.tree):
            if not (isinstance(c, ast.Call) and call_attr(c) == 'feed_data'):
                continue
            fn = None
            a = getattr(c, '_parent', None)
            contained = False
            prev = c
            crossed_loop = False
            while a is not None:
                if isinstance(a, (ast.For, ast.AsyncFor, ast.While)) and fn is None:
                    crossed_loop = True
                if isinstance(a, ast.Try) and any(prev is s_ for s_ in a.body) and fn is None:
                    # a handler outside the receive loop ends that loop: only a handler inside the innermost loop
                    # (or one that is itself inside a further loop of the same function) lets reception go on
                    in_outer_loop = False
                    b = getattr(a, '_parent', None)
                    while b is not None and not isinstance(b, FUNC):
                        in_outer_loop = in_outer_loop or isinstance(b, (ast.For, ast.AsyncFor, ast.While))
                        b = getattr(b, '_parent', None)
                    for h in (a.handlers if (not crossed_loop or in_outer_loop) else []):
                        ts = h.type.elts if isinstance(h.type, ast.Tuple) else ([h.type] if h.type is not None else [])
                        names = {text(t).split('.')[-1] for t in ts} or {'<bare>'}
                        # the handler must let the surrounding loop go on (no break / return / raise at its end)
                        leaves = h.body and isinstance(h.body[-1], (ast.Break, ast.Return, ast.Raise))
                        if names & {'InvalidPacketError', '<bare>'} and not leaves:
                            contained = True
                        elif names & {'Exception', 'BaseException'} and not leaves and not contained:
                            contained = True
                        if names & {'InvalidPacketError', 'Exception', 'BaseException', '<bare>'}:
                            break
                if isinstance(a, FUNC) and fn is None:
                    fn = a
                prev, a = a, getattr(a, '_parent', None)
            if fn is not None and fn.name == 'feed_data':
                continue
            n += 1
            key = f'{p.qual_of(c)} | parser.feed_data'
            if contained:
                R.ok(rule, key, 'inside try/except InvalidPacketError that lets the transport go on', p.loc(c))
            elif mname in FEED_EXEMPT:
                R.ok(rule, key, f'uncontained, harmless: {FEED_EXEMPT[mname]}', p.loc(c))
            else:
                R.bad(rule, key, 'received bytes are pushed into the packet parser where an InvalidPacketError (unknown packet-type byte) escapes into the transport: the connection / pump is torn down and every later well-formed packet is lost', p.loc(c))
    R.check(n >= 6, rule, 'bumble.transport | parser feed sites', f'{n} call sites of parser.feed_data examined', f'only {n} feed sites found')



LOST_WRITE_SITES = ('bumble.avctp.MessageAssembler.on_pdu', 'bumble.avdtp.MessageAssembler.on_pdu', 'bumble.avrcp.PduAssembler.on_pdu')


def lost_write(ctx, rule='C17.lost-write'):
    """A reassembler that heals itself with reset() in the middle of handling a fragment does not wipe what it has
    already recorded about that very fragment."""
    R, p = ctx.r, ctx.p
    n = 0
    for q in LOST_WRITE_SITES:
        m = p.find(q)
        ci = p.cls(q.rsplit('.', 1)[0])
        r = ci.methods.get('reset') if ci else None
        if m is None or r is None:
            R.bad(rule, q, 'anchor missing')
            continue
        flds = {dotted(t)[5:] for x in walk_local(r) if isinstance(x, (ast.Assign, ast.AugAssign)) for t in (x.targets if isinstance(x, ast.Assign) else [x.target]) if (dotted(t) or '').startswith('self.') and (dotted(t) or '').count('.') == 1}

        class D(paths.Domain):
            # (fields written since entry / the last reset, fields written then wiped, state written after the last reset)
            def event(self, node, v):
                w, lost, after = v
                if isinstance(node, (ast.Assign, ast.AugAssign)):
                    for t in (node.targets if isinstance(node, ast.Assign) else [node.target]):
                        d = dotted(t) or ''
                        if d.startswith('self.') and d[5:] in flds:
                            w, lost, after = w | {d[5:]}, lost - {d[5:]}, True
                if isinstance(node, ast.Call) and dotted(node.func) == 'self.reset':
                    w, lost, after = frozenset(), lost | w, False
                return ((w, lost, after),)
        res = paths.run(m, D(), (frozenset(), frozenset(), False))
        bad = sorted({f'{k}: {sorted(v[1])} recorded, wiped by reset(), then processing went on' for k, st in res.items() if not k.startswith('raise') for v in st if v[1] and v[2]})
        n += 1
        R.check(len(flds) >= 2 and not bad, rule, q, f'no path records one of {sorted(flds)} for the current fragment, resets, and carries on without recording it again',
                'a field recorded for the fragment being handled is wiped by the self-healing reset() that follows and processing continues with the wiped value: the well-formed message that follows an abandoned one is rejected', p.loc(m), bad[:3])
    R.check(n == len(LOST_WRITE_SITES), rule, 'reassemblers', f'{n} reassemblers analysed', f'only {n} reassemblers found')


RESPONSE_GUARDED = {
    'bumble.l2cap.ClassicChannel': ('on_connection_response', 'on_configure_response', 'on_disconnection_response'),
    'bumble.l2cap.LeCreditBasedChannel': ('on_disconnection_response',),
}
STATE_EFFECTS = ('self._change_state', 'self._disconnect_sync', 'self.manager.on_channel_closed', 'self._abort_connection_result', 'self.abort', 'self.emit')


def state_guard(ctx, rule='C17.state-guard'):
    """A signalling *response* only has an effect on a channel that is waiting for it: every state-changing effect
    of a response handler is under a test of self.state."""
    R, p = ctx.r, ctx.p
    n = 0
    for cq, names in RESPONSE_GUARDED.items():
        ci = p.cls(cq)
        for name in names:
            m = ci.methods.get(name) if ci else None
            if m is None:
                R.bad(rule, f'{cq}.{name}', 'anchor missing')
                continue
            for c in calls_in(m):
                d = dotted(c.func) or ''
                if d not in STATE_EFFECTS:
                    continue
                n += 1
                g = [norm(t) for t, pol in paths.flat_guards(c)]
                early = []
                # an early `if self.state != X: ... return` before the statement also guards it
                top = c
                while getattr(top, '_parent', None) is not m:
                    top = top._parent
                for s_ in m.body[:m.body.index(top)]:
                    if isinstance(s_, ast.If) and 'self.state' in norm(s_.test) and s_.body and isinstance(s_.body[-1], (ast.Return, ast.Raise)):
                        early.append(norm(s_.test))
                R.check(any('self.state' in t for t in g + early), rule, f'{cq}.{name} | {d} @{len([o for o in R.obs if o.rule == rule])}', f'under a test of the channel state ({(g + early)[:1]})',
                        f'`{d}` in a response handler is not under any test of self.state: a response nobody is waiting for (a stray or replayed one) changes an OPEN channel', p.loc(c))
    R.check(n >= 10, rule, 'bumble.l2cap | guarded effects', f'{n} state-changing effects in response handlers', f'only {n} effects found')


ITEM_LOOPS = (
    # (function, call that handles one item, exception that is allowed to end the loop)
    ('bumble.hfp.HfProtocol.run', 'self.handle_unsolicited', 'HfLoopTermination'),
)


def loop_contained(ctx, rule='C17.loop-contained'):
    """A long-lived loop that handles one received item per iteration survives an item that makes its handler raise."""
    R, p = ctx.r, ctx.p
    for q, handler, stop in ITEM_LOOPS:
        fn = p.find(q)
        if fn is None:
            R.bad(rule, q, 'anchor missing')
            continue
        loops = [l for l in ast.walk(fn) if isinstance(l, ast.While) and any(dotted(c.func) == handler for c in calls_in(l))]
        if len(loops) != 1:
            R.bad(rule, q, f'{len(loops)} loops around {handler}', p.loc(fn))
            continue

        class D(paths.Domain):
            def may_raise(self, call):
                return 'ItemError' if dotted(call.func) == handler else False

            def is_subclass(self, tag, name):
                return name in ('Exception', 'BaseException') or tag == name.split('.')[-1]
        res = paths.run_block(loops[0].body, D(), 0)
        leaves = sorted(k for k in res if k.startswith('raise') or k in ('break',) or k.startswith('ret'))
        leaves = [k for k in leaves if stop not in k]
        R.check(not leaves, rule, f'{q} | {handler}', f'an exception raised while handling one item is caught inside the loop (only {stop} ends it)',
                f'an exception raised by {handler} for one malformed item leaves the loop ({leaves}): every later item is queued and never handled', p.loc(loops[0]))


def live_entry(ctx, rule='C17.live-entry'):
    """A command from the peer that names an identifier already in use does not silently replace the live object."""
    R, p = ctx.r, ctx.p
    fn = p.find('bumble.rfcomm.Multiplexer.on_mcc_pn')
    if fn is None:
        R.bad(rule, 'bumble.rfcomm.Multiplexer.on_mcc_pn', 'anchor missing')
        return
    stores = [n for n in ast.walk(fn) if isinstance(n, ast.Assign) and isinstance(n.targets[0], ast.Subscript) and dotted(n.targets[0].value) == 'self.dlcs']
    n = 0
    for st in stores:
        g = [(norm(t), pol) for t, pol in paths.flat_guards(st)]
        if ('c_r', True) not in g:
            # the response branch: our own request is pending (state test)
            R.check(any('self.state' in t for t, pol in g), rule, f'bumble.rfcomm.Multiplexer.on_mcc_pn | response store @{st.lineno - fn.lineno}', 'a PN response creates the DLC only while this side is opening one', 'PN response creates a DLC in any state', p.loc(st))
            continue
        n += 1
        key = norm(st.targets[0].slice)
        ok = any((f'self.dlcs.get({key})' in t or f'{key} in self.dlcs' in t) and not pol for t, pol in g) or any(f'{key} not in self.dlcs' in t and pol for t, pol in g)
        R.check(ok, rule, 'bumble.rfcomm.Multiplexer.on_mcc_pn | command store', f'a PN command creates a DLC under `{key}` only where the existing entry has been looked at (an open DLC is kept)',
                f'a PN command for a DLCI that is already open replaces the live DLC in self.dlcs[{key}] with a fresh one that has no consumer: data written afterwards never reaches the application', p.loc(st))
    R.check(n == 1, rule, 'bumble.rfcomm.Multiplexer.on_mcc_pn | stores', f'{n} command-side store', f'{n} command-side stores found (expected 1)')


def validate_first(ctx, rule='C17.validate-first'):
    """A reassembler does not change its state for a fragment and only then index into the fragment: an access that can
    raise (pdu[k], struct.unpack_from on the pdu) after a state write is preceded by a length test made before that write.
    Otherwise a truncated fragment leaves half-updated state behind and the next well-formed message is misjudged."""
    R, p = ctx.r, ctx.p
    n = 0
    for q in LOST_WRITE_SITES:
        m = p.find(q)
        ci = p.cls(q.rsplit('.', 1)[0])
        r = ci.methods.get('reset') if ci else None
        if m is None or r is None:
            R.bad(rule, q, 'anchor missing')
            continue
        arg = m.args.args[1].arg
        flds = {dotted(t)[5:] for x in walk_local(r) if isinstance(x, (ast.Assign, ast.AugAssign)) for t in (x.targets if isinstance(x, ast.Assign) else [x.target]) if (dotted(t) or '').startswith('self.') and (dotted(t) or '').count('.') == 1}

        def accesses(node):
            out = []
            for x in ast.walk(node):
                if isinstance(x, ast.Subscript) and isinstance(x.value, ast.Name) and x.value.id == arg and not isinstance(x.slice, ast.Slice):
                    out.append(x)
                if isinstance(x, ast.Call) and dotted(x.func) in ('struct.unpack_from', 'struct.unpack') and len(x.args) >= 2 and isinstance(x.args[1], ast.Name) and x.args[1].id == arg:
                    out.append(x)
            return out
        hits = []

        class D(paths.Domain):
            # (a length test on the fragment was passed before the first state write, a state field was written)
            def _look(self, node, v):
                if v[1] and not v[0] and accesses(node):
                    hits.append(getattr(node, 'lineno', 0))

            def event(self, node, v):
                if isinstance(node, (ast.Assign, ast.AugAssign, ast.Expr, ast.Return)):
                    self._look(node, v)
                if isinstance(node, (ast.Assign, ast.AugAssign)):
                    for t in (node.targets if isinstance(node, ast.Assign) else [node.target]):
                        d = dotted(t) or ''
                        if d.startswith('self.') and d[5:] in flds:
                            return ((v[0], True),)
                return (v,)

            def assume(self, atom, truth, v):
                self._look(atom, v)
                t = norm(atom)
                if (f'len({arg})' in t or t == arg) and not v[1]:
                    return ((True, v[1]),)
                return (v,)
        paths.run(m, D(), (False, False))
        n += 1
        R.check(not hits, rule, q, 'no raising access into the fragment follows a state write that was not preceded by a length test',
                f'state is updated for a fragment before the fragment is known to be long enough (raising access at line {sorted(set(hits))[:3]}): a truncated fragment leaves the counter / fields half-updated and the well-formed message that follows is rejected', p.loc(m))
    R.check(n == len(LOST_WRITE_SITES), rule, 'reassemblers (validate first)', f'{n} reassemblers analysed', f'only {n} found')


def cmd_complete(ctx, rule='C17.cmd-complete'):
    """A Command Complete event always reaches the host's command machinery: a failure to parse its return parameters is
    contained in the event factory (raw bytes kept), because an event that raises in the parser is dropped by
    Host.on_packet and the pending command -- and the command semaphore -- would wait for ever."""
    R, p = ctx.r, ctx.p
    fn = p.find('bumble.hci.HCI_Command_Complete_Event.from_parameters')
    if fn is None:
        R.bad(rule, 'bumble.hci.HCI_Command_Complete_Event.from_parameters', 'anchor missing')
        return
    calls = [c for c in calls_in(fn) if call_attr(c) == 'parse_return_parameters']
    ok = bool(calls)
    for c in calls:
        cont = False
        a, prev = getattr(c, '_parent', None), c
        while a is not None and a is not fn:
            if isinstance(a, ast.Try) and any(prev is s_ or any(prev is x for x in ast.walk(s_)) for s_ in a.body):
                for h in a.handlers:
                    names = {text(t).split('.')[-1] for t in (h.type.elts if isinstance(h.type, ast.Tuple) else [h.type])} if h.type is not None else {'<bare>'}
                    sets = any(isinstance(x, ast.Assign) and dotted(x.targets[0]) == 'event.return_parameters' for x in ast.walk(h))
                    if names & {'Exception', 'BaseException', '<bare>'} and sets and not any(isinstance(x, ast.Raise) for x in ast.walk(h)):
                        cont = True
            prev, a = a, getattr(a, '_parent', None)
        ok = ok and cont
    R.check(ok, rule, 'bumble.hci.HCI_Command_Complete_Event.from_parameters | return parameters', 'parse_return_parameters is inside try/except Exception that falls back to the raw bytes',
            'truncated return parameters make the event factory raise: Host.on_packet drops the event, the pending command never completes and every later command waits for the semaphore', p.loc(fn))
    hp = p.find('bumble.host.Host.on_packet')
    if hp is not None:
        tr = [t for t in ast.walk(hp) if isinstance(t, ast.Try) and any(call_attr(c) == 'from_bytes' for s_ in t.body for c in ast.walk(s_) if isinstance(c, ast.Call))]
        R.check(len(tr) == 1 and any(isinstance(x, ast.Return) for h in tr[0].handlers for x in ast.walk(h)), rule, 'bumble.host.Host.on_packet | parse failures dropped', 'a packet that cannot be parsed is logged and dropped (which is why the factory above must not raise for a Command Complete)', 'Host.on_packet changed its handling of unparseable packets', p.loc(hp))


FORMAT_EXEMPT = {
    ('bumble.sdp.SDP_PDU', 'pdu'): 'unreachable: SDP_PDU.from_bytes raises for PDU ids without a class, so every instance has a field table and the branch reading self.pdu never runs',
}


def format_safe(ctx, rule='C17.format-safe'):
    """Received PDUs are formatted for the debug log before they are dispatched (f-strings are evaluated whatever the log
    level): the formatting methods only read attributes that exist, or a PDU of an unknown kind raises before it is handled."""
    R, p = ctx.r, ctx.p
    mods = ('bumble.smp', 'bumble.att', 'bumble.l2cap', 'bumble.sdp', 'bumble.avdtp', 'bumble.avctp', 'bumble.rfcomm', 'bumble.hci', 'bumble.avc', 'bumble.avrcp')

    def mro(ci, seen):
        if ci in seen:
            return seen
        seen.append(ci)
        for b in ci.bases:
            bi = p.classes.get(b)
            if bi is not None:
                mro(bi, seen)
        return seen
    n = 0
    for q, ci in sorted(p.classes.items()):
        if not any(q.startswith(m + '.') for m in mods):
            continue
        fm = [(mn, ci.methods[mn]) for mn in ('__str__', '__repr__', 'to_string') if mn in ci.methods]
        if not fm:
            continue
        chain = mro(ci, [])
        known_bases = all(any(k == b or k.endswith('.' + b.split('.')[-1]) for k in p.classes) or b.split('.')[-1] in ('object', 'Exception', 'IntEnum', 'IntFlag', 'Enum', 'Generic', 'Protocol', 'ABC') or '[' in b
                          for c in chain for b in [text(x) for x in c.node.bases])
        if not known_bases or any(('Enum' in text(x) or 'Flag' in text(x)) for c_ in chain for x in c_.node.bases):
            continue  # enum members get value / name from the enum machinery
        defined = set()
        dynamic = False
        for c in chain:
            defined |= set(c.methods) | set(c.assigns) | set(c.annots) | set(c.nested)
            for m in c.methods.values():
                for x in ast.walk(m):
                    if isinstance(x, ast.Attribute) and isinstance(x.ctx, ast.Store) and dotted(x.value) in ('self', 'cls'):
                        defined.add(x.attr)
                    if isinstance(x, ast.Call) and dotted(x.func) in ('setattr', 'vars') or (isinstance(x, ast.Attribute) and x.attr == '__dict__' and isinstance(x.ctx, ast.Store)):
                        dynamic = True
                    if isinstance(x, ast.Call) and (dotted(x.func) or '').endswith('__dict__.update'):
                        dynamic = True
            if '__getattr__' in c.methods:
                dynamic = True
        if dynamic:
            continue
        assigned_elsewhere = {x.attr for x in ast.walk(ci.module.tree) if isinstance(x, ast.Attribute) and isinstance(x.ctx, ast.Store)}
        n += 1
        bad = sorted({x.attr for mn, m in fm for x in ast.walk(m) if isinstance(x, ast.Attribute) and isinstance(x.ctx, ast.Load) and dotted(x.value) == 'self' and x.attr not in defined and x.attr not in assigned_elsewhere
                      and not x.attr.startswith('__') and (q, x.attr) not in FORMAT_EXEMPT})
        R.check(not bad, rule, q, 'its formatting methods read only attributes the class (or a base, or the module) defines',
                f'{q}.__str__ reads `self.{bad[0]}`, which nothing defines: formatting such an object raises AttributeError, and received PDUs are formatted for the debug log before they are dispatched' if bad else '', p.loc(fm[0][1]))
        # optional fields formatted as numbers: `f'{self.x:04x}'` raises TypeError for None; accepted only under some guard
        # (a test of the field itself or of the discriminant that says the field is present)
        optional = {a for c in chain for a, an in c.annots.items() if ' | None' in text(an) or text(an).startswith('Optional[')}
        for mn, m in fm:
            for fv in [x for x in ast.walk(m) if isinstance(x, ast.FormattedValue) and x.format_spec is not None]:
                spec = ''.join(v.value for v in fv.format_spec.values if isinstance(v, ast.Constant) and isinstance(v.value, str))
                v = fv.value
                if isinstance(v, ast.Attribute) and dotted(v.value) == 'self' and v.attr in optional and spec and spec[-1] in 'xXdbon':
                    guarded = bool(paths.flat_guards(fv, stop=m))
                    R.check(guarded, rule, f'{q}.{mn} | self.{v.attr}:{spec}', 'formatted as a number only under a guard',
                            f'`self.{v.attr}` may be None (declared optional) and is formatted with `:{spec}` unconditionally: formatting raises TypeError, and packets are formatted for the debug log before they are handed on, so such a packet is never sent / dispatched', p.loc(fv))
    R.check(n >= 30, rule, 'protocol modules | classes with formatting methods', f'{n} classes examined', f'only {n} classes examined')


def depth_balance(ctx, rule='C17.depth-balance'):
    """The SDP parser's nesting counter returns to its entry value on every normal exit of the recursive step."""
    R, p = ctx.r, ctx.p
    fn = p.find('bumble.sdp.DataElementParser._list_from_bytes')
    if fn is None:
        R.bad(rule, 'bumble.sdp.DataElementParser._list_from_bytes', 'anchor missing')
        return

    class D(paths.Domain):
        def event(self, node, v):
            if isinstance(node, ast.AugAssign) and dotted(node.target) == 'self.depth' and is_const(node.value) and const(node.value) == 1:
                return (v + (1 if isinstance(node.op, ast.Add) else -1),)
            return (v,)
    res = paths.run(fn, D(), 0)
    bad = [f'{k} with depth {v:+d} ({" ".join(w)})' for k, st in res.items() if not k.startswith('raise') for v, w in st.items() if v != 0]
    inc = [n for n in walk_local(fn) if isinstance(n, ast.AugAssign) and dotted(n.target) == 'self.depth']
    R.check(len(inc) >= 2 and not bad, rule, 'bumble.sdp.DataElementParser._list_from_bytes | depth restored', 'every normal exit leaves self.depth as it found it',
            'a path returns with the nesting counter still raised: the counter leaks with every such container and a flat, well-formed element is eventually rejected as "too deeply nested"', p.loc(fn), bad[:3])


def ack_bounded(ctx):
    from . import c08
    c08.window(ctx, rule='C17.ack-bounded')


def dlc_sink(ctx):
    """The RFCOMM data link contains what its consumer raises (shared with C20.progress)."""
    R, p = ctx.r, ctx.p
    rule = 'C17.dlc-sink'
    uih = p.find('bumble.rfcomm.DLC.on_uih_frame')
    if uih is None:
        R.bad(rule, 'bumble.rfcomm.DLC.on_uih_frame', 'anchor missing')
        return
    sinks = [c for c in calls_in(uih) if dotted(c.func) == 'self._sink']
    ok = bool(sinks)
    for c in sinks:
        a, prev, cont = getattr(c, '_parent', None), c, False
        while a is not None and a is not uih:
            if isinstance(a, ast.Try) and any(prev is s_ or any(prev is x for x in ast.walk(s_)) for s_ in a.body):
                cont = cont or any(h.type is None or text(h.type).split('.')[-1] in ('Exception', 'BaseException') for h in a.handlers)
            prev, a = a, getattr(a, '_parent', None)
        ok = ok and cont
    R.check(ok, rule, 'bumble.rfcomm.DLC.on_uih_frame | sink call contained', 'inside try/except Exception: the frame is still accounted for and credits are returned',
            'a consumer that raises on hostile data skips the credit accounting of the data link: after a few such frames the link is wedged', p.loc(uih))


def smp_sessions(ctx):
    from . import c13
    c13.session_lifecycle(ctx, rule='C17.smp-sessions')


def cid_domain_rule(ctx):
    from . import c09
    c09.cid_domain(ctx, rule='C17.cid-domain')


def tx_progress(ctx):
    from .c20 import tx_ranking
    tx_ranking(ctx, 'C17.tx-progress')


def regex_rule(ctx):
    from ..generic_rules import regex_backtracking
    regex_backtracking(ctx, 'C17.regex', ['bumble.hfp', 'bumble.at', 'bumble.transport'])


def sdp_containment(ctx, rule='C17.sdp-containment'):
    """A nested SDP element must end inside its container: otherwise the parser's offset moves backwards when the
    container closes and the tail is parsed once per enclosing level (2^depth)."""
    R, p = ctx.r, ctx.p
    pn = p.find('bumble.sdp.DataElementParser.parse_next')
    lf = p.find('bumble.sdp.DataElementParser._list_from_bytes')
    if pn is None or lf is None:
        R.bad(rule, 'bumble.sdp.DataElementParser', 'anchor missing')
        return
    # the attribute holding the container's end: assigned from the end_offset parameter before the element loop
    param = lf.args.args[1].arg if len(lf.args.args) > 1 else None
    loops = [n for n in lf.body if isinstance(n, ast.While)]
    attrs = set()
    if loops and param:
        for st in lf.body[:lf.body.index(loops[0])]:
            if isinstance(st, ast.Assign):
                pairs = []
                for t in st.targets:
                    if isinstance(t, ast.Tuple) and isinstance(st.value, ast.Tuple):
                        pairs += list(zip(t.elts, st.value.elts))
                    else:
                        pairs.append((t, st.value))
                for t, v in pairs:
                    if dotted(t) and dotted(t).startswith('self.') and isinstance(v, ast.Name) and v.id == param:
                        attrs.add(dotted(t))
    R.check(bool(attrs), rule, 'bumble.sdp.DataElementParser._list_from_bytes | container end recorded', f'{sorted(attrs)} = {param} before the element loop', 'the end of the sequence being parsed is not recorded for the elements parsed inside it', p.loc(lf))
    # parse_next: before it descends (or consumes the value), a raise guarded by "<element end> > <container end>"
    ok = False
    first_desc = min([c.lineno for c in calls_in(pn) if dotted(c.func) == 'self._list_from_bytes'] or [10 ** 9])
    for n in walk_local(pn):
        if isinstance(n, ast.If) and any(isinstance(x, ast.Raise) for x in n.body) and n.lineno < first_desc:
            for t, pol in paths.flat_guards(n.body[0], stop=pn):
                if isinstance(t, ast.Compare) and len(t.ops) == 1 and isinstance(t.ops[0], (ast.Gt, ast.GtE, ast.Lt, ast.LtE)):
                    sides = {dotted(t.left) or norm(t.left), dotted(t.comparators[0]) or norm(t.comparators[0])}
                    if sides & attrs and any('value_end' in x or 'value_size' in x for x in sides):
                        big = t.left if isinstance(t.ops[0], (ast.Gt, ast.GtE)) else t.comparators[0]
                        ok = ok or (pol and (dotted(big) or norm(big)) not in attrs)
    R.check(ok, rule, 'bumble.sdp.DataElementParser.parse_next | element ends inside its container', 'an element whose end lies past the container end raises before anything is parsed from it', 'a nested element may extend past the end of its container: when the container closes the offset moves backwards and the tail is parsed again by every enclosing level (exponential in the nesting depth)', p.loc(pn))
    # path rule: every normal exit taken after the bound was set has put the outer bound back
    attr = next(iter(attrs), None)

    class Rs(paths.Domain):
        # None: not yet set; 'inner': set to the nested end; 'outer': restored
        def event(self, node, v):
            if isinstance(node, ast.Assign) and attr is not None:
                for t in node.targets:
                    tg = t.elts if isinstance(t, ast.Tuple) else [t]
                    vals = node.value.elts if isinstance(t, ast.Tuple) and isinstance(node.value, ast.Tuple) else [node.value]
                    for a, b in zip(tg, vals):
                        if dotted(a) == attr:
                            return ('inner' if isinstance(b, ast.Name) and b.id == param else 'outer',)
            return (v,)
    rs = paths.run(lf, Rs(), None)
    left = [' '.join(w) for v, w in paths.normal_exits(rs).items() if v == 'inner']
    restored = bool(attrs) and not left and any(v == 'outer' for v in paths.normal_exits(rs))
    R.check(restored, rule, 'bumble.sdp.DataElementParser._list_from_bytes | container end restored', 'the enclosing container bound is put back on every exit', 'the bound of the enclosing container is not restored after a nested sequence: siblings that follow are checked against the wrong end', p.loc(lf))


def except_name_rule(ctx):
    from ..generic_rules import except_name_escape
    except_name_escape(ctx, 'C17.except-name', ['bumble.l2cap', 'bumble.smp', 'bumble.sdp', 'bumble.rfcomm', 'bumble.hfp', 'bumble.avdtp', 'bumble.avctp', 'bumble.host'])


def dm_refuses_open(ctx):
    """A DM frame received while a data-link open is in progress ends that open: whatever the frame's DLCI (the PN answer
    has already cleared the bookkeeping that names it), every path through the OPENING branch leaves the OPENING state and
    fails the pending open_result -- otherwise open_dlc() never returns and every later open is refused."""
    R, p = ctx.r, ctx.p
    rule = 'C17.dm-refuses-open'
    fn = p.find('bumble.rfcomm.Multiplexer.on_dm_frame')
    if fn is None:
        R.bad(rule, 'bumble.rfcomm.Multiplexer.on_dm_frame', 'anchor missing')
        return

    class D(paths.Domain):
        # (in OPENING?, state changed, open settled or absent)
        def assume(self, atom, truth, v):
            t = norm(atom)
            if t in ('self.state == Multiplexer.State.OPENING', 'self.state == self.State.OPENING'):
                return ((truth, v[1], v[2]),)
            if t == 'self.open_result' and not truth:
                return ((v[0], v[1], True),)
            return (v,)

        def event(self, node, v):
            if isinstance(node, ast.Call) and dotted(node.func) == 'self.change_state':
                return ((v[0], True, v[2]),)
            if isinstance(node, ast.Call) and dotted(node.func) in ('self.open_result.set_exception', 'self.open_result.cancel'):
                return ((v[0], v[1], True),)
            return (v,)
    res = paths.run(fn, D(), (None, False, False))
    ex = paths.normal_exits(res)
    bad = [' '.join(w) for v, w in ex.items() if v[0] is True and not (v[1] and v[2])]
    R.check(any(v[0] is True for v in ex) and not bad, rule, 'bumble.rfcomm.Multiplexer.on_dm_frame | OPENING', 'every path taken in the OPENING state leaves it and fails the pending open',
            'a DM received while opening can be ignored (early return): the pending open_dlc() is never completed, the multiplexer stays OPENING and refuses every later open', p.loc(fn), bad[:2])


def records_not_aliased(ctx, rule='C17.records-not-aliased'):
    """The SDP server answers from its registered records without touching them: a list that a request handler extends or
    sorts is one it created itself (a literal, a comprehension, list(...), sorted(...)), never a name bound to a record."""
    R, p = ctx.r, ctx.p
    ci = p.cls('bumble.sdp.Server')
    if ci is None:
        R.bad(rule, 'bumble.sdp.Server', 'anchor missing')
        return
    n = 0
    FRESH = (ast.List, ast.ListComp, ast.Dict, ast.DictComp, ast.Set, ast.SetComp)
    for name, fn in sorted(ci.methods.items()):
        mutated = {}
        for x in walk_local(fn):
            if isinstance(x, ast.AugAssign) and isinstance(x.target, ast.Name):
                mutated.setdefault(x.target.id, x)
            if isinstance(x, ast.Call) and isinstance(x.func, ast.Attribute) and isinstance(x.func.value, ast.Name) and x.func.attr in ('append', 'extend', 'sort', 'insert', 'remove', 'pop', 'clear', 'reverse', 'update'):
                mutated.setdefault(x.func.value.id, x)
        params = {a.arg for a in fn.args.args}
        for nm, site in sorted(mutated.items()):
            binds = [s_.value for s_ in walk_local(fn) if isinstance(s_, ast.Assign) and any(isinstance(t, ast.Name) and t.id == nm for t in s_.targets)]
            if not binds and nm not in params:
                continue
            n += 1
            ok = bool(binds) and all(isinstance(b, FRESH) or (isinstance(b, ast.Call) and (dotted(b.func) or '') in ('list', 'sorted', 'dict', 'set', 'bytearray') or (isinstance(b, ast.Call) and isinstance(b.func, ast.Attribute) and b.func.attr in ('copy', 'sequence', 'keys', 'values'))) or isinstance(b, (ast.Constant, ast.BinOp, ast.Subscript, ast.JoinedStr)) for b in binds)
            R.check(ok, rule, f'bumble.sdp.Server.{name} | {nm}', 'a container the handler created', f'`{nm}` is modified in place (line {site.lineno}) and can be bound to something the handler did not create ({[norm(b)[:30] for b in binds if not isinstance(b, FRESH)][:2] or "a parameter"}): a request then edits the server\'s registered record, and every later answer is built from the edited record', p.loc(site))
    R.check(n >= 1, rule, 'bumble.sdp.Server | containers modified in place', f'{n} local containers, each created by the handler', f'only {n} found')


def peer_mtu_floor(ctx):
    """The MTU a peer announces in its Configure Request is peer-controlled and the layers above subtract their header sizes
    from it (AVDTP: 3, RFCOMM: 5) to get a fragment size they loop on.  The stored value is bounded below by a constant
    larger than those headers, so no fragment size is zero or negative."""
    R, p = ctx.r, ctx.p
    rule = 'C17.peer-mtu-floor'
    fn = p.find('bumble.l2cap.ClassicChannel.on_configure_request')
    if fn is None:
        R.bad(rule, 'bumble.l2cap.ClassicChannel.on_configure_request', 'anchor missing')
        return
    sts = [x for x in walk_local(fn) if isinstance(x, ast.Assign) and any(dotted(t) == 'self.peer_mtu' for t in x.targets)]
    R.check(len(sts) >= 1, rule, 'bumble.l2cap.ClassicChannel.on_configure_request | peer_mtu', f'{len(sts)} assignment(s)', 'peer_mtu is not taken from the MTU option here any more', p.loc(fn))
    for st in sts:
        v = st.value
        floor = None
        if isinstance(v, ast.Call) and dotted(v.func) == 'max':
            for a in v.args:
                if isinstance(a, ast.Constant) and isinstance(a.value, int):
                    floor = a.value
                elif isinstance(a, ast.Name):
                    try:
                        floor = p.module_const('bumble.l2cap', a.id)
                    except Exception:
                        pass
        guarded = [norm(t) for t, pol in paths.flat_guards(st, stop=fn) if 'mtu' in norm(t).lower() and any(op in norm(t) for op in ('>=', '<', '>'))]
        R.check((floor is not None and floor >= 8) or bool(guarded), rule, f'bumble.l2cap.ClassicChannel.on_configure_request | {norm(st)[:60]}', f'bounded below by {floor}' if floor is not None else f'guarded by {guarded}',
                'the peer\'s MTU option is stored as it comes: a peer announcing an MTU of 0..3 makes AVDTP compute a fragment size <= 0 and loop for ever on the first response with a payload (RFCOMM likewise computes a frame size of 0)', p.loc(st))


def sdp_watchdog_rule(ctx):
    from .c19 import sdp_watchdog
    sdp_watchdog(ctx, 'C17.sdp-watchdog')


def avdtp_restart(ctx, rule='C17.avdtp-restart'):
    """A START or SINGLE packet that arrives while an earlier message is unfinished abandons that message and is itself
    processed: after the reset the assembler goes on with the new packet (no return), so a well-formed command sent after a
    truncated or dangling one is answered."""
    R, p = ctx.r, ctx.p
    fn = p.find('bumble.avdtp.MessageAssembler.on_pdu')
    if fn is None:
        R.bad(rule, 'bumble.avdtp.MessageAssembler.on_pdu', 'anchor missing')
        return
    brs = [n for n in walk_local(fn) if isinstance(n, ast.If) and any(isinstance(c, ast.Call) and dotted(c.func) == 'self.reset' for s_ in n.body for c in ast.walk(s_)) and 'self.message' in norm(n.test)]
    R.check(len(brs) >= 1, rule, 'bumble.avdtp.MessageAssembler.on_pdu | unfinished message', f'{len(brs)} branch(es) abandon an unfinished message', 'the branch that abandons an unfinished message was not found', p.loc(fn))
    for br in brs:
        leaves = [x for s_ in br.body for x in ast.walk(s_) if isinstance(x, (ast.Return, ast.Raise))]
        R.check(not leaves, rule, 'bumble.avdtp.MessageAssembler.on_pdu | new packet still processed', 'after the reset the START / SINGLE packet that caused it is processed',
                'the packet that interrupts an unfinished message is dropped together with it: after a truncated command or a dangling START (both leave the assembler mid-message) the next well-formed command is silently discarded', p.loc(br))


def endpoint_lists(ctx):
    """An endpoint's capability and configuration lists are replaced, never changed in place: LocalSource hands the same
    list object to both, so an in-place update of the configuration (slice assignment, extend, clear ...) with what a peer
    sent rewrites the capabilities the endpoint advertises."""
    R, p = ctx.r, ctx.p
    rule = 'C17.endpoint-lists'
    m = p.modules.get('bumble.avdtp')
    if m is None:
        R.bad(rule, 'bumble.avdtp', 'anchor missing')
        return
    NAMES = ('self.configuration', 'self.capabilities')
    MUT = ('append', 'extend', 'insert', 'remove', 'pop', 'clear', 'sort', 'reverse')
    n = 0
    for x in ast.walk(m.tree):
        if isinstance(x, ast.Assign) and dotted(x.targets[0]) in NAMES:
            n += 1
        bad = None
        if isinstance(x, (ast.Assign, ast.AugAssign, ast.Delete)):
            for t in (x.targets if not isinstance(x, ast.AugAssign) else [x.target]):
                if isinstance(t, ast.Subscript) and dotted(t.value) in NAMES:
                    bad = t
                if isinstance(x, ast.AugAssign) and dotted(t) in NAMES:
                    bad = t
        if isinstance(x, ast.Call) and call_attr(x) in MUT and dotted(x.func.value) in NAMES:
            bad = x
        if bad is not None:
            R.bad(rule, f'{p.qual_of(x)} | {norm(x)[:50]}', f'`{norm(x)[:70]}` changes the list in place: the same list object is the endpoint\'s capabilities (LocalSource passes one list for both), so what a peer puts into SET_CONFIGURATION becomes what the endpoint advertises from then on', f'{m.rel}:{x.lineno}')
    R.check(n >= 4, rule, 'bumble.avdtp | capability / configuration lists', f'{n} whole-list assignments, no in-place change', f'only {n} assignments found')


def one_parser(ctx):
    """The SDP nesting guard is a counter on the parser object: nested elements are parsed by the same parser (recursion
    through self), so no method of DataElementParser creates another DataElementParser (whose depth would restart at 0)."""
    R, p = ctx.r, ctx.p
    rule = 'C17.one-parser'
    ci = p.cls('bumble.sdp.DataElementParser')
    if ci is None:
        R.bad(rule, 'bumble.sdp.DataElementParser', 'anchor missing')
        return
    n = 0
    for name, fn in sorted(ci.methods.items()):
        n += 1
        for c in [x for x in calls_in(fn) if call_attr(x) == 'DataElementParser' or (dotted(x.func) or '') in ('type(self)', 'self.__class__', 'cls')]:
            R.bad(rule, f'bumble.sdp.DataElementParser.{name} | {norm(c)[:40]}', f'{name} parses a nested element with a new parser (`{norm(c)[:60]}`): its nesting counter starts at 0 again, so the depth limit never accumulates across that kind of nesting and a small request recurses to the interpreter\'s limit', p.loc(c))
    R.check(n >= 3, rule, 'bumble.sdp.DataElementParser | methods', f'{n} methods, none creates another parser', f'only {n} methods found')


def pump_ends(ctx):
    """A `while True` loop that awaits a stream reader inside try / except Exception must leave the loop on the reader's
    end-of-stream error: StreamReader.readexactly() raises IncompleteReadError at once (without suspending) once the stream
    has ended, so a handler that logs and carries on spins in one event-loop step for ever."""
    R, p = ctx.r, ctx.p
    rule = 'C17.pump-ends'
    m = p.modules.get('bumble.transport.common')
    if m is None:
        R.bad(rule, 'bumble.transport.common', 'anchor missing')
        return
    n = 0
    for fn in [x for x in ast.walk(m.tree) if isinstance(x, FUNC)]:
        for w in [x for x in walk_local(fn) if isinstance(x, ast.While) and isinstance(x.test, ast.Constant) and x.test.value is True]:
            for t in [x for x in w.body if isinstance(x, ast.Try)]:
                if not any(isinstance(x, ast.Await) and isinstance(x.value, ast.Call) and call_attr(x.value) in ('next_packet', 'readexactly', 'read', 'readline') for s_ in t.body for x in ast.walk(s_)):
                    continue
                n += 1
                eof_exit = False
                swallow_all = False
                for h in t.handlers:
                    names = ['<bare>'] if h.type is None else [norm(e).split('.')[-1] for e in (h.type.elts if isinstance(h.type, ast.Tuple) else [h.type])]
                    leaves = any(isinstance(x, (ast.Break, ast.Return, ast.Raise)) for x in ast.walk(h))
                    if set(names) & {'IncompleteReadError', 'EOFError'} and leaves:
                        eof_exit = True
                    if set(names) & {'Exception', 'BaseException', '<bare>'} and not leaves and not eof_exit:
                        swallow_all = True
                R.check(not swallow_all, rule, f'{p.qual_of(w)} | end of stream', 'the end-of-stream error leaves the loop before the catch-all handler', f'the loop in {fn.name} swallows every exception of the awaited read and goes round again: at end of stream the read fails immediately, every time, and the loop never yields to the event loop (the whole process freezes)', f'{m.rel}:{w.lineno}')
    R.check(n >= 1, rule, 'bumble.transport.common | read loops', f'{n}', 'no read loop found (anchor)')


def ertm_sdu_start(ctx):
    """A START or UNSEGMENTED I-frame begins a new SDU: the ERTM processor assigns the reassembly buffer there and appends
    only for CONTINUATION / END, so a segmented SDU that a peer never finishes cannot end up in front of the next
    well-formed one."""
    R, p = ctx.r, ctx.p
    rule = 'C17.ertm-sdu-start'
    onp = p.find('bumble.l2cap.EnhancedRetransmissionProcessor.on_pdu')
    if onp is None:
        R.bad(rule, 'bumble.l2cap.EnhancedRetransmissionProcessor.on_pdu', 'anchor missing')
        return
    writes = []
    for st in walk_local(onp):
        tgt = st.targets[0] if isinstance(st, ast.Assign) and len(st.targets) == 1 else st.target if isinstance(st, ast.AugAssign) else None
        if tgt is None or dotted(tgt) != 'self._in_sdu' or slice_parts(st.value) is None or slice_parts(st.value)[0] != 'pdu':
            continue
        kinds = {'START', 'UNSEGMENTED', 'CONTINUATION', 'END'}
        for t, pol in paths.flat_guards(st, stop=onp):
            tt = norm(t)
            if 'control_field.sar ==' in tt or '== control_field.sar' in tt:
                k = tt.rsplit('.', 1)[-1]
                kinds = (kinds & {k}) if pol else (kinds - {k})
        writes.append((kinds, isinstance(st, ast.Assign), st))
    bad = [(sorted(k), st) for k, fresh, st in writes if fresh != (k <= {'START', 'UNSEGMENTED'})]
    R.check(len(writes) >= 2 and not bad, rule, 'bumble.l2cap.EnhancedRetransmissionProcessor.on_pdu', f'{len(writes)} writes: START / UNSEGMENTED assign, CONTINUATION / END append', f'for {bad[0][0] if bad else "?"} frames the payload is `{norm(bad[0][1])[:50] if bad else ""}`: an I-frame that starts an SDU is appended to an unfinished reassembly - garbage a peer left there is delivered in front of the next well-formed request', p.loc(bad[0][1]) if bad else p.loc(onp))


def unhandled_rejected(ctx):
    """A signalling command the manager has no handler for is answered with Command Reject on every path (requests are not
    all even-numbered: 0x17 and 0x19 are requests), so the peer\'s transaction ends."""
    R, p = ctx.r, ctx.p
    rule = 'C17.unhandled-rejected'
    fn = p.find('bumble.l2cap.ChannelManager.on_control_frame')
    if fn is None:
        R.bad(rule, 'bumble.l2cap.ChannelManager.on_control_frame', 'anchor missing')
        return

    class D(paths.Domain):
        def assume(self, atom, truth, v):
            if norm(atom) == 'handler':
                return ('handled' if truth else 'unhandled',)
            return (v,)

        def event(self, node, v):
            if isinstance(node, ast.Call) and dotted(node.func) == 'self.send_control_frame' and any(isinstance(x, ast.Call) and call_attr(x) == 'L2CAP_Command_Reject' for x in ast.walk(node)) and v == 'unhandled':
                return ('rejected',)
            return (v,)
    res = paths.run(fn, D(), 'start')
    bad = [f'{k} via {" ".join(w)}' for k, st in res.items() if not k.startswith('raise') for v, w in st.items() if v == 'unhandled']
    seen = any(v == 'rejected' for st in res.values() for v in st)
    R.check(seen and not bad, rule, 'bumble.l2cap.ChannelManager.on_control_frame | no handler', 'Command Reject on every path', f'a command without handler can be dropped silently ({bad[:1]}): the peer\'s request (a Credit Based Reconfigure Request, any code the manager does not implement) is never answered', p.loc(fn))


def continuation_kept(ctx):
    """A PDU that cannot be parsed does not touch the SDP server\'s continuation state: `current_response` is written by
    the handlers of valid requests (and saved / restored per channel), not by the parse-failure branch of on_pdu."""
    R, p = ctx.r, ctx.p
    rule = 'C17.continuation-kept'
    fn = p.find('bumble.sdp.Server.on_pdu')
    if fn is None:
        R.bad(rule, 'bumble.sdp.Server.on_pdu', 'anchor missing')
        return
    hs = [h for t in walk_local(fn) if isinstance(t, ast.Try) and any((dotted(c.func) or '').endswith('SDP_PDU.from_bytes') for s_ in t.body for c in calls_in(s_)) for h in t.handlers]
    R.check(len(hs) >= 1, rule, 'bumble.sdp.Server.on_pdu | parse failure', f'{len(hs)} handler(s)', 'no handler around SDP_PDU.from_bytes (anchor)', p.loc(fn))
    for h in hs:
        w = [s_ for s_ in ast.walk(h) if isinstance(s_, (ast.Assign, ast.AugAssign, ast.Delete)) and any('current_response' in norm(t) for t in (s_.targets if not isinstance(s_, ast.AugAssign) else [s_.target]))]
        R.check(not w, rule, 'bumble.sdp.Server.on_pdu | parse failure keeps the state', 'current_response untouched', f'`{norm(w[0])[:50] if w else ""}` in the parse-failure branch: garbage sent in the middle of a continued transaction discards the rest of the response, the client\'s next (valid) continuation request is refused with INVALID_CONTINUATION_STATE', p.loc(w[0]) if w else p.loc(h))


def overflow_recovers(ctx):
    """A bounded line buffer that refuses data when it is full must give the space back: on the overflow path of
    HfpProtocol.feed the buffer is emptied (or shortened) - a branch that only returns leaves a full buffer that refuses
    every later chunk, also the line end that would have emptied it."""
    R, p = ctx.r, ctx.p
    rule = 'C17.overflow-recovers'
    fn = p.find('bumble.hfp.HfpProtocol.feed')
    if fn is None:
        R.bad(rule, 'bumble.hfp.HfpProtocol.feed', 'anchor missing')
        return
    ifs = [i_ for i_ in walk_local(fn) if isinstance(i_, ast.If) and 'MAX_BUFFER_SIZE' in norm(i_.test) and 'self.buffer' in norm(i_.test)]
    R.check(len(ifs) == 1, rule, 'bumble.hfp.HfpProtocol.feed | overflow test', 'one overflow branch', f'{len(ifs)} overflow branches', p.loc(fn))
    for i_ in ifs:
        resets = [s_ for s_ in ast.walk(i_) if isinstance(s_, ast.Assign) and dotted(s_.targets[0]) == 'self.buffer' and s_ is not i_]
        in_branch = [s_ for s_ in resets if any(s_ is x for b in i_.body for x in ast.walk(b))]
        R.check(bool(in_branch), rule, 'bumble.hfp.HfpProtocol.feed | overflow path', 'the buffer is reset on overflow', 'the overflow branch leaves the full buffer as it is: from then on every chunk is refused, including the line end that would have emptied it - no AT line is ever delivered again on that connection', p.loc(i_))


def loop_containment(ctx):
    """HfProtocol.run keeps handling unsolicited results whatever one of them provokes: only the dedicated termination
    signal (HfLoopTermination) is let through by the per-result try - not its base class HfpProtocolError, which a refused
    command inside a handler raises as well."""
    R, p = ctx.r, ctx.p
    rule = 'C17.loop-containment'
    fn = p.find('bumble.hfp.HfProtocol.run')
    if fn is None:
        R.bad(rule, 'bumble.hfp.HfProtocol.run', 'anchor missing')
        return
    loops = [w for w in walk_local(fn) if isinstance(w, ast.While)]
    tries = [t for w in loops for t in w.body if isinstance(t, ast.Try)]
    R.check(len(tries) == 1, rule, 'bumble.hfp.HfProtocol.run | per-result try', 'one', f'{len(tries)} found', p.loc(fn))
    for t in tries:
        through = [norm(h.type).split('.')[-1] for h in t.handlers if h.type is not None and any(isinstance(x, ast.Raise) and x.exc is None for x in h.body)]
        contained = any(h.type is not None and norm(h.type).split('.')[-1] == 'Exception' and not any(isinstance(x, ast.Raise) for x in ast.walk(h)) for h in t.handlers)
        R.check(contained and set(through) <= {'HfLoopTermination'}, rule, 'bumble.hfp.HfProtocol.run | what ends the loop', f're-raises only {through}', f'the per-result try lets {through} through: a command the gateway refuses from inside a result handler ends the loop for good - later RING / +CIEV results are queued and never handled', p.loc(t))


RULES = [
    ('C17.loop-containment', loop_containment),
    ('C17.overflow-recovers', overflow_recovers),
    ('C17.continuation-kept', continuation_kept),
    ('C17.unhandled-rejected', unhandled_rejected),
    ('C17.ertm-sdu-start', ertm_sdu_start),
    ('C17.pump-ends', pump_ends),
    ('C17.one-parser', one_parser),
    ('C17.endpoint-lists', endpoint_lists),
    ('C17.avdtp-restart', avdtp_restart),
    ('C17.sdp-watchdog', sdp_watchdog_rule),
    ('C17.peer-mtu-floor', peer_mtu_floor),
    ('C17.records-not-aliased', records_not_aliased),
    ('C17.dm-refuses-open', dm_refuses_open),
    ('C17.except-name', except_name_rule),
    ('C17.sdp-containment', sdp_containment),
    ('C17.regex', regex_rule),
    ('C17.tx-progress', tx_progress),
    ('C17.cid-domain', cid_domain_rule),
    ('C17.smp-sessions', smp_sessions),
    ('C17.dlc-sink', dlc_sink),
    ('C17.ack-bounded', ack_bounded),
    ('C17.depth-balance', depth_balance),
    ('C17.feed-contained', feed_contained),
    ('C17.lost-write', lost_write),
    ('C17.format-safe', format_safe),
    ('C17.cmd-complete', cmd_complete),
    ('C17.validate-first', validate_first),
    ('C17.live-entry', live_entry),
    ('C17.loop-contained', loop_contained),
    ('C17.state-guard', state_guard),
    ('C17.parser-reset', parser_reset),
    ('C17.response-routing', response_routing),
    ('C17.contain', contain),
    ('C17.recursion', recursion),
    ('C17.loops', loops),
    ('C17.consume-first', consume_first),
    ('C17.state-reset', state_reset),
    ('C17.all-entries', all_entries),
    ('C17.locks', locks),
]

VARIANTS = [
    ('push parser sink call uncontained', 'bumble/transport/common.py',
     "                        try:\n                            self.sink.on_packet(bytes(self.packet))\n                        except Exception:\n                            logger.exception(color('!!! Exception in on_packet', 'red'))\n",
     "                        self.sink.on_packet(bytes(self.packet))\n", 'fire', 'C17.contain'),
    ('sdp depth guard removed', 'bumble/sdp.py',
     "        if self.depth >= self.max_depth:\n            raise InvalidPacketError(\n                f\"SDP data element nesting exceeds max depth \" f\"({self.max_depth})\"\n            )\n", "", 'fire', 'C17.recursion'),
    ('AD walk does not advance on zero length', 'bumble/core.py', "            offset += 1\n            if length > 0:\n", "            if length > 0:\n                offset += 1\n", 'fire', 'C17.loops'),
    ('AG parses before consuming', 'bumble/hfp.py',
     "            raw_command = self.read_buffer[:trailer]\n\n            # Consume the command bytes (before parsing them, so that a malformed\n            # command cannot wedge the reader).\n            self.read_buffer = self.read_buffer[trailer + 1 :]\n\n            try:\n                command = AtCommand.parse_from(raw_command)\n            except Exception:\n                logger.warning(f\"invalid AT command: {bytes(raw_command)!r}\")\n                self.send_error()\n                continue\n",
     "            raw_command = self.read_buffer[:trailer]\n            command = AtCommand.parse_from(raw_command)\n            self.read_buffer = self.read_buffer[trailer + 1 :]\n", 'fire', 'C17.consume-first'),
    ('LE CoC overflow keeps stale length', 'bumble/l2cap.py', "            # TODO: we should disconnect\n            self.in_sdu = None\n            self.in_sdu_length = 0\n", "            # TODO: we should disconnect\n            self.in_sdu = None\n", 'fire', 'C17.state-reset'),
    ('completed packets handler returns on unknown handle', 'bumble/host.py',
     "                    'received packet completion event for unknown handle '\n                    f'0x{connection_handle:04X}'\n                )\n", "                    'received packet completion event for unknown handle '\n                    f'0x{connection_handle:04X}'\n                )\n                return\n", 'fire', 'C17.all-entries'),
    ('command semaphore released only on success', 'bumble/host.py',
     "        # Flush current host state, then release command semaphore\n        self.emit('flush')\n        self.command_semaphore.release()\n", "        # Flush current host state, then release command semaphore\n        self.emit('flush')\n        await asyncio.sleep(0)\n", 'fire', 'C17.locks'),
    ('benign: warning text', 'bumble/l2cap.py', "            logger.warning('received PDU while not connected, dropping')\n", "            logger.warning('received a PDU while not connected, dropping it')\n", 'silent', ''),
    ('status codes queued without a pending command', 'bumble/hfp.py', "            if self.pending_command and (\n                response.code in STATUS_CODES or response.code in self.pending_command\n            ):", "            if response.code in STATUS_CODES or (\n                self.pending_command and response.code in self.pending_command\n            ):", 'fire', 'C17.response-routing'),
    ('parser not reset before raising', 'bumble/transport/common.py', "                    if self.packet_info is None:\n                        self.reset()\n", "                    if self.packet_info is None:\n", 'fire', 'C17.parser-reset'),
]
