"""Abstract evaluation of bumble's declarative field specs
(`field(metadata=hci.metadata(SPEC, list_begin=.., list_end=..))`,
`Enum.type_metadata(n)`), without importing the modules."""
from __future__ import annotations

import ast

from .core import call_attr, const, dotted, is_const, kwarg, text


class Field:
    __slots__ = ('name', 'spec', 'list_begin', 'list_end', 'node', 'owner', 'annotation')

    def __init__(self, name, spec, lb, le, node, owner, annotation):
        self.name, self.spec, self.list_begin, self.list_end = name, spec, lb, le
        self.node, self.owner, self.annotation = node, owner, annotation

    def __repr__(self):
        return f'<{self.name}: {self.spec}{" [" if self.list_begin else ""}{"]" if self.list_end else ""}>'


def _resolve_name(prog, module, name, depth=0):
    """Resolve a (possibly dotted) module-level constant to its AST value."""
    if depth > 4:
        return None, module
    head, _, rest = name.partition('.')
    if not rest and head in module.assigns:
        return module.assigns[head], module
    if rest and head in module.defs and isinstance(module.defs[head], ast.ClassDef):
        ci = prog.classes.get(f'{module.name}.{head}')
        if ci is not None and rest in ci.assigns:
            return ci.assigns[rest], module
    if head in module.imports:
        target = module.imports[head]
        if rest and target in prog.classes and rest in prog.classes[target].assigns:
            return prog.classes[target].assigns[rest], prog.classes[target].module
        if rest:
            m2 = prog.modules.get(target)
            if m2 is not None:
                return _resolve_name(prog, m2, rest, depth + 1)
            # class attribute in another module
            parts = (target + '.' + rest).rsplit('.', 1)
        else:
            parts = target.rsplit('.', 1)
        if len(parts) == 2 and parts[0] in prog.modules:
            return _resolve_name(prog, prog.modules[parts[0]], parts[1], depth + 1)
    return None, module


def eval_spec(prog, module, e, depth=0):
    """-> normalised spec tuple."""
    if is_const(e):
        v = const(e)
        if isinstance(v, bool):
            return ('unknown', text(e))
        if isinstance(v, int):
            if v in (1, 2, 3, 4, -1, -2):
                return ('int', v)
            if 4 < v <= 256:
                return ('bytes', v)
            return ('unknown', text(e))
        if isinstance(v, str):
            if v == '*':
                return ('rest',)
            if v == 'v':
                return ('var',)
            if v in ('>2', '>4'):
                return ('be', int(v[1]))
            return ('unknown', text(e))
    if isinstance(e, ast.Dict):
        keys = {}
        for k, v in zip(e.keys, e.values):
            if isinstance(k, ast.Constant):
                keys[k.value] = v
        size = None
        if 'size' in keys:
            size = eval_spec(prog, module, keys['size'], depth + 1)
        return ('dict', tuple(sorted(keys)), size, dotted(keys['parser']) if 'parser' in keys else None,
                text(keys['serializer']) if 'serializer' in keys else None, keys)
    if isinstance(e, ast.Call):
        name = call_attr(e)
        if name == 'type_spec' and e.args:
            size = const(e.args[0]) if is_const(e.args[0]) else None
            bo = kwarg(e, 'byteorder', 1)
            return ('enum', dotted(e.func.value) if isinstance(e.func, ast.Attribute) else '?', size, const(bo) if bo is not None and is_const(bo) else 'little')
        return ('call', text(e.func))
    if isinstance(e, (ast.Name, ast.Attribute)):
        d = dotted(e)
        if d:
            v, m2 = _resolve_name(prog, module, d)
            if v is not None and depth < 4 and not isinstance(v, (ast.Lambda,)):
                # a named spec constant (HANDLE_FIELD_SPEC, STATUS_SPEC, ...)
                if isinstance(v, (ast.Dict, ast.Constant, ast.UnaryOp)) or (isinstance(v, ast.Call) and call_attr(v) == 'type_spec'):
                    return ('named', d, eval_spec(prog, m2, v, depth + 1))
            return ('callable', d)
    if isinstance(e, ast.Lambda):
        return ('callable', '<lambda>')
    return ('unknown', text(e))


def base_spec(spec):
    while spec and spec[0] == 'named':
        spec = spec[2]
    return spec


def width(spec):
    """Fixed width in bytes, or None when variable / unknown."""
    spec = base_spec(spec)
    k = spec[0]
    if k == 'int':
        return abs(spec[1])
    if k == 'be':
        return spec[1]
    if k == 'bytes':
        return spec[1]
    if k == 'enum':
        return spec[2]
    if k == 'dict':
        return width(spec[2]) if spec[2] else None
    return None


def _metadata_call(value):
    """field(metadata=X) / dataclasses.field(metadata=X) -> X"""
    if isinstance(value, ast.Call) and call_attr(value) == 'field':
        for kw in value.keywords:
            if kw.arg == 'metadata':
                return kw.value
    return None


def own_fields(prog, ci):
    out = []
    for s in ci.node.body:
        if not (isinstance(s, ast.AnnAssign) and isinstance(s.target, ast.Name) and s.value is not None):
            continue
        md = _metadata_call(s.value)
        if md is None or not isinstance(md, ast.Call):
            continue
        mname = call_attr(md)
        lb = le = False
        for kw in md.keywords:
            if kw.arg == 'list_begin' and is_const(kw.value):
                lb = bool(const(kw.value))
            if kw.arg == 'list_end' and is_const(kw.value):
                le = bool(const(kw.value))
        if mname == 'metadata' and md.args:
            spec = eval_spec(prog, ci.module, md.args[0])
        elif mname == 'type_metadata' and md.args:
            size = const(md.args[0]) if is_const(md.args[0]) else None
            bo = kwarg(md, 'byteorder')
            spec = ('enum', dotted(md.func.value) if isinstance(md.func, ast.Attribute) else '?', size, const(bo) if bo is not None and is_const(bo) else 'little')
        else:
            spec = ('unknown', text(md))
        out.append(Field(s.target.id, spec, lb, le, s, ci.qual, s.annotation))
    return out


def class_fields(prog, ci):
    """Dataclass field order: bases first (reverse MRO), then own."""
    out = []
    for c in reversed(prog.mro(ci.qual)):
        out.extend(own_fields(prog, c))
    # a field redefined in a subclass keeps its original position
    seen = {}
    res = []
    for f in out:
        if f.name in seen:
            res[seen[f.name]] = f
        else:
            seen[f.name] = len(res)
            res.append(f)
    return res


def fixed_prefix_width(fields):
    """Sum of fixed widths before the first variable field; (width, all_fixed)."""
    total = 0
    for f in fields:
        w = width(f.spec)
        if w is None:
            return total, False
        total += w
    return total, True
