"""A closure created inside a loop and kept for later (stored as a sink / callback) must not read the loop's variable
freely: by the time it runs the variable holds the *last* item, so every callback talks to the last object
(`channel.sink = lambda pdu: client.on_gatt_pdu(...)` inside `for channel, client in ...`).  Binding through a default
argument (`lambda pdu, client=client: ...`) or functools.partial is the idiom the tree uses.  Closures consumed at once
(sorted / min / max / any / all / filter / map arguments) are not kept.  Expected count is zero: positive control on every run."""
from __future__ import annotations

import ast

from .core import FUNC, dotted, walk_local

IMMEDIATE = {'sorted', 'min', 'max', 'filter', 'map', 'any', 'all', 'sum', 'next', 'list', 'tuple', 'set', 'dict'}


def late_bound(fn):
    out = []
    for l in [x for x in walk_local(fn) if isinstance(x, (ast.For, ast.AsyncFor))]:
        loopvars = {x.id for x in ast.walk(l.target) if isinstance(x, ast.Name)}
        loopvars |= {y.id for a in ast.walk(l) if isinstance(a, (ast.Assign, ast.AnnAssign, ast.NamedExpr)) for t in (a.targets if isinstance(a, ast.Assign) else [a.target])
                     for y in ast.walk(t) if isinstance(y, ast.Name) and isinstance(y.ctx, ast.Store)}
        for c in ast.walk(l):
            if c is l or not isinstance(c, (ast.Lambda,) + FUNC):
                continue
            a = c.args
            params = {x.arg for x in a.posonlyargs + a.args + a.kwonlyargs} | ({a.vararg.arg} if a.vararg else set()) | ({a.kwarg.arg} if a.kwarg else set())
            body = [c.body] if isinstance(c, ast.Lambda) else c.body
            local = set() if isinstance(c, ast.Lambda) else {y.id for s_ in c.body for a_ in ast.walk(s_) if isinstance(a_, (ast.Assign, ast.AnnAssign, ast.NamedExpr, ast.For, ast.AsyncFor))
                                                             for y in ast.walk(a_) if isinstance(y, ast.Name) and isinstance(y.ctx, ast.Store)}
            used = {x.id for b in body for x in ast.walk(b) if isinstance(x, ast.Name) and isinstance(x.ctx, ast.Load)}
            free = (used & loopvars) - params - local
            if not free:
                continue
            par = getattr(c, '_parent', None)
            call = par if isinstance(par, ast.Call) else (getattr(par, '_parent', None) if isinstance(par, ast.keyword) else None)
            if isinstance(call, ast.Call) and (dotted(call.func) or '').split('.')[-1] in IMMEDIATE:
                continue
            if not isinstance(c, ast.Lambda):
                # a nested def that is only called inside the same iteration is not kept
                refs = [x for x in ast.walk(l) if isinstance(x, ast.Name) and x.id == c.name and isinstance(x.ctx, ast.Load)]
                if refs and all(isinstance(getattr(x, '_parent', None), ast.Call) and x._parent.func is x for x in refs):
                    continue
            out.append((sorted(free), c, l))
    return out


def late_binding(ctx, rule, modules):
    R, p = ctx.r, ctx.p
    n = 0
    for mn in modules:
        m = p.modules.get(mn)
        if m is None:
            R.bad(rule, mn, 'anchor missing')
            continue
        for fn in [x for x in ast.walk(m.tree) if isinstance(x, FUNC)]:
            n += 1
            for free, c, l in late_bound(fn):
                R.bad(rule, f'{p.qual_of(fn)} | closure over {", ".join(free)}', f'the closure created at line {c.lineno} inside the loop at line {l.lineno} reads the loop variable(s) {free} when it is called later: every such callback then uses the values of the last iteration (all sinks deliver to the last client)', f'{m.rel}:{c.lineno}')
    ctl = ast.parse('def f(chs, cls_):\n    for ch, cl in zip(chs, cls_):\n        ch.sink = lambda pdu: cl.on_pdu(pdu)\n        ch.other = lambda pdu, cl=cl: cl.on_pdu(pdu)\n').body[0]
    for x in ast.walk(ctl):
        for ch in ast.iter_child_nodes(x):
            ch._parent = x
    R.check([f for f, _, _ in late_bound(ctl)] == [['cl']] and n >= 1, rule, f'{", ".join(modules)} | functions', f'{n} functions, no kept closure reads a loop variable freely (positive control matched)', 'positive control not matched')
