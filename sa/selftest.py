"""Checker validation: breaking / benign variants of /repo on a scratch copy.

Each variant is a single textual edit (old -> new, `old` must occur exactly
once in the file) applied to a private copy of the analysed packages outside
/repo and /verif; the property's quick check is run on the copy.  A breaking
variant must make the named rule fire; a benign variant must leave the check
silent.  A variant whose `old` text is no longer present (the tree under
analysis has changed there) is reported as stale and skipped.  A wrong verdict
is an analysis error (exit 2), never a violation of the property.
"""
from __future__ import annotations

import importlib
import json
import os
import shutil
import subprocess
import sys
import tempfile
from concurrent.futures import ThreadPoolExecutor

from .core import REPO

VERIF = os.path.dirname(os.path.dirname(os.path.abspath(__file__)))


def _run_variant(prop, var):
    name, rel, old, new, expect, rule = var
    src = os.path.join(REPO, rel)
    try:
        text = open(src, encoding='utf-8').read()
    except OSError:
        return name, 'stale', f'{rel} missing'
    if text.count(old) != 1:
        return name, 'stale', f'anchor text occurs {text.count(old)} times in {rel}'
    tmp = tempfile.mkdtemp(prefix='sa_variant_')
    try:
        for pkg in ('bumble', 'apps'):
            if os.path.isdir(os.path.join(REPO, pkg)):
                shutil.copytree(os.path.join(REPO, pkg), os.path.join(tmp, pkg), ignore=shutil.ignore_patterns('__pycache__'))
        with open(os.path.join(tmp, rel), 'w', encoding='utf-8') as f:
            f.write(text.replace(old, new))
        env = dict(os.environ, SA_REPO=tmp, SA_EVIDENCE_DIR=os.path.join(tmp, '_evidence'), VERIF_TIER='quick')
        r = subprocess.run(
            [sys.executable, '-m', 'sa.check', prop, '--tier', 'quick'],
            cwd=VERIF, env=env, capture_output=True, text=True, timeout=600,
        )
        out = r.stdout
        fired_rules = set()
        lines = out.splitlines()
        for i, l in enumerate(lines):
            if l.startswith('VIOLATION') and i + 1 < len(lines):
                fired_rules.add(lines[i + 1].strip().split(' | ')[0])
        if r.returncode == 2:
            return name, 'error', out[-400:] + r.stderr[-400:]
        if expect == 'fire':
            ok = r.returncode == 1 and any(fr.startswith(rule) for fr in fired_rules)
            return name, 'fired' if ok else 'MISSED', sorted(fired_rules)
        ok = r.returncode == 0
        return name, 'silent' if ok else 'FALSE-ALARM', sorted(fired_rules)
    finally:
        shutil.rmtree(tmp, ignore_errors=True)



def _run_seed(prop, sid):
    """Apply a seeded change (seeded/<id>/patch.diff, written by an independent agent and confirmed to break the
    property while the 940 tests pass) to a scratch copy; the property's check must report a violation."""
    d = os.path.join(VERIF, 'seeded', sid)
    patch = os.path.join(d, 'patch.diff')
    tmp = tempfile.mkdtemp(prefix='sa_seed_')
    try:
        for pkg in ('bumble', 'apps'):
            if os.path.isdir(os.path.join(REPO, pkg)):
                shutil.copytree(os.path.join(REPO, pkg), os.path.join(tmp, pkg), ignore=shutil.ignore_patterns('__pycache__'))
        r = subprocess.run(['patch', '-p1', '-s', '-f', '--no-backup-if-mismatch', '-i', patch], cwd=tmp, capture_output=True, text=True)
        if r.returncode != 0:
            return sid, 'stale', 'patch does not apply to the tree under analysis'
        env = dict(os.environ, SA_REPO=tmp, SA_EVIDENCE_DIR=os.path.join(tmp, '_evidence'), VERIF_TIER='quick')
        c = subprocess.run([sys.executable, '-m', 'sa.check', prop, '--tier', 'quick'], cwd=VERIF, env=env, capture_output=True, text=True, timeout=600)
        if c.returncode == 2:
            return sid, 'error', c.stdout[-300:]
        rules = sorted({ln.strip().split(' | ')[0] for i, ln in enumerate(c.stdout.splitlines()) if i and c.stdout.splitlines()[i - 1].startswith('VIOLATION')})
        return sid, ('fired' if c.returncode == 1 else 'MISSED'), rules
    finally:
        shutil.rmtree(tmp, ignore_errors=True)


def seeds_for(prop):
    base = os.path.join(VERIF, 'seeded')
    if not os.path.isdir(base):
        return []
    return sorted(s for s in os.listdir(base) if s.startswith(prop + '_') and os.path.exists(os.path.join(base, s, 'patch.diff')))


def run_for(prop, rep):
    mod = importlib.import_module(f'sa.props.{prop.lower()}')
    variants = getattr(mod, 'VARIANTS', [])
    if not variants:
        rep.note('no self-test variants defined')
    with ThreadPoolExecutor(max_workers=max(1, min(16, len(variants)))) as ex:
        results = list(ex.map(lambda v: _run_variant(prop, v), variants))
    fired = sum(1 for _, s, _ in results if s == 'fired')
    silent = sum(1 for _, s, _ in results if s == 'silent')
    stale = [n for n, s, _ in results if s == 'stale']
    wrong = [(n, s, d) for n, s, d in results if s in ('MISSED', 'FALSE-ALARM', 'error')]
    rep.extra['variants'] = {
        'breaking_fired': fired,
        'benign_silent': silent,
        'stale': stale,
        'wrong': [f'{n}: {s}' for n, s, _ in wrong],
        'results': [{'variant': n, 'verdict': s} for n, s, _ in results],
    }
    print(f'  self-test: {fired} breaking variants fired, {silent} benign variants silent, {len(stale)} stale')
    for n, s, d in wrong:
        print(f'  self-test {s}: {n}: {d}')
        rep.control(f'variant {n} ({s})', False)
    # the seeded changes of this property (independent authors) must be caught as well
    sids = seeds_for(prop)
    if sids:
        with ThreadPoolExecutor(max_workers=min(16, len(sids))) as ex:
            sres = list(ex.map(lambda x: _run_seed(prop, x), sids))
        rep.extra['seeded'] = {'detected': sum(1 for _, v, _ in sres if v == 'fired'), 'stale': [n for n, v, _ in sres if v == 'stale'],
                               'results': [{'seed': n, 'verdict': v, 'rules': d if isinstance(d, list) else []} for n, v, d in sres]}
        print(f"  seeded changes: {rep.extra['seeded']['detected']} of {len(sids)} detected, {len(rep.extra['seeded']['stale'])} stale")
        for n, v, d in sres:
            if v in ('MISSED', 'error'):
                print(f'  seeded {v}: {n}: {d}')
                rep.control(f'seeded change {n} ({v})', False)


def main():
    props = sys.argv[1:] or [f'C{i:02d}' for i in range(1, 21)]
    rc = 0
    for prop in props:
        try:
            mod = importlib.import_module(f'sa.props.{prop.lower()}')
        except ImportError:
            continue
        variants = getattr(mod, 'VARIANTS', [])
        with ThreadPoolExecutor(max_workers=16) as ex:
            results = list(ex.map(lambda v: _run_variant(prop, v), variants))
        for n, s, d in results:
            flag = '' if s in ('fired', 'silent') else '   <<<<<<'
            print(f'{prop} {s:12} {n} {d if flag else ""}{flag}')
            if flag and s != 'stale':
                rc = 1
    return rc


if __name__ == '__main__':
    sys.exit(main())
