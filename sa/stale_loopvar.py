"""A comprehension / generator expression placed after a `for` loop must not read that loop's variable unless it binds the
name itself: after the loop the variable just holds the *last* item, so `{ch.cid: c for c in channels}` written with the
stale `ch` gives every entry the same key (a half-renamed loop variable).  Expected count is zero: a positive control
is evaluated on every run."""
from __future__ import annotations

import ast

from .core import FUNC, walk_local

COMPS = (ast.ListComp, ast.SetComp, ast.DictComp, ast.GeneratorExp)


def stale_uses(fn):
    out = []
    for l in [x for x in walk_local(fn) if isinstance(x, (ast.For, ast.AsyncFor))]:
        inside = {id(x) for x in ast.walk(l)}
        tnames = {x.id for x in ast.walk(l.target) if isinstance(x, ast.Name)}
        # names assigned only inside this loop's body are per-iteration values as well
        body_assigned = {y.id for a in ast.walk(l) if isinstance(a, (ast.Assign, ast.AnnAssign, ast.NamedExpr)) for t in (a.targets if isinstance(a, ast.Assign) else [a.target]) for y in ast.walk(t) if isinstance(y, ast.Name) and isinstance(y.ctx, ast.Store)}
        outside_assigned = {y.id for a in walk_local(fn) if id(a) not in inside and isinstance(a, (ast.Assign, ast.AnnAssign, ast.AugAssign, ast.NamedExpr, ast.For, ast.AsyncFor, ast.With, ast.AsyncWith)) and a is not l
                            for y in ast.walk(a) if isinstance(y, ast.Name) and isinstance(y.ctx, ast.Store) and id(y) not in inside}
        params = {a_.arg for a_ in fn.args.posonlyargs + fn.args.args + fn.args.kwonlyargs}
        tnames |= (body_assigned - outside_assigned - params)
        end = getattr(l, 'end_lineno', None) or max((getattr(x, 'lineno', l.lineno) for x in ast.walk(l)), default=l.lineno)
        for comp in [c for c in walk_local(fn) if isinstance(c, COMPS) and id(c) not in inside and c.lineno > end]:
            bound = {x.id for g in comp.generators for x in ast.walk(g.target) if isinstance(x, ast.Name)}
            used = {x.id for x in ast.walk(comp) if isinstance(x, ast.Name) and isinstance(x.ctx, ast.Load)}
            for s_ in sorted((used & tnames) - bound):
                rebound = any(isinstance(a, (ast.Assign, ast.AugAssign, ast.AnnAssign, ast.For, ast.AsyncFor, ast.NamedExpr, ast.With, ast.AsyncWith)) and id(a) not in inside and end < a.lineno <= comp.lineno
                              and s_ in {y.id for y in ast.walk(a) if isinstance(y, ast.Name) and isinstance(y.ctx, ast.Store)} for a in walk_local(fn))
                if not rebound:
                    out.append((s_, l, comp))
    return out


def stale_loopvar(ctx, rule, modules):
    R, p = ctx.r, ctx.p
    n = 0
    for mn in modules:
        m = p.modules.get(mn)
        if m is None:
            R.bad(rule, mn, 'anchor missing')
            continue
        for fn in [x for x in ast.walk(m.tree) if isinstance(x, FUNC)]:
            n += 1
            for name, loop, comp in stale_uses(fn):
                R.bad(rule, f'{p.qual_of(fn)} | {name}', f'the comprehension at line {comp.lineno} reads `{name}`, the variable of the loop at line {loop.lineno} that has already finished: it is the last item for every element (all entries get the same key / value)', f'{m.rel}:{comp.lineno}')
    ctl = ast.parse('def f(t, cs, ks):\n    for k in ks:\n        ch = make(k)\n    t.update((ch.cid, c) for c in cs)\n').body[0]
    for x in ast.walk(ctl):
        for ch in ast.iter_child_nodes(x):
            ch._parent = x
    R.check([s_ for s_, _, _ in stale_uses(ctl)] == ['ch'] and n >= 1, rule, f'{", ".join(modules)} | functions', f'{n} functions, no comprehension reads a finished loop\'s variable (positive control matched)', 'positive control not matched')
