"""A very small interval evaluator for integer expressions (constants, +, -, *, %, //, &, |, <<, >> with constants,
min/max), used to show that a computed value stays inside the range of the field it is written to."""
from __future__ import annotations

import ast

from .core import dotted


def interval(e, env):
    """-> (lo, hi) or None when nothing is known.  env: name / expression text -> (lo, hi)."""
    from .core import norm
    t = norm(e)
    if t in env:
        return env[t]
    if isinstance(e, ast.Constant) and isinstance(e.value, int) and not isinstance(e.value, bool):
        return (e.value, e.value)
    if isinstance(e, ast.Name) and e.id in env:
        return env[e.id]
    if isinstance(e, ast.UnaryOp) and isinstance(e.op, ast.USub):
        a = interval(e.operand, env)
        return None if a is None else (-a[1], -a[0])
    if isinstance(e, ast.BinOp):
        a, b = interval(e.left, env), interval(e.right, env)
        if isinstance(e.op, ast.Mod) and b is not None and b[0] == b[1] and b[0] > 0:
            m = b[0]
            if a is not None and 0 <= a[0] and a[1] < m:
                return a
            return (0, m - 1)
        if isinstance(e.op, ast.BitAnd):
            for x in (a, b):
                if x is not None and x[0] == x[1] and x[0] >= 0:
                    return (0, x[0])
        if a is None or b is None:
            return None
        if isinstance(e.op, ast.Add):
            return (a[0] + b[0], a[1] + b[1])
        if isinstance(e.op, ast.Sub):
            return (a[0] - b[1], a[1] - b[0])
        if isinstance(e.op, ast.Mult):
            c = [a[0] * b[0], a[0] * b[1], a[1] * b[0], a[1] * b[1]]
            return (min(c), max(c))
        if isinstance(e.op, ast.FloorDiv) and b[0] == b[1] and b[0] > 0:
            return (a[0] // b[0], a[1] // b[0])
        if isinstance(e.op, ast.LShift) and b[0] == b[1] and b[0] >= 0 and a[0] >= 0:
            return (a[0] << b[0], a[1] << b[0])
        if isinstance(e.op, ast.RShift) and b[0] == b[1] and b[0] >= 0 and a[0] >= 0:
            return (a[0] >> b[0], a[1] >> b[0])
        if isinstance(e.op, ast.BitOr) and a[0] >= 0 and b[0] >= 0:
            hi = (1 << max(a[1].bit_length(), b[1].bit_length())) - 1
            return (max(a[0], b[0]), hi)
        return None
    if isinstance(e, ast.Call) and dotted(e.func) in ('min', 'max') and e.args and not e.keywords:
        xs = [interval(a, env) for a in e.args]
        if any(x is None for x in xs):
            known = [x for x in xs if x is not None]
            if dotted(e.func) == 'min' and known:
                return (None, min(x[1] for x in known)) if False else None
            return None
        return (min(x[0] for x in xs), min(x[1] for x in xs)) if dotted(e.func) == 'min' else (max(x[0] for x in xs), max(x[1] for x in xs))
    if isinstance(e, ast.IfExp):
        a, b = interval(e.body, env), interval(e.orelse, env)
        return None if a is None or b is None else (min(a[0], b[0]), max(a[1], b[1]))
    return None
