"""Program model over /repo's current working tree (stdlib ast only)."""
from __future__ import annotations

import ast
import os
import struct
from typing import Iterable, Iterator, Optional

REPO = os.environ.get('SA_REPO', '/repo')

FUNC = (ast.FunctionDef, ast.AsyncFunctionDef)
SCOPE = (ast.FunctionDef, ast.AsyncFunctionDef, ast.ClassDef, ast.Lambda)


class AnalysisError(Exception):
    """The tool cannot do its job (exit 2)."""


# --------------------------------------------------------------------------
# small AST helpers
# --------------------------------------------------------------------------
def text(node) -> str:
    if node is None:
        return ''
    try:
        return ast.unparse(node)
    except Exception:  # pragma: no cover
        return '<?>'


def chain(expr) -> Optional[tuple]:
    """`self.a.b` -> ('self','a','b'); anything else -> None."""
    parts = []
    e = expr
    while isinstance(e, ast.Attribute):
        parts.append(e.attr)
        e = e.value
    if isinstance(e, ast.Name):
        parts.append(e.id)
        return tuple(reversed(parts))
    return None


def dotted(expr) -> Optional[str]:
    c = chain(expr)
    return '.'.join(c) if c else None


def call_name(call: ast.Call) -> Optional[str]:
    return dotted(call.func)


def call_attr(call: ast.Call) -> Optional[str]:
    """last component of the callee: `a.b.c(...)` -> 'c', `f(...)` -> 'f'."""
    f = call.func
    if isinstance(f, ast.Attribute):
        return f.attr
    if isinstance(f, ast.Name):
        return f.id
    return None


def strip_await(e):
    while isinstance(e, ast.Await):
        e = e.value
    return e


def walk_local(node, include_lambda=False) -> Iterator[ast.AST]:
    """Walk without entering nested function / class definitions (the root is
    entered even if it is one)."""
    stack = list(ast.iter_child_nodes(node))
    while stack:
        n = stack.pop()
        yield n
        if isinstance(n, (ast.FunctionDef, ast.AsyncFunctionDef, ast.ClassDef)):
            continue
        if isinstance(n, ast.Lambda) and not include_lambda:
            continue
        stack.extend(ast.iter_child_nodes(n))


def calls_in(node, include_lambda=False) -> list:
    out = [n for n in walk_local(node, include_lambda) if isinstance(n, ast.Call)]
    out.sort(key=lambda n: (n.lineno, n.col_offset))
    return out


def const(e):
    """Literal value of a constant expression or raise ValueError."""
    if isinstance(e, ast.Constant):
        return e.value
    if isinstance(e, ast.UnaryOp) and isinstance(e.op, ast.USub):
        return -const(e.operand)
    if isinstance(e, ast.UnaryOp) and isinstance(e.op, ast.Invert):
        return ~const(e.operand)
    if isinstance(e, ast.BinOp):
        l, r = const(e.left), const(e.right)
        op = e.op
        if isinstance(op, ast.Add):
            return l + r
        if isinstance(op, ast.Sub):
            return l - r
        if isinstance(op, ast.Mult):
            return l * r
        if isinstance(op, ast.LShift):
            return l << r
        if isinstance(op, ast.RShift):
            return l >> r
        if isinstance(op, ast.BitOr):
            return l | r
        if isinstance(op, ast.BitAnd):
            return l & r
        if isinstance(op, ast.BitXor):
            return l ^ r
        if isinstance(op, ast.FloorDiv):
            return l // r
        if isinstance(op, ast.Pow):
            return l**r
    if isinstance(e, (ast.Tuple, ast.List)):
        return tuple(const(x) for x in e.elts)
    raise ValueError(text(e))


def is_const(e) -> bool:
    try:
        const(e)
        return True
    except (ValueError, TypeError, ZeroDivisionError):
        return False


def calcsize(fmt: str) -> int:
    return struct.calcsize(fmt)


def kwarg(call: ast.Call, name: str, pos: Optional[int] = None):
    for kw in call.keywords:
        if kw.arg == name:
            return kw.value
    if pos is not None and len(call.args) > pos:
        a = call.args[pos]
        if not isinstance(a, ast.Starred):
            return a
    return None


def inert(s) -> bool:
    """statement without effect on the analysed behaviour: pass, docstring/constant expression, logging call."""
    if isinstance(s, ast.Pass):
        return True
    if isinstance(s, ast.Expr):
        if isinstance(s.value, ast.Constant):
            return True
        if isinstance(s.value, ast.Call) and (dotted(s.value.func) or '').split('.')[0] in ('logger', 'logging'):
            return True
    return False


def stmts_of(fn) -> list:
    return list(fn.body)


def enclosing(node, kinds):
    p = getattr(node, '_parent', None)
    while p is not None and not isinstance(p, kinds):
        p = getattr(p, '_parent', None)
    return p


def ancestors(node):
    p = getattr(node, '_parent', None)
    while p is not None:
        yield p
        p = getattr(p, '_parent', None)


def enclosing_function(node):
    return enclosing(node, FUNC)


_STMT_START = ('if ', 'elif ', 'return ', 'for ', 'async for ', 'while ', 'await ', 'del ', 'raise ', 'assert ', 'with ', 'async with ')


class NormStr(str):
    """Normalised text of a node.  `needle in NormStr` is a plain substring test for expression fragments, but a needle
    that reads as a whole statement (an assignment, or one starting with a statement keyword) must match from the start
    of a statement to the end of one: `x = a + b` does not match inside `x = a + b + c` nor inside `yx = a + b`."""
    __slots__ = ('_starts', '_ends')

    def __new__(cls, lines):
        pieces = [' '.join(ln.split()) for ln in lines]
        pieces = [x for x in pieces if x]
        self = super().__new__(cls, ' '.join(pieces))
        starts, ends, off = set(), set(), 0
        for x in pieces:
            starts.add(off)
            ends.add(off + len(x))
            off += len(x) + 1
        self._starts, self._ends = starts, ends
        return self

    def __contains__(self, needle):
        if not isinstance(needle, str):
            return str.__contains__(self, needle)
        whole = (' = ' in needle and not needle.endswith(('(', '[', '.', ',', ' '))) or needle.startswith(('return ', 'raise ', 'await ')) or (needle.startswith(_STMT_START) and needle.endswith(':'))
        if not whole:
            return str.__contains__(self, needle)
        i = str.find(self, needle)
        while i >= 0:
            if i in self._starts and (i + len(needle)) in self._ends:
                return True
            i = str.find(self, needle, i + 1)
        return False


def norm(node) -> str:
    """Normalised statement text (key material independent of layout)."""
    return NormStr(text(node).split('\n'))


# --------------------------------------------------------------------------
# modules / classes
# --------------------------------------------------------------------------
class Module:
    def __init__(self, name: str, path: str, rel: str, src: str):
        self.name = name
        self.path = path
        self.rel = rel
        self.src = src
        from .normalize import canonical
        from . import alpha
        self.tree = canonical(ast.parse(src, filename=path))
        self.alpha_restored = alpha.restore(self.tree, name)
        self.imports: dict[str, str] = {}
        self.defs: dict[str, ast.AST] = {}
        self.assigns: dict[str, ast.AST] = {}
        self._index()

    def _index(self):
        pkg = self.name.rsplit('.', 1)[0] if '.' in self.name else self.name
        if self.path.endswith('__init__.py'):
            pkg = self.name
        for node in ast.walk(self.tree):
            for ch in ast.iter_child_nodes(node):
                ch._parent = node
                ch._module = self
        self.tree._parent = None
        self.tree._module = self
        for node in ast.walk(self.tree):
            if isinstance(node, ast.Import):
                for a in node.names:
                    self.imports[a.asname or a.name.split('.')[0]] = (
                        a.name if a.asname else a.name.split('.')[0]
                    )
            elif isinstance(node, ast.ImportFrom):
                base = node.module or ''
                if node.level:
                    parts = pkg.split('.')
                    parts = parts[: len(parts) - (node.level - 1)]
                    base = '.'.join(parts + ([node.module] if node.module else []))
                for a in node.names:
                    self.imports[a.asname or a.name] = f'{base}.{a.name}'
        for node in self.tree.body:
            if isinstance(node, (ast.FunctionDef, ast.AsyncFunctionDef, ast.ClassDef)):
                self.defs[node.name] = node
            elif isinstance(node, ast.Assign):
                for t in node.targets:
                    if isinstance(t, ast.Name):
                        self.assigns[t.id] = node.value
            elif isinstance(node, ast.AnnAssign) and isinstance(node.target, ast.Name):
                if node.value is not None:
                    self.assigns[node.target.id] = node.value

    def loc(self, node) -> str:
        return f'{self.rel}:{getattr(node, "lineno", 0)}'


class ClassInfo:
    def __init__(self, qual: str, module: Module, node: ast.ClassDef):
        self.qual = qual
        self.name = node.name
        self.module = module
        self.node = node
        self.methods: dict[str, ast.AST] = {}
        self.assigns: dict[str, ast.AST] = {}
        self.annots: dict[str, ast.AST] = {}
        self.nested: dict[str, 'ClassInfo'] = {}
        self.bases: list[str] = []  # resolved qualified names where possible
        for s in node.body:
            if isinstance(s, FUNC):
                # keep the last definition (matches Python semantics), but
                # property setters etc. share a name: keep first for getters
                if s.name in self.methods and any(
                    text(d).endswith('.setter') or text(d).endswith('.deleter')
                    for d in s.decorator_list
                ):
                    continue
                self.methods[s.name] = s
            elif isinstance(s, ast.Assign):
                for t in s.targets:
                    if isinstance(t, ast.Name):
                        self.assigns[t.id] = s.value
            elif isinstance(s, ast.AnnAssign) and isinstance(s.target, ast.Name):
                self.annots[s.target.id] = s.annotation
                if s.value is not None:
                    self.assigns[s.target.id] = s.value

    def __repr__(self):
        return f'<class {self.qual}>'


class Program:
    def __init__(self, root: str = None, packages=('bumble',)):
        self.root = root or REPO
        self.modules: dict[str, Module] = {}
        self.classes: dict[str, ClassInfo] = {}
        self.parse_errors: list[str] = []
        for pkg in packages:
            self._load_pkg(pkg)
        for m in list(self.modules.values()):
            for node in m.tree.body:
                if isinstance(node, ast.ClassDef):
                    self._add_class(m, node, m.name)
        # classes defined inside functions (common in bumble/transport)
        known = {id(c.node) for c in self.classes.values()}
        for m in list(self.modules.values()):
            for node in ast.walk(m.tree):
                if isinstance(node, ast.ClassDef) and id(node) not in known:
                    q = self.qual_of(node)
                    if q not in self.classes:
                        self.classes[q] = ClassInfo(q, m, node)
                        known.add(id(node))
        for c in self.classes.values():
            c.bases = [self._resolve_base(c, b) for b in c.node.bases]
        self._subs: dict[str, list[str]] = {}
        for c in self.classes.values():
            for b in c.bases:
                self._subs.setdefault(b, []).append(c.qual)

    # ------------------------------------------------------------------
    def _load_pkg(self, pkg: str):
        base = os.path.join(self.root, pkg)
        if os.path.isfile(base + '.py'):
            self._load_file(base + '.py', pkg)
            return
        for dirpath, dirnames, filenames in os.walk(base):
            dirnames[:] = sorted(d for d in dirnames if d != '__pycache__')
            for fn in sorted(filenames):
                if not fn.endswith('.py'):
                    continue
                path = os.path.join(dirpath, fn)
                rel = os.path.relpath(path, self.root)
                name = rel[:-3].replace(os.sep, '.')
                if name.endswith('.__init__'):
                    name = name[: -len('.__init__')]
                self._load_file(path, name)

    def _load_file(self, path: str, name: str):
        rel = os.path.relpath(path, self.root)
        try:
            with open(path, encoding='utf-8') as f:
                src = f.read()
            self.modules[name] = Module(name, path, rel, src)
        except SyntaxError as e:
            self.parse_errors.append(f'{rel}: {e}')

    def _add_class(self, m: Module, node: ast.ClassDef, prefix: str, outer=None):
        qual = f'{prefix}.{node.name}'
        ci = ClassInfo(qual, m, node)
        self.classes[qual] = ci
        if outer is not None:
            outer.nested[node.name] = ci
        for s in node.body:
            if isinstance(s, ast.ClassDef):
                self._add_class(m, s, qual, ci)

    def _resolve_base(self, c: ClassInfo, b) -> str:
        d = dotted(b)
        if d is None and isinstance(b, ast.Subscript):
            d = dotted(b.value)
        if d is None:
            return text(b)
        return self.resolve_name(c.module, d, c) or d

    def resolve_name(self, m: Module, d: str, within: ClassInfo = None) -> Optional[str]:
        """Resolve a dotted name used in module `m` to a qualified class /
        function / module name known to the program."""
        head, _, rest = d.partition('.')
        cands = []
        if within is not None:
            # nested class or sibling of the enclosing class
            q = within.qual
            while '.' in q:
                cands.append(f'{q}.{d}')
                q = q.rsplit('.', 1)[0]
        cands.append(f'{m.name}.{d}')
        if head in m.imports:
            cands.append(m.imports[head] + ('.' + rest if rest else ''))
        for cnd in cands:
            if cnd in self.classes or cnd in self.modules or self.find(cnd) is not None:
                return cnd
        return None

    # ------------------------------------------------------------------
    def module(self, name: str) -> Optional[Module]:
        return self.modules.get(name)

    def cls(self, qual: str) -> Optional[ClassInfo]:
        return self.classes.get(qual)

    def find(self, qual: str):
        """'bumble.l2cap.ChannelManager.on_channel_closed' -> node or None."""
        if qual in self.classes:
            return self.classes[qual].node
        parts = qual.split('.')
        for i in range(len(parts), 0, -1):
            mn = '.'.join(parts[:i])
            if mn in self.modules:
                m = self.modules[mn]
                rest = parts[i:]
                if not rest:
                    return m.tree
                node = m.defs.get(rest[0])
                if node is None:
                    return m.assigns.get(rest[0]) if len(rest) == 1 else None
                for p in rest[1:]:
                    nxt = None
                    for s in node.body if hasattr(node, 'body') else []:
                        if isinstance(s, (ast.ClassDef,) + FUNC) and s.name == p:
                            nxt = s
                    if nxt is None:
                        # class-level assignment
                        if isinstance(node, ast.ClassDef):
                            ci = self.classes.get('.'.join([mn] + rest[: rest.index(p)]))
                            if ci and p in ci.assigns and p == rest[-1]:
                                return ci.assigns[p]
                        return None
                    node = nxt
                return node
        return None

    def mro(self, qual: str) -> list[ClassInfo]:
        out, seen = [], set()

        def visit(q):
            if q in seen or q not in self.classes:
                return
            seen.add(q)
            out.append(self.classes[q])
            for b in self.classes[q].bases:
                visit(b)

        visit(qual)
        return out

    def resolve_method(self, qual: str, name: str):
        for c in self.mro(qual):
            if name in c.methods:
                return c, c.methods[name]
        return None

    def subclasses(self, qual: str, transitive=True) -> list[ClassInfo]:
        out, stack, seen = [], list(self._subs.get(qual, [])), set()
        while stack:
            q = stack.pop()
            if q in seen:
                continue
            seen.add(q)
            out.append(self.classes[q])
            if transitive:
                stack.extend(self._subs.get(q, []))
        return sorted(out, key=lambda c: c.qual)

    def is_subclass(self, qual: str, base: str) -> bool:
        return any(c.qual == base for c in self.mro(qual))

    def class_of(self, node) -> Optional[ClassInfo]:
        """ClassInfo of the class directly enclosing a function node."""
        p = enclosing(node, (ast.ClassDef,))
        if p is None:
            return None
        for c in self.classes.values():
            if c.node is p:
                return c
        return None

    def qual_of(self, node) -> str:
        names = []
        n = node
        while n is not None and not isinstance(n, ast.Module):
            if isinstance(n, (ast.ClassDef,) + FUNC):
                names.append(n.name)
            n = getattr(n, '_parent', None)
        m = getattr(node, '_module', None)
        return '.'.join([m.name if m else '?'] + list(reversed(names)))

    def loc(self, node) -> str:
        m = getattr(node, '_module', None)
        return f'{m.rel if m else "?"}:{getattr(node, "lineno", 0)}'

    def functions(self, module_prefix: str = 'bumble') -> Iterable[ast.AST]:
        for name, m in sorted(self.modules.items()):
            if not name.startswith(module_prefix):
                continue
            for n in ast.walk(m.tree):
                if isinstance(n, FUNC):
                    yield n

    def module_const(self, module: str, name: str):
        m = self.modules.get(module)
        if not m or name not in m.assigns:
            raise KeyError(f'{module}.{name}')
        return const(m.assigns[name])


_PROGRAMS: dict = {}


def program(packages=('bumble',), root=None) -> Program:
    key = (root or REPO, tuple(packages))
    if key not in _PROGRAMS:
        _PROGRAMS[key] = Program(root or REPO, packages)
    return _PROGRAMS[key]


def slice_parts(e):
    """`x[a:b]` -> (norm(x), norm(a) or '0', norm(b) or None); else None."""
    if isinstance(e, ast.Subscript) and isinstance(e.slice, ast.Slice) and e.slice.step is None:
        lo = e.slice.lower
        lo_s = '0' if lo is None or (isinstance(lo, ast.Constant) and lo.value == 0) else norm(lo)
        hi = e.slice.upper
        return norm(e.value), lo_s, (norm(hi) if hi is not None else None)
    return None
