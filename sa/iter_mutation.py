"""A loop over a live collection whose body -- through the methods it calls, followed by name for a few levels -- inserts
into or removes from that same collection raises `RuntimeError: ... changed size during iteration` in the middle of a
teardown: the items after the first are never processed.

  for dlc in self.dlcs.values():      # live view of self.dlcs
      dlc.abort()                     # -> ... -> self.multiplexer.on_dlc_disconnection(self) -> self.dlcs.pop(...)

Iterating a copy (list(...), [*...], .copy(), sorted(...)) or a collection that was detached first (x = self.T.pop(k))
is safe.  Callees are resolved by method name within the given modules (an over-approximation: any method of that name)."""
from __future__ import annotations

import ast

from .core import FUNC, dotted, walk_local

MUTATORS = {'pop', 'popitem', 'clear', 'remove', 'append', 'appendleft', 'add', 'discard', 'update', 'setdefault', 'insert', 'extend', 'popleft'}
COPIES = {'list', 'tuple', 'sorted', 'set', 'frozenset', 'dict'}


def _attr_of(e, aliases):
    """name of the attribute table an expression denotes: `x.T`, `x.T[k]`, `x.T.get(k, ..)`, `x.T.setdefault(k, ..)`, alias."""
    while True:
        if isinstance(e, ast.Name):
            return aliases.get(e.id)
        if isinstance(e, ast.Attribute):
            return e.attr if not isinstance(e.value, ast.Call) else None
        if isinstance(e, ast.Subscript):
            e = e.value
            continue
        if isinstance(e, ast.Call) and isinstance(e.func, ast.Attribute) and e.func.attr in ('get', 'setdefault', 'values', 'items', 'keys'):
            e = e.func.value
            continue
        if isinstance(e, ast.NamedExpr):
            e = e.value
            continue
        return None


def _aliases(fn):
    out = {}
    for n in ast.walk(fn):
        tgt = val = None
        if isinstance(n, ast.Assign) and len(n.targets) == 1 and isinstance(n.targets[0], ast.Name):
            tgt, val = n.targets[0].id, n.value
        elif isinstance(n, ast.NamedExpr):
            tgt, val = n.target.id, n.value
        if tgt is None:
            continue
        # detached by pop: not an alias of the live table
        if isinstance(val, ast.Call) and isinstance(val.func, ast.Attribute) and val.func.attr in ('pop', 'copy'):
            continue
        if isinstance(val, ast.Call) and dotted(val.func) in COPIES:
            continue
        a = _attr_of(val, {})
        if a and isinstance(val, (ast.Call, ast.Subscript, ast.Attribute)):
            out[tgt] = a
    return out


def mutated(fn, index, depth, seen=None):
    """attribute-table names that fn, or what it calls (by name, `depth` levels), inserts into / removes from."""
    seen = seen if seen is not None else set()
    if id(fn) in seen:
        return set()
    seen.add(id(fn))
    al = _aliases(fn)
    out = set()
    for n in ast.walk(fn):
        if isinstance(n, ast.Call) and isinstance(n.func, ast.Attribute) and n.func.attr in MUTATORS:
            a = _attr_of(n.func.value, al)
            if a:
                out.add(a)
        elif isinstance(n, ast.Delete):
            for t in n.targets:
                if isinstance(t, ast.Subscript):
                    a = _attr_of(t.value, al)
                    if a:
                        out.add(a)
        elif isinstance(n, ast.Assign):
            for t in n.targets:
                if isinstance(t, ast.Subscript):
                    a = _attr_of(t.value, al)
                    if a:
                        out.add(a)
    if depth > 0:
        for n in ast.walk(fn):
            if isinstance(n, ast.Call) and isinstance(n.func, ast.Attribute) and n.func.attr not in MUTATORS:
                for callee in index.get(n.func.attr, ()):
                    out |= mutated(callee, index, depth - 1, seen)
    return out


def live_loops(fn):
    """(loop, table attribute name) for loops iterating a live attribute table (directly or through a local alias)."""
    al = _aliases(fn)
    out = []
    for l in [x for x in walk_local(fn) if isinstance(x, (ast.For, ast.AsyncFor))]:
        it = l.iter
        if isinstance(it, ast.Call) and dotted(it.func) in COPIES:
            continue
        if isinstance(it, (ast.List, ast.Tuple, ast.ListComp)):
            continue
        if isinstance(it, ast.Call) and isinstance(it.func, ast.Attribute) and it.func.attr == 'copy':
            continue
        if not (isinstance(it, ast.Call) and isinstance(it.func, ast.Attribute) and it.func.attr in ('values', 'items', 'keys')):
            continue    # dict views only: those raise on a size change (a list silently skips)
        a = _attr_of(it, al)
        if a:
            out.append((l, a))
    return out


def iter_mutation(ctx, rule, modules, depth=3):
    R, p = ctx.r, ctx.p
    index = {}
    for mn in modules:
        m = p.modules.get(mn)
        if m is None:
            R.bad(rule, mn, 'anchor missing')
            continue
        for fn in [x for x in ast.walk(m.tree) if isinstance(x, FUNC)]:
            index.setdefault(fn.name, []).append(fn)
    n = 0
    for mn in modules:
        m = p.modules.get(mn)
        if m is None:
            continue
        for fn in [x for x in ast.walk(m.tree) if isinstance(x, FUNC)]:
            for loop, table in live_loops(fn):
                n += 1
                body = ast.Module(body=loop.body, type_ignores=[])
                direct = mutated(body, index, depth)
                if table in direct:
                    R.bad(rule, f'{p.qual_of(fn)} | for ... in {table}', f'the loop at line {loop.lineno} iterates the live `{table}` table and its body (through the methods it calls) inserts into / removes from `{table}`: the iteration raises RuntimeError after the first item and the remaining items are never processed', f'{m.rel}:{loop.lineno}')
    # positive control
    src = ('class M:\n    def close(self):\n        for d in self.dlcs.values():\n            d.abort()\n    def gone(self, d):\n        self.dlcs.pop(d.k, None)\n'
           'class D:\n    def abort(self):\n        self.m.gone(self)\n')
    ct = ast.parse(src)
    for x in ast.walk(ct):
        for ch in ast.iter_child_nodes(x):
            ch._parent = x
    cidx = {}
    for f in [x for x in ast.walk(ct) if isinstance(x, FUNC)]:
        cidx.setdefault(f.name, []).append(f)
    cfn = cidx['close'][0]
    cl = live_loops(cfn)
    cok = len(cl) == 1 and cl[0][1] in mutated(ast.Module(body=cl[0][0].body, type_ignores=[]), cidx, 3)
    R.check(cok, rule, f'{", ".join(modules)} | loops over live tables', f'{n} loops over live attribute tables, none mutates its table through its body (positive control matched)', 'positive control not matched')
