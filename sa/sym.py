"""A small symbolic domain for the path interpreter: branch facts + last-assignment store.

value = (facts, store, extra)
  facts : frozenset of (canonical atom text, truth) learnt from branch decisions
  store : frozenset of (target text, expression text) - the expression last assigned
          to a simple target on this path, with known locals substituted in, so
          `n = len(x); y = x[:n]` and `y = x[:len(x)]` give the same store entry
  extra : client data, updated by `Sym.on_event`

Canonical atoms make equivalent tests equal:
  not a          -> (a, flipped)
  a != b         -> (a == b, flipped)        a is not b -> (a is b, flipped)
  a not in b     -> (a in b, flipped)
  a < b          -> (b > a, same)   a <= b -> (a > b, flipped)   a >= b -> (b > a, flipped)
An assignment kills every fact and invalidates every store entry that mentions
the assigned target.
"""
from __future__ import annotations

import ast
import functools

from . import paths
from .core import AnalysisError, dotted, norm


def _names(e) -> set:
    out = set()
    for x in ast.walk(e):
        if isinstance(x, (ast.Attribute, ast.Name)):
            d = dotted(x)
            if d:
                out.add(d)
    return out


@functools.lru_cache(maxsize=None)
def names_of_text(t: str) -> frozenset:
    try:
        return frozenset(_names(ast.parse(t, mode='eval').body))
    except SyntaxError:
        return frozenset()


def canon(atom, truth: bool = True):
    """-> (text, truth) in canonical form."""
    if isinstance(atom, ast.UnaryOp) and isinstance(atom.op, ast.Not):
        return canon(atom.operand, not truth)
    if isinstance(atom, ast.Compare) and len(atom.ops) == 1:
        a, b, op = norm(atom.left), norm(atom.comparators[0]), atom.ops[0]
        if isinstance(op, ast.Eq):
            x, y = sorted((a, b))
            return f'{x} == {y}', truth
        if isinstance(op, ast.NotEq):
            x, y = sorted((a, b))
            return f'{x} == {y}', not truth
        if isinstance(op, ast.Is):
            return f'{a} is {b}', truth
        if isinstance(op, ast.IsNot):
            return f'{a} is {b}', not truth
        if isinstance(op, ast.In):
            return f'{a} in {b}', truth
        if isinstance(op, ast.NotIn):
            return f'{a} in {b}', not truth
        if isinstance(op, ast.Gt):
            return f'{a} > {b}', truth
        if isinstance(op, ast.Lt):
            return f'{b} > {a}', truth
        if isinstance(op, ast.LtE):
            return f'{a} > {b}', not truth
        if isinstance(op, ast.GtE):
            return f'{b} > {a}', not truth
    return norm(atom), truth


def canon_text(text: str, truth: bool = True):
    return canon(ast.parse(text, mode='eval').body, truth)


class _Old(ast.NodeTransformer):
    def __init__(self, name, k):
        self.name, self.k = name, k

    def generic_visit(self, node):
        if isinstance(node, (ast.Attribute, ast.Name)) and dotted(node) == self.name and isinstance(getattr(node, 'ctx', None), ast.Load):
            return ast.Call(func=ast.Name(id='at', ctx=ast.Load()), args=[node, ast.Constant(self.k)], keywords=[])
        if isinstance(node, ast.Call) and isinstance(node.func, ast.Name) and node.func.id == 'at':
            return node  # already a versioned reference
        return super().generic_visit(node)


@functools.lru_cache(maxsize=None)
def _rename(text, name, k):
    try:
        tree = ast.parse(text, mode='eval').body
    except SyntaxError:
        return text
    tree = _Old(name, k).visit(tree)
    ast.fix_missing_locations(tree)
    return norm(tree)


class _Subst(ast.NodeTransformer):
    def __init__(self, env):
        self.env = env

    def visit_Name(self, node):
        if isinstance(node.ctx, ast.Load) and node.id in self.env:
            try:
                return ast.parse(self.env[node.id], mode='eval').body
            except SyntaxError:
                return node
        return node

    def visit_Lambda(self, node):
        return node


def _targets(node):
    if isinstance(node, ast.Assign):
        out = []
        for t in node.targets:
            out += list(t.elts) if isinstance(t, (ast.Tuple, ast.List)) else [t]
        return out
    if isinstance(node, (ast.AugAssign, ast.AnnAssign)):
        return [node.target]
    if isinstance(node, ast.NamedExpr):
        return [node.target]
    return []


@functools.lru_cache(maxsize=None)
def _subst_text(text, env_items):
    tree = ast.parse(text, mode='eval').body
    tree = _Subst(dict(env_items)).visit(tree)
    ast.fix_missing_locations(tree)
    return norm(tree)


class _Simp(ast.NodeTransformer):
    """Resolve conditional expressions whose test is decided by the known facts."""

    def __init__(self, facts):
        self.facts = dict(facts)

    def visit_IfExp(self, node):
        t, tr = canon(node.test, True)
        if t in self.facts:
            return self.visit(node.body if self.facts[t] == tr else node.orelse)
        return self.generic_visit(node)


def simplify(text: str, facts) -> str:
    if ' if ' not in text:
        return text
    try:
        tree = ast.parse(text, mode='eval').body
    except SyntaxError:
        return text
    tree = _Simp(facts).visit(tree)
    ast.fix_missing_locations(tree)
    return norm(tree)


class Sym(paths.Domain):
    INIT = (frozenset(), frozenset(), None)

    def __init__(self, substitute=True, fact_filter=None, store_filter=None, no_subst=()):
        """fact_filter(atom text) / store_filter(target text): keep only what the client needs
        (fewer distinct states: facts and store entries never merge paths)."""
        self.substitute = substitute
        self.no_subst = set(no_subst)  # object-valued locals (aliases): never inlined
        self.fact_filter = fact_filter
        self.store_filter = store_filter

    # --- client hooks
    def on_event(self, node, extra, facts: dict, store: dict):
        return extra

    def on_assume(self, atom_text, truth, extra, facts: dict, store: dict):
        return extra

    # --- helpers
    def expr(self, e, store: dict, facts=None) -> str:
        if e is None:
            return 'None'
        if facts:
            return simplify(self.expr(e, store), facts)
        if self.substitute:
            used = {x.id for x in ast.walk(e) if isinstance(x, ast.Name)}
            env = {k: v for k, v in store.items() if k in used and '§' not in v and k not in self.no_subst}
            if env:
                return _subst_text(norm(e), tuple(sorted(env.items())))
        return norm(e)

    @staticmethod
    def init(extra=None):
        return (frozenset(), frozenset(), extra)

    # --- Domain
    def event(self, node, v):
        facts, store, extra = v
        tg = _targets(node)
        if tg:
            sd = dict(store)
            val = getattr(node, 'value', None)
            line = getattr(node, 'lineno', 0)
            if isinstance(node, ast.AugAssign):
                t = dotted(node.target)
                old = sd.get(t, t) if t else None
                vt = f'({old}) {_OPS.get(type(node.op), "?")} ({self.expr(val, sd)})' if old else None
                try:
                    vt = norm(ast.parse(vt, mode='eval').body) if vt else None
                except SyntaxError:
                    vt = None
                vals = {t: vt or f'{t}§{line}'} if t else {}
            elif len(tg) == 1:
                t = dotted(tg[0])
                vals = {t: self.expr(val, sd, facts)} if t and val is not None else {}
            elif isinstance(node, ast.Assign) and len(node.targets) > 1 and not any(isinstance(t, (ast.Tuple, ast.List)) for t in node.targets):
                # chained assignment a = b[k] = value
                vt = self.expr(val, sd, facts)
                vals = {dotted(t): vt for t in tg if dotted(t)}
            else:
                vals = {dotted(t): f'{dotted(t)}§{line}' for t in tg if dotted(t)}
            assigned = {dotted(t) for t in tg if dotted(t)}
            # subscript stores mutate their base
            for t in tg:
                if isinstance(t, ast.Subscript) and dotted(t.value):
                    assigned.add(dotted(t.value))
            fl = list(facts)
            # expressions that mention an assigned target now refer to its previous version
            for tname in sorted(assigned):
                if self.store_filter is not None and not self.store_filter(tname) and not any(tname in names_of_text(ex) for ex in list(sd.values()) + list(vals.values())) and not any(tname in names_of_text(a) for a, _ in fl):
                    continue
                vk = f'#ver:{tname}'
                k = int(sd.get(vk, '0'))
                if k > 6:
                    raise AnalysisError(f'Sym domain: {tname} reassigned more than 6 times on one path (use run_block on a loop body, not the loop)')
                touched = False
                for key in list(sd) + [None]:
                    pool = sd if key is not None else vals
                    for kk in ([key] if key is not None else list(vals)):
                        ex = pool.get(kk)
                        if ex is None or kk.startswith('#ver:') or tname not in names_of_text(ex):
                            continue
                        pool[kk] = _rename(ex, tname, k)
                        touched = True
                fl = [(_rename(a, tname, k) if tname in names_of_text(a) else a, tr) for a, tr in fl]
                sd[vk] = str(k + 1)
            for k_, ex in vals.items():
                if self.store_filter is None or self.store_filter(k_):
                    sd[k_] = ex
                else:
                    sd.pop(k_, None)
            facts = frozenset(fl)
            store = frozenset(sd.items())
            # boolean flags become facts
            if isinstance(node, ast.Assign) and len(tg) == 1 and isinstance(tg[0], ast.Name) and isinstance(val, ast.Constant) and isinstance(val.value, bool):
                facts = facts | {(tg[0].id, val.value)}
        if isinstance(node, ast.Return):
            sd = dict(store)
            sd['<return>'] = self.expr(node.value, sd)
            store = frozenset(sd.items())
        extra = self.on_event(node, extra, dict(facts), dict(store))
        return ((facts, store, extra),)

    def assume(self, atom, truth, v):
        facts, store, extra = v
        sd = dict(store)
        a = atom
        if self.substitute:
            used = {x.id for x in ast.walk(atom) if isinstance(x, ast.Name)}
            env = {k: x for k, x in sd.items() if k in used and '§' not in x and k not in self.no_subst}
            if env:
                a = ast.parse(_subst_text(norm(atom), tuple(sorted(env.items()))), mode='eval').body
        t, tr = canon(a, truth)
        if (t, not tr) in facts:
            return ()
        # a > b and b > a cannot both hold
        if tr and ' > ' in t:
            x, y = t.split(' > ', 1)
            if (f'{y} > {x}', True) in facts:
                return ()
        if self.fact_filter is None or self.fact_filter(t):
            facts = facts | {(t, tr)}
        extra = self.on_assume(t, tr, extra, dict(facts), sd)
        return ((facts, store, extra),)


_OPS = {ast.Add: '+', ast.Sub: '-', ast.Mult: '*', ast.FloorDiv: '//', ast.BitOr: '|', ast.BitAnd: '&', ast.LShift: '<<', ast.RShift: '>>', ast.Mod: '%'}


def exits(res: dict, kinds=('fall', 'ret', 'continue', 'break')):
    """-> [(kind, facts dict, store dict, extra, witness)] over non-exceptional exits."""
    out = []
    for k, st in res.items():
        if not any(k == x or k.startswith(x + ':') for x in kinds):
            continue
        for (facts, store, extra), w in st.items():
            out.append((k, dict(facts), dict(store), extra, w))
    return out


def holds(facts: dict, text: str, truth: bool = True) -> bool:
    t, tr = canon_text(text, truth)
    return facts.get(t) == tr


# --------------------------------------------------------------------------- linear forms
def lin(e):
    """linear form over opaque atoms: {atom text: coeff, '': constant}; accepts a node or text."""
    if isinstance(e, str):
        try:
            e = ast.parse(e, mode='eval').body
        except SyntaxError:
            return None
    if isinstance(e, ast.Constant) and isinstance(e.value, int) and not isinstance(e.value, bool):
        return {'': e.value}
    if isinstance(e, ast.UnaryOp) and isinstance(e.op, ast.USub):
        a = lin(e.operand)
        return None if a is None else {k: -v for k, v in a.items()}
    if isinstance(e, ast.BinOp) and isinstance(e.op, (ast.Add, ast.Sub)):
        a, b = lin(e.left), lin(e.right)
        if a is None or b is None:
            return None
        out = dict(a)
        sg = 1 if isinstance(e.op, ast.Add) else -1
        for k, v in b.items():
            out[k] = out.get(k, 0) + sg * v
        return out
    if isinstance(e, ast.BinOp) and isinstance(e.op, ast.Mult):
        a, b = lin(e.left), lin(e.right)
        for x, y in ((a, b), (b, a)):
            if x is not None and y is not None and set(x) <= {''}:
                c = x.get('', 0)
                return {k: c * v for k, v in y.items()}
    return {norm(e): 1, '': 0}


def lin_eq(a, b) -> bool:
    if a is None or b is None:
        return False
    ka = {k: v for k, v in a.items() if v}
    kb = {k: v for k, v in b.items() if v}
    return ka == kb


def slice_locals(fn, seeds) -> set:
    """Local names whose values flow (through assignments in fn) into the seed expressions."""
    want = set()
    for e in seeds:
        want |= {x.id for x in ast.walk(e) if isinstance(x, ast.Name)}
    changed = True
    while changed:
        changed = False
        for n in ast.walk(fn):
            tg = _targets(n)
            if not tg or getattr(n, 'value', None) is None:
                continue
            if any(isinstance(t, ast.Name) and t.id in want for t in tg):
                new = {x.id for x in ast.walk(n.value) if isinstance(x, ast.Name)} - want
                if new:
                    want |= new
                    changed = True
    return want


def object_locals(fn) -> set:
    """Local names used as the base of an attribute access or an item store: they denote objects
    (possibly aliased), so inlining their defining expression would lose identity."""
    out = set()
    for n in ast.walk(fn):
        if isinstance(n, ast.Attribute) and isinstance(n.value, ast.Name) and n.value.id not in ('self', 'cls'):
            out.add(n.value.id)
        if isinstance(n, ast.Subscript) and isinstance(n.ctx, (ast.Store, ast.Del)) and isinstance(n.value, ast.Name):
            out.add(n.value.id)
    return out


# --------------------------------------------------------------------------- integer inequalities
def ineq(test, truth: bool = True):
    """Normalise an integer comparison to a linear form L meaning `L >= 0` (or ('==', L) for equality).
    `a > b` -> a - b - 1 >= 0 ; `a >= b` -> a - b >= 0 ; `a < b` -> b - a - 1 >= 0 ; `a <= b` -> b - a >= 0 ;
    `not t` / truth=False negate.  Returns None when the test is not a two-sided integer comparison."""
    if isinstance(test, str):
        try:
            test = ast.parse(test, mode='eval').body
        except SyntaxError:
            return None
    if isinstance(test, ast.UnaryOp) and isinstance(test.op, ast.Not):
        return ineq(test.operand, not truth)
    if not (isinstance(test, ast.Compare) and len(test.ops) == 1):
        return None
    a, b, op = lin(test.left), lin(test.comparators[0]), test.ops[0]
    if a is None or b is None:
        return None

    def sub(x, y, c=0):
        out = dict(x)
        for k, v in y.items():
            out[k] = out.get(k, 0) - v
        out[''] = out.get('', 0) + c
        return {k: v for k, v in out.items() if v or k == ''}
    if isinstance(op, (ast.Eq, ast.NotEq)):
        d = sub(a, b)
        # orient: first non-constant atom positive
        keys = sorted(k for k in d if k)
        if keys and d[keys[0]] < 0:
            d = {k: -v for k, v in d.items()}
        eq = isinstance(op, ast.Eq)
        return ('==' if eq == truth else '!=', d)
    if isinstance(op, ast.Gt):
        pos = sub(a, b, -1)
    elif isinstance(op, ast.GtE):
        pos = sub(a, b)
    elif isinstance(op, ast.Lt):
        pos = sub(b, a, -1)
    elif isinstance(op, ast.LtE):
        pos = sub(b, a)
    else:
        return None
    if truth:
        return ('>=0', pos)
    # not (L >= 0)  <=>  -L - 1 >= 0
    neg = {k: -v for k, v in pos.items()}
    neg[''] = neg.get('', 0) - 1
    return ('>=0', neg)


def same_ineq(a, b) -> bool:
    """Two tests (nodes, texts or results of ineq) denote the same integer constraint."""
    a = a if isinstance(a, tuple) else ineq(a)
    b = b if isinstance(b, tuple) else ineq(b)
    return a is not None and b is not None and a[0] == b[0] and lin_eq(a[1], b[1])


def cmp_sides(test):
    """orientation-independent view of an ordering test: -> (small text, '<' or '<=', big text) or None."""
    if isinstance(test, str):
        try:
            test = ast.parse(test, mode='eval').body
        except SyntaxError:
            return None
    if not (isinstance(test, ast.Compare) and len(test.ops) == 1):
        return None
    a, b, op = norm(test.left), norm(test.comparators[0]), test.ops[0]
    if isinstance(op, ast.Lt):
        return a, '<', b
    if isinstance(op, ast.LtE):
        return a, '<=', b
    if isinstance(op, ast.Gt):
        return b, '<', a
    if isinstance(op, ast.GtE):
        return b, '<=', a
    return None
