"""Canonical form applied to every module right after parsing, so that rules see one shape for
source variants that mean the same:

  x: T = e (in a function)   ->  x = e            (annotation dropped; a bare `x: T` becomes `pass`)
  t = t OP e                 ->  t OP= e          (Name / Attribute / Subscript targets, left operand is the target)
  not (a OP b)               ->  a OP' b          (==/!=, </>=, >/<=, is/is not, in/not in; single comparison)
  not (a and b), not (a or b)->  De Morgan        (negations pushed down to the atoms)
  not not x                  ->  x                (only where the value is used as a truth value)
  if <negative test>: A else: B -> if <positive test>: B else: A   (also conditional expressions; elif chains untouched)
  CONST OP x                 ->  x OP' CONST      (literal, ALL_CAPS constant or enum member moved to the right-hand side)
  x = E; return x            ->  return E         (x bound and read nowhere else: the temporary in front of a return)

Assumption (stated in DESIGN.md): comparison operators in bumble's protocol code act on ints, bytes, enums and
addresses, for which `not (a < b)` and `a >= b` agree (no NaN, no partial orders).
Line numbers are preserved (copy_location), nothing else is rewritten.
"""
from __future__ import annotations

import ast

_NEG = {ast.Eq: ast.NotEq, ast.NotEq: ast.Eq, ast.Lt: ast.GtE, ast.GtE: ast.Lt, ast.Gt: ast.LtE, ast.LtE: ast.Gt,
        ast.Is: ast.IsNot, ast.IsNot: ast.Is, ast.In: ast.NotIn, ast.NotIn: ast.In}
_MIRROR = {ast.Eq: ast.Eq, ast.NotEq: ast.NotEq, ast.Lt: ast.Gt, ast.Gt: ast.Lt, ast.LtE: ast.GtE, ast.GtE: ast.LtE}
_AUG_OPS = (ast.Add, ast.Sub, ast.Mult, ast.BitOr, ast.BitAnd, ast.BitXor, ast.LShift, ast.RShift, ast.FloorDiv, ast.Mod)


def _same(a, b) -> bool:
    return ast.dump(a).replace('Store()', 'Load()') == ast.dump(b).replace('Store()', 'Load()')


def _negate(e):
    """logical negation of a truth-valued expression, pushed inward."""
    if isinstance(e, ast.UnaryOp) and isinstance(e.op, ast.Not):
        return _truth(e.operand)
    if isinstance(e, ast.Compare) and len(e.ops) == 1 and type(e.ops[0]) in _NEG:
        return ast.copy_location(ast.Compare(left=e.left, ops=[_NEG[type(e.ops[0])]()], comparators=e.comparators), e)
    if isinstance(e, ast.BoolOp):
        op = ast.Or() if isinstance(e.op, ast.And) else ast.And()
        return ast.copy_location(ast.BoolOp(op=op, values=[_negate(v) for v in e.values]), e)
    return ast.copy_location(ast.UnaryOp(op=ast.Not(), operand=e), e)


def _truth(e):
    """canonical form of an expression used for its truth value."""
    if isinstance(e, ast.UnaryOp) and isinstance(e.op, ast.Not):
        return _negate(e.operand)
    if isinstance(e, ast.BoolOp):
        return ast.copy_location(ast.BoolOp(op=e.op, values=[_truth(v) for v in e.values]), e)
    return e


def _constant_like(e) -> bool:
    """literal, or a dotted name whose last component is ALL_CAPS (module constant / enum member), or -literal."""
    if isinstance(e, ast.Constant):
        return True
    if isinstance(e, ast.UnaryOp) and isinstance(e.op, ast.USub) and isinstance(e.operand, ast.Constant):
        return True
    last = e.attr if isinstance(e, ast.Attribute) else e.id if isinstance(e, ast.Name) else None
    if last and last.upper() == last and any(c.isalpha() for c in last):
        x = e
        while isinstance(x, ast.Attribute):
            x = x.value
        return isinstance(x, ast.Name) and x.id not in ('self', 'cls') or (isinstance(e, ast.Attribute) and isinstance(x, ast.Name))
    return False


_NEG_OPS = (ast.NotEq, ast.IsNot, ast.NotIn, ast.LtE, ast.GtE)


def _polarity(e) -> int:
    """> 0: reads as a positive statement, < 0: as a negated one (used to orient if/else)."""
    if isinstance(e, ast.UnaryOp) and isinstance(e.op, ast.Not):
        return -1
    if isinstance(e, ast.Compare) and len(e.ops) == 1:
        return -1 if isinstance(e.ops[0], _NEG_OPS) else 1
    if isinstance(e, ast.BoolOp):
        return sum(_polarity(v) for v in e.values)
    return 1


class Canon(ast.NodeTransformer):
    def __init__(self):
        self.in_function = 0

    def _func(self, node):
        self.in_function += 1
        try:
            self.generic_visit(node)
        finally:
            self.in_function -= 1
        return node
    visit_FunctionDef = _func
    visit_AsyncFunctionDef = _func

    def visit_ClassDef(self, node):
        # class bodies keep their annotated assignments (dataclass fields, declared attribute types)
        saved, self.in_function = self.in_function, 0
        try:
            self.generic_visit(node)
        finally:
            self.in_function = saved
        return node

    def visit_AnnAssign(self, node):
        self.generic_visit(node)
        if self.in_function:
            if node.value is None:
                return ast.copy_location(ast.Pass(), node)
            return ast.copy_location(ast.Assign(targets=[node.target], value=node.value), node)
        return node

    # --- truth-valued positions
    def visit_If(self, node):
        self.generic_visit(node)
        node.test = _truth(node.test)
        # if/else (not an elif chain) is oriented so that the test reads positively
        if node.orelse and not (len(node.orelse) == 1 and isinstance(node.orelse[0], ast.If)) and _polarity(node.test) < 0:
            node.test, node.body, node.orelse = _negate(node.test), node.orelse, node.body
        return node

    def visit_While(self, node):
        self.generic_visit(node)
        node.test = _truth(node.test)
        return node

    def visit_IfExp(self, node):
        self.generic_visit(node)
        node.test = _truth(node.test)
        if _polarity(node.test) < 0:
            node.test, node.body, node.orelse = _negate(node.test), node.orelse, node.body
        return node

    def visit_Assert(self, node):
        self.generic_visit(node)
        node.test = _truth(node.test)
        return node

    def visit_comprehension(self, node):
        self.generic_visit(node)
        node.ifs = [_truth(t) for t in node.ifs]
        return node

    def visit_UnaryOp(self, node):
        self.generic_visit(node)
        if isinstance(node.op, ast.Not):
            # `not <comparison>` and `not <bool op>` are rewritten wherever they occur: the result is a bool either way
            if isinstance(node.operand, (ast.Compare, ast.BoolOp)) or (isinstance(node.operand, ast.UnaryOp) and isinstance(node.operand.op, ast.Not) and isinstance(node.operand.operand, (ast.Compare, ast.BoolOp))):
                return _negate(node.operand)
        return node

    # --- comparisons: constant to the right
    def visit_Compare(self, node):
        self.generic_visit(node)
        if len(node.ops) == 1 and type(node.ops[0]) in _MIRROR and not _constant_like(node.left) and not _constant_like(node.comparators[0]) \
                and not any(isinstance(x, (ast.Call, ast.Await, ast.NamedExpr)) for x in ast.walk(node)) and ast.unparse(node.left) > ast.unparse(node.comparators[0]):
            return ast.copy_location(ast.Compare(left=node.comparators[0], ops=[_MIRROR[type(node.ops[0])]()], comparators=[node.left]), node)
        if len(node.ops) == 1 and type(node.ops[0]) in _MIRROR and _constant_like(node.left) and not _constant_like(node.comparators[0]):
            return ast.copy_location(ast.Compare(left=node.comparators[0], ops=[_MIRROR[type(node.ops[0])]()], comparators=[node.left]), node)
        return node

    # --- t = t OP e  ->  t OP= e
    def visit_Assign(self, node):
        self.generic_visit(node)
        if len(node.targets) == 1 and isinstance(node.targets[0], (ast.Name, ast.Attribute, ast.Subscript)) and isinstance(node.value, ast.BinOp) \
                and isinstance(node.value.op, _AUG_OPS) and _same(node.targets[0], node.value.left):
            return ast.copy_location(ast.AugAssign(target=node.targets[0], op=node.value.op, value=node.value.right), node)
        return node


class _InlineReturnTemp(ast.NodeTransformer):
    """x = E; return x   ->   return E     when x is a local bound only there and read only in that return
    (the temporary a refactor introduces in front of a return; evaluation order and value are unchanged)."""

    def _func(self, node):
        self.generic_visit(node)
        counts = {}
        for n in ast.walk(node):
            if isinstance(n, ast.Name):
                counts[n.id] = counts.get(n.id, 0) + 1
            elif isinstance(n, (ast.Global, ast.Nonlocal)):
                for nm in n.names:
                    counts[nm] = counts.get(nm, 0) + 10
            elif isinstance(n, ast.arg):
                counts[n.arg] = counts.get(n.arg, 0) + 10

        def pair(a, b):
            return isinstance(a, ast.Assign) and len(a.targets) == 1 and isinstance(a.targets[0], ast.Name) and isinstance(b, ast.Return) \
                and isinstance(b.value, ast.Name) and b.value.id == a.targets[0].id
        pairs = {}
        for n in ast.walk(node):
            for fld in ('body', 'orelse', 'finalbody'):
                blk = getattr(n, fld, None)
                if isinstance(blk, list):
                    for a, b in zip(blk, blk[1:]):
                        if pair(a, b):
                            pairs[a.targets[0].id] = pairs.get(a.targets[0].id, 0) + 1

        def fix(block):
            out, i = [], 0
            while i < len(block):
                a = block[i]
                b = block[i + 1] if i + 1 < len(block) else None
                # every occurrence of the name in the function belongs to such a pair
                if pair(a, b) and counts.get(a.targets[0].id) == 2 * pairs.get(a.targets[0].id, 0):
                    out.append(ast.copy_location(ast.Return(value=a.value), a))
                    i += 2
                    continue
                out.append(a)
                i += 1
            return out
        for n in ast.walk(node):
            for fld in ('body', 'orelse', 'finalbody'):
                blk = getattr(n, fld, None)
                if isinstance(blk, list) and blk and all(isinstance(x, ast.stmt) for x in blk):
                    setattr(n, fld, fix(blk))
            if isinstance(n, ast.Try):
                for h in n.handlers:
                    h.body = fix(h.body)
            if isinstance(n, ast.Match):
                for c in n.cases:
                    c.body = fix(c.body)
        return node
    visit_FunctionDef = _func
    visit_AsyncFunctionDef = _func


def canonical(tree: ast.AST) -> ast.AST:
    tree = Canon().visit(tree)
    tree = _InlineReturnTemp().visit(tree)
    ast.fix_missing_locations(tree)
    return tree
