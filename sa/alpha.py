"""Undo pure local-variable renames.

Rules name the locals of the functions they are anchored in (`pdu_space_available`, `packet_count`, ...).
A function that differs from the reference tree only in the names of its local variables is
alpha-equivalent to it: same behaviour.  For such a function the locals are renamed back to the
reference names right after parsing, so the rules see the names they know.

The reference (`controls/alpha.json`, written by `tools/alpha_snapshot.py` from the tree the rules
were confirmed on) stores, per function, the hash of its canonical AST with every local replaced by
its first-binding index, and the local names in that order.  A function whose hash differs is left
alone (whatever the rules then say about it is about a function that really changed).
"""
from __future__ import annotations

import ast
import hashlib
import json
import os

_REF = None
REF_PATH = os.path.join(os.path.dirname(os.path.dirname(os.path.abspath(__file__))), 'controls', 'alpha.json')


def _locals_in_order(fn):
    """names bound by assignment inside fn (including nested functions), in first-binding order (pre-order)."""
    params, blocked, order = set(), set(), []

    def args_of(n):
        a = n.args
        for x in a.posonlyargs + a.args + a.kwonlyargs + ([a.vararg] if a.vararg else []) + ([a.kwarg] if a.kwarg else []):
            params.add(x.arg)

    def visit(n, top=False):
        if isinstance(n, (ast.FunctionDef, ast.AsyncFunctionDef, ast.Lambda)):
            args_of(n)
            if not top and not isinstance(n, ast.Lambda):
                blocked.add(n.name)
        elif isinstance(n, (ast.Global, ast.Nonlocal)):
            blocked.update(n.names)
        elif isinstance(n, ast.ClassDef):
            blocked.add(n.name)
            for x in ast.walk(n):
                if isinstance(x, ast.Name) and isinstance(x.ctx, ast.Store):
                    blocked.add(x.id)
            return
        elif isinstance(n, (ast.Import, ast.ImportFrom)):
            for al in n.names:
                blocked.add((al.asname or al.name).split('.')[0])
        elif isinstance(n, ast.ExceptHandler) and n.name:
            blocked.add(n.name)
        elif isinstance(n, (ast.MatchAs, ast.MatchStar)) and n.name:
            blocked.add(n.name)
        elif isinstance(n, ast.MatchMapping) and n.rest:
            blocked.add(n.rest)
        elif isinstance(n, ast.Name) and isinstance(n.ctx, (ast.Store, ast.Del)):
            if n.id not in order:
                order.append(n.id)
        for ch in ast.iter_child_nodes(n):
            visit(ch)
    visit(fn, top=True)
    return [x for x in order if x not in params and x not in blocked and not (x.startswith('__') and x.endswith('__'))]


class _Index(ast.NodeTransformer):
    def __init__(self, idx):
        self.idx = idx

    def visit_Name(self, node):
        if node.id in self.idx:
            return ast.Name(id=f'\x00L{self.idx[node.id]}', ctx=node.ctx)
        return node


def signature(fn):
    names = _locals_in_order(fn)
    idx = {n: i for i, n in enumerate(names)}
    import copy
    clone = ast.parse(ast.unparse(fn)).body[0]  # detach from parent links
    clone = _Index(idx).visit(clone)
    h = hashlib.sha1(ast.dump(clone, annotate_fields=False).encode()).hexdigest()[:16]
    return h, names


def functions(tree, prefix):
    """(qualified name, node) for module-level functions and methods (nested classes included)."""
    out = []

    def walk(body, pre):
        for n in body:
            if isinstance(n, (ast.FunctionDef, ast.AsyncFunctionDef)):
                out.append((f'{pre}.{n.name}', n))
            elif isinstance(n, ast.ClassDef):
                walk(n.body, f'{pre}.{n.name}')
    walk(tree.body, prefix)
    return out


def reference():
    global _REF
    if _REF is None:
        try:
            with open(REF_PATH) as f:
                _REF = json.load(f)
        except (OSError, ValueError):
            _REF = {}
    return _REF


def restore(tree, module_name) -> int:
    """Rename locals of alpha-equivalent functions back to the reference names; -> number of functions touched."""
    ref = reference()
    if not ref:
        return 0
    n = 0
    seen = {}
    for q, fn in functions(tree, module_name):
        k = seen.get(q, 0)
        seen[q] = k + 1
        key = q if k == 0 else f'{q}#{k}'
        r = ref.get(key)
        if r is None:
            continue
        names = _locals_in_order(fn)
        if names == r['n'] or len(names) != len(r['n']):
            continue  # the usual case: nothing was renamed (no hashing needed)
        h, names = signature(fn)
        if h != r['h']:
            continue
        mp = dict(zip(names, r['n']))
        # two-phase to survive permutations
        for x in ast.walk(fn):
            if isinstance(x, ast.Name) and x.id in mp:
                x.id = '\x00' + mp[x.id]
        for x in ast.walk(fn):
            if isinstance(x, ast.Name) and x.id.startswith('\x00'):
                x.id = x.id[1:]
        n += 1
    return n
