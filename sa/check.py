"""CLI: /venv/bin/python -m sa.check C03 [--tier quick|thorough] [--only RULE]"""
from __future__ import annotations

import argparse
import importlib
import json
import os
import sys
import time
import traceback

from . import core, report


class Ctx:
    def __init__(self, prop, tier, r):
        self.prop = prop
        self.tier = tier
        self.r = r
        self.p = core.program()
        self._wide = None

    @property
    def wide(self):
        """Program including apps/ (thorough tier, repository-wide rules)."""
        if self._wide is None:
            self._wide = core.program(('bumble', 'apps'))
        return self._wide


def run(prop: str, tier: str, only=None) -> int:
    t0 = time.time()
    rep = report.Reporter(prop, tier)
    try:
        ctx = Ctx(prop, tier, rep)
        if ctx.p.parse_errors:
            raise core.AnalysisError('source does not parse: ' + '; '.join(ctx.p.parse_errors))
        mod = importlib.import_module(f'sa.props.{prop.lower()}')
        for line in getattr(mod, 'EXPLANATION', []):
            rep.explain(line)
        for a in getattr(mod, 'ASSUMPTIONS', []):
            rep.assume(a)
        for rule_id, fn in mod.RULES:
            if only and not rule_id.startswith(only):
                continue
            fn(ctx)
        if tier == 'thorough' and not only:
            from . import selftest

            selftest.run_for(prop, rep)
        return report.finish(rep, t0, int(os.environ.get('VERIF_SEED', '0') or 0))
    except Exception as e:  # tool failure: never a silent pass, never a VIOLATION
        traceback.print_exc()
        print(f'ANALYSIS-ERROR property={prop} {type(e).__name__}: {e}')
        return 2


def explain(path: str) -> int:
    with open(path) as f:
        d = json.load(f)
    print(json.dumps(d, indent=1))
    return run(d['property'], 'quick', only=d['rule'])


def main(argv=None):
    ap = argparse.ArgumentParser()
    ap.add_argument('prop', nargs='?')
    ap.add_argument('--tier', default=os.environ.get('VERIF_TIER') or 'quick')
    ap.add_argument('--only')
    ap.add_argument('--explain')
    a = ap.parse_args(argv)
    if a.explain:
        return explain(a.explain)
    if a.prop == 'all':
        rc = 0
        for i in range(1, 21):
            rc = max(rc, run(f'C{i:02d}', a.tier))
        return rc
    return run(a.prop, a.tier, a.only)


if __name__ == '__main__':
    sys.exit(main())
