"""Small repository-wide rules (each with a positive control), instantiated per property for the modules it anchors."""
from __future__ import annotations

import ast

from .core import FUNC, call_attr, dotted, kwarg, norm, text, walk_local


def _control_parents(tree):
    for x in ast.walk(tree):
        for ch in ast.iter_child_nodes(x):
            ch._parent = x
    return tree


# ---------------------------------------------------------------------------------------------------------------------
def decorator_order(ctx, rule, modules):
    """A class that is both a dataclass and registered by a decorator (`@X.event`, `@ATT_PDU.subclass`, ...) must be made a
    dataclass *first*: decorators apply bottom-up, and the registration decorators build the codec's field table from the
    dataclass fields.  With the order swapped the class is registered with an empty field table."""
    R, p = ctx.r, ctx.p

    def wrong(node):
        decs = [text(d) for d in node.decorator_list]
        dc = [i for i, d in enumerate(decs) if 'dataclass' in d]
        reg = [i for i, d in enumerate(decs) if 'dataclass' not in d]
        return bool(dc and reg) and not all(r < dc[0] for r in reg)
    n = 0
    for q, ci in sorted(p.classes.items()):
        if not any(q.startswith(m + '.') for m in modules):
            continue
        decs = [text(d) for d in ci.node.decorator_list]
        if not (any('dataclass' in d for d in decs) and any('dataclass' not in d for d in decs)):
            continue
        n += 1
        if wrong(ci.node):
            R.bad(rule, q, f'decorators {decs}: the registration decorator runs before the class is a dataclass, so the class is registered with an empty field table (it serialises to nothing and cannot be parsed)', p.loc(ci.node))
    ctl = ast.parse('@dataclasses.dataclass\n@HCI_LE_Meta_Event.event\nclass X:\n    a: int\n').body[0]
    R.check(wrong(ctl) and n >= 1, rule, f'{", ".join(modules)} | registered dataclasses', f'{n} classes: the dataclass decorator is the innermost one everywhere (positive control matched)', f'control not matched or no registered dataclass found ({n})')


# ---------------------------------------------------------------------------------------------------------------------
BOUNDED_OK = {
    'bumble.rfcomm.DLC.__init__': 'receive buffer used only while no consumer is attached; it cannot overflow because the frames in it keep their credits (decided by C20.queued-frames-hold-credits: window <= queue size, rx_credits_needed counts them)',
}


def bounded_buffers(ctx, rule, modules, allowed=BOUNDED_OK):
    """A queue that carries packets must not lose them silently: `collections.deque(maxlen=N)` drops from the other end when
    full, `asyncio.Queue(maxsize)` makes put_nowait raise QueueFull (which a loop callback only logs)."""
    R, p = ctx.r, ctx.p

    def bounded(c):
        d = dotted(c.func) or ''
        if d.split('.')[-1] == 'deque' and (kwarg(c, 'maxlen') is not None or len(c.args) >= 2):
            m = kwarg(c, 'maxlen') if kwarg(c, 'maxlen') is not None else c.args[1]
            return not (isinstance(m, ast.Constant) and m.value is None)
        if d.split('.')[-1] in ('Queue', 'LifoQueue', 'PriorityQueue') and (c.args or kwarg(c, 'maxsize') is not None):
            m = kwarg(c, 'maxsize') if kwarg(c, 'maxsize') is not None else c.args[0]
            return not (isinstance(m, ast.Constant) and m.value in (0, None))
        return False
    n = 0
    for mn in modules:
        m = p.modules.get(mn)
        if m is None:
            R.bad(rule, mn, 'anchor missing')
            continue
        for c in ast.walk(m.tree):
            if isinstance(c, ast.Call) and (dotted(c.func) or '').split('.')[-1] in ('deque', 'Queue', 'LifoQueue', 'PriorityQueue'):
                n += 1
                q = p.qual_of(c)
                if bounded(c):
                    if q in allowed:
                        R.ok(rule, f'{q} | {norm(c)[:40]}', f'bounded by design: {allowed[q]}', f'{m.rel}:{c.lineno}')
                    else:
                        R.bad(rule, f'{q} | {norm(c)[:40]}', f'`{norm(c)[:60]}` is a bounded buffer on a packet path: when it is full an element is dropped without notice (deque) or put_nowait raises inside a callback that only logs it (Queue): packets are lost', f'{m.rel}:{c.lineno}')
    ctl = [ast.parse(s, mode='eval').body for s in ('collections.deque(maxlen=1024)', 'asyncio.Queue(256)', 'collections.deque()', 'asyncio.Queue()')]
    R.check([bounded(c) for c in ctl] == [True, True, False, False] and n >= 1, rule, f'{", ".join(modules)} | queues', f'{n} deque / Queue constructions, none bounded on a packet path (positive controls matched)', f'controls not matched or no queue found ({n})')


# ---------------------------------------------------------------------------------------------------------------------
def byte_order(ctx, rule, modules, order='little'):
    """All multi-byte fields of these protocols have one byte order (L2CAP, ATT, SMP, HCI: little endian).  Field metadata
    written as '>N' (or struct formats with '>' / '!') in such a module flips one field among many."""
    R, p = ctx.r, ctx.p
    wrong_prefix = ('>', '!') if order == 'little' else ('<',)

    def offenders(tree):
        out = []
        for c in ast.walk(tree):
            if isinstance(c, ast.Call) and (dotted(c.func) or '').split('.')[-1] in ('metadata', 'type_metadata', 'type_spec') and c.args:
                a = c.args[0]
                if isinstance(a, ast.Constant) and isinstance(a.value, str) and a.value.startswith(wrong_prefix):
                    out.append(c)
                if kwarg(c, 'byteorder') is not None and isinstance(kwarg(c, 'byteorder'), ast.Constant) and kwarg(c, 'byteorder').value == ('big' if order == 'little' else 'little'):
                    out.append(c)
            if isinstance(c, ast.Call) and (dotted(c.func) or '') in ('struct.pack', 'struct.unpack', 'struct.unpack_from', 'struct.pack_into') and c.args and isinstance(c.args[0], ast.Constant) and isinstance(c.args[0].value, str):
                f = c.args[0].value
                if f.startswith(wrong_prefix) and any(ch in f for ch in 'HhIiQqLl'):
                    out.append(c)
        return out
    n = 0
    for mn in modules:
        m = p.modules.get(mn)
        if m is None:
            R.bad(rule, mn, 'anchor missing')
            continue
        n += sum(1 for c in ast.walk(m.tree) if isinstance(c, ast.Call) and ((dotted(c.func) or '').split('.')[-1] in ('metadata',) or (dotted(c.func) or '').startswith('struct.')))
        for c in offenders(m.tree):
            R.bad(rule, f'{p.qual_of(c)} | {norm(c)[:50]}', f'`{norm(c)[:70]}` uses the other byte order in a {order}-endian protocol module: that one field is written (and read back by bumble itself) byte-swapped, so only a non-bumble peer sees the difference', f'{m.rel}:{c.lineno}')
    ctl = ast.parse("x = hci.metadata('>2')\ny = struct.pack('>H', 1)\nz = hci.metadata(2)\n")
    R.check(len(offenders(ctl)) == 2 and n >= 1, rule, f'{", ".join(modules)} | field codecs', f'{n} field / struct codecs, all {order}-endian (positive control matched)', f'control not matched or no codec found ({n})')


# ---------------------------------------------------------------------------------------------------------------------
def persistent_listeners(ctx, rule, sites):
    """Wiring done once for the life of an object subscribes with `.on(...)`: `.once(...)` removes the listener after its first
    call, so only the first disconnection (first link, first event) is ever handled.  sites: qualified function names."""
    R, p = ctx.r, ctx.p
    n = 0
    for q in sites:
        fn = p.find(q)
        if fn is None:
            R.bad(rule, q, 'anchor missing')
            continue
        subs = [c for c in ast.walk(fn) if isinstance(c, ast.Call) and isinstance(c.func, ast.Attribute) and c.func.attr in ('on', 'once', 'add_listener') and c.args]
        n += len(subs)
        once = [c for c in subs if c.func.attr == 'once']
        R.check(bool(subs) and not once, rule, q, f'{len(subs)} subscription(s), all with .on()', f'`{norm(once[0])[:70]}` subscribes with once(): the handler is removed after the first event, every later one (the second link that is lost, ...) is ignored' if once else 'no subscription found', p.loc(once[0]) if once else p.loc(fn))
    R.check(n >= 1, rule, 'wiring sites', f'{n} subscriptions in {len(sites)} wiring function(s)', 'no subscription found')


# ---------------------------------------------------------------------------------------------------------------------
def walrus_compare(ctx, rule, modules):
    """`(t := d.get(k)) is not None` binds the value; `(t := d.get(k) is not None)` binds the *result of the comparison*
    (a bool) because := has the lowest precedence: every stored value then reads back as True / False."""
    R, p = ctx.r, ctx.p

    def captured(tree):
        return [x for x in ast.walk(tree) if isinstance(x, ast.NamedExpr) and (isinstance(x.value, ast.Compare) or (isinstance(x.value, ast.UnaryOp) and isinstance(x.value.op, ast.Not)))]
    n = 0
    for mn in modules:
        m = p.modules.get(mn)
        if m is None:
            R.bad(rule, mn, 'anchor missing')
            continue
        n += sum(1 for x in ast.walk(m.tree) if isinstance(x, ast.NamedExpr))
        for x in captured(m.tree):
            R.bad(rule, f'{p.qual_of(x)} | {norm(x)[:60]}', f'`{norm(x)[:80]}` assigns the result of the comparison to `{x.target.id}`, not the compared value: what is used afterwards is True / False', f'{m.rel}:{x.lineno}')
    ctl = ast.parse("y = t if (t := d.get('a') is not None) else 0\nz = u if (u := d.get('a')) is not None else 0\n")
    R.check(len(captured(ctl)) == 1, rule, f'{", ".join(modules)} | assignment expressions', f'{n} assignment expressions, none captures a comparison result (positive control matched)', 'positive control not matched')


# ---------------------------------------------------------------------------------------------------------------------
def derived_index(ctx, rule, classes):
    """A table filled with objects taken out of another table of the same class is a derived index of it: every method
    that removes an entry from the source table must also remove it from the index, or a lookup through the index keeps
    returning an object whose entry is gone (a stale connection for a reused handle).

      for c in chain(self.le.values(), self.classic.values()):
          if c.handle == h: self.by_handle[h] = c        # by_handle is derived from le and classic
      ...
      del self.classic[addr]                             # must also drop the by_handle entry
    """
    R, p = ctx.r, ctx.p

    def self_table(e):
        """`self.T` behind .values()/.items()/.get()/[k]"""
        while True:
            if isinstance(e, ast.Attribute) and isinstance(e.value, ast.Name) and e.value.id == 'self':
                return e.attr
            if isinstance(e, ast.Subscript):
                e = e.value
            elif isinstance(e, ast.Call) and isinstance(e.func, ast.Attribute) and e.func.attr in ('values', 'items', 'get'):
                e = e.func.value
            else:
                return None

    def sources_of(fn, name):
        out = set()
        for n in ast.walk(fn):
            if isinstance(n, (ast.For, ast.AsyncFor, ast.comprehension)):
                tnames = {x.id for x in ast.walk(n.target) if isinstance(x, ast.Name)}
                if name in tnames:
                    its = [n.iter]
                    if isinstance(n.iter, ast.Call) and not self_table(n.iter):
                        its = list(n.iter.args)
                    for it in its:
                        t = self_table(it)
                        if t:
                            out.add(t)
            elif isinstance(n, ast.Assign) and any(isinstance(t, ast.Name) and t.id == name for t in n.targets):
                t = self_table(n.value) if isinstance(n.value, (ast.Call, ast.Subscript)) else None
                if t:
                    out.add(t)
            elif isinstance(n, ast.NamedExpr) and n.target.id == name:
                t = self_table(n.value) if isinstance(n.value, (ast.Call, ast.Subscript)) else None
                if t:
                    out.add(t)
        return out

    def removed(fn):
        out = set()
        for n in ast.walk(fn):
            if isinstance(n, ast.Delete):
                for t in n.targets:
                    if isinstance(t, ast.Subscript):
                        a = self_table(t.value)
                        if a:
                            out.add(a)
            elif isinstance(n, ast.Call) and isinstance(n.func, ast.Attribute) and n.func.attr in ('pop', 'clear', 'popitem'):
                a = self_table(n.func.value)
                if a and not isinstance(n.func.value, ast.Call):
                    out.add(a)
            elif isinstance(n, ast.Assign):
                for t in n.targets:
                    if isinstance(t, ast.Attribute) and isinstance(t.value, ast.Name) and t.value.id == 'self':
                        out.add(t.attr)
        return out

    def analyse(methods, qual):
        derived = {}
        for m in methods:
            for n in ast.walk(m):
                if isinstance(n, ast.Assign) and isinstance(n.value, ast.Name):
                    for t in n.targets:
                        if isinstance(t, ast.Subscript):
                            t2 = self_table(t.value)
                            if t2 and isinstance(t.value, ast.Attribute):
                                src = sources_of(m, n.value.id) - {t2}
                                if src:
                                    derived.setdefault(t2, set()).update(src)
        bad = []
        for t2, srcs in sorted(derived.items()):
            for m in methods:
                rm = removed(m)
                for t1 in sorted(srcs):
                    if t1 in rm and t2 not in rm and m.name != '__init__':
                        bad.append((t2, t1, m))
        return derived, bad

    n = 0
    for cq in classes:
        ci = p.cls(cq)
        if ci is None:
            R.bad(rule, cq, 'anchor missing')
            continue
        n += 1
        derived, bad = analyse(list(ci.methods.values()), cq)
        for t2, t1, m in bad:
            R.bad(rule, f'{cq}.{m.name} | {t2} <- {t1}', f'`self.{t2}` is filled with objects taken from `self.{t1}` (a derived index); {m.name} removes an entry from `self.{t1}` without removing it from `self.{t2}`, so lookups through `self.{t2}` keep returning the removed object', p.loc(m))
        R.check(not bad, rule, f'{cq} | derived indexes', f'{len(derived)} derived tables ({", ".join(sorted(derived)) or "none"}), each invalidated wherever its source loses an entry', 'see above', p.loc(ci.node))
    ct = ast.parse('class K:\n    def find(self, h):\n        for c in chain(self.a.values(), self.b.values()):\n            if c.h == h:\n                self.idx[h] = c\n                return c\n    def drop_a(self, k):\n        del self.a[k]\n        self.idx.pop(k, None)\n    def drop_b(self, k):\n        del self.b[k]\n')
    d, b = analyse([x for x in ast.walk(ct) if isinstance(x, FUNC)], 'K')
    R.check(d.get('idx') == {'a', 'b'} and [(x[0], x[1], x[2].name) for x in b] == [('idx', 'b', 'drop_b')], rule, 'positive control', 'a derived index not invalidated by one remover is reported, the invalidating remover is not', f'control failed: {d} {[(x[0], x[1], x[2].name) for x in b]}')


# ---------------------------------------------------------------------------------------------------------------------
def _re_charset(item):
    """code points (0..255) an atom can start with, or None when unknown (treated as 'anything')."""
    import re._constants as C
    op, av = item
    allc = set(range(256))

    def cat(c):
        name = str(c)
        base = {'CATEGORY_DIGIT': {i for i in allc if chr(i).isdigit()}, 'CATEGORY_SPACE': {i for i in allc if chr(i).isspace()},
                'CATEGORY_WORD': {i for i in allc if chr(i).isalnum() or chr(i) == '_'}}
        if name in base:
            return base[name]
        if name.startswith('CATEGORY_NOT_') and 'CATEGORY_' + name[13:] in base:
            return allc - base['CATEGORY_' + name[13:]]
        return allc
    if op is C.LITERAL:
        return {av} if av < 256 else set()
    if op is C.NOT_LITERAL:
        return allc - {av}
    if op is C.ANY:
        return allc
    if op is C.IN:
        out, neg = set(), False
        for o, a in av:
            if o is C.NEGATE:
                neg = True
            elif o is C.LITERAL:
                out.add(a)
            elif o is C.RANGE:
                out |= set(range(a[0], min(a[1], 255) + 1))
            elif o is C.CATEGORY:
                out |= cat(a)
        return allc - out if neg else out
    return None


def _re_items(seq):
    """flatten groups that are plain sequences"""
    import re._constants as C
    out = []
    for op, av in seq:
        if op is C.SUBPATTERN:
            out.extend(_re_items(av[3]))
        else:
            out.append((op, av))
    return out


def _re_nullable(item):
    import re._constants as C
    op, av = item
    if op in (C.MAX_REPEAT, C.MIN_REPEAT):
        return av[0] == 0 or all(_re_nullable(x) for x in _re_items(av[2]))
    if op is C.BRANCH:
        return any(all(_re_nullable(x) for x in _re_items(b)) for b in av[1])
    if op is C.AT:
        return True
    if op in (C.ASSERT, C.ASSERT_NOT):
        return True
    return False


def _re_first(item):
    import re._constants as C
    op, av = item
    if op in (C.MAX_REPEAT, C.MIN_REPEAT):
        return _re_first_seq(_re_items(av[2]))
    if op is C.BRANCH:
        out = set()
        for b in av[1]:
            f = _re_first_seq(_re_items(b))
            if f is None:
                return None
            out |= f
        return out
    return _re_charset(item)


def _re_first_seq(items):
    out = set()
    for it in items:
        f = _re_first(it)
        if f is None:
            return None
        out |= f
        if not _re_nullable(it):
            break
    return out


def regex_ambiguous_loops(pattern):
    """unbounded repeats whose body can be split between consecutive iterations in more than one way (`(?:[A-Z]+\\d*)+`):
    matching backtracks exponentially when the overall match fails."""
    import re._constants as C
    import re._parser as P
    found = []

    def unbounded(it):
        return it[0] in (C.MAX_REPEAT, C.MIN_REPEAT) and it[1][1] == C.MAXREPEAT

    def visit(seq):
        for op, av in seq:
            if op in (C.MAX_REPEAT, C.MIN_REPEAT):
                body = _re_items(av[2])
                if av[1] == C.MAXREPEAT:
                    heads = [i for i, it in enumerate(body) if unbounded(it) and all(_re_nullable(x) for x in body[:i])]
                    tails = [i for i, it in enumerate(body) if unbounded(it) and all(_re_nullable(x) for x in body[i + 1:])]
                    for i in tails:
                        for j in heads:
                            a, b = _re_first(body[i]), _re_first(body[j])
                            if a is None or b is None or (a & b):
                                found.append((i, j))
                visit(av[2])
            elif op is C.SUBPATTERN:
                visit(av[3])
            elif op is C.BRANCH:
                for b in av[1]:
                    visit(b)
            elif op in (C.ASSERT, C.ASSERT_NOT):
                visit(av[1])
    visit(P.parse(pattern))
    return found


def regex_backtracking(ctx, rule, modules, floor=1):
    """No regular expression applied to peer-supplied text has an unbounded repeat nested in an unbounded repeat such
    that the text can be split between iterations in several ways: a failing match then takes exponential time and the
    event loop is blocked."""
    R, p = ctx.r, ctx.p
    n = 0
    for mn in modules:
        m = p.modules.get(mn)
        if m is None:
            R.bad(rule, mn, 'anchor missing')
            continue
        for c in [x for x in ast.walk(m.tree) if isinstance(x, ast.Call)]:
            d = dotted(c.func) or ''
            if not (d.startswith('re.') and d.split('.')[-1] in ('compile', 'match', 'fullmatch', 'search', 'split', 'sub', 'findall', 'finditer')):
                continue
            if not c.args:
                continue
            a = c.args[0]
            if not (isinstance(a, ast.Constant) and isinstance(a.value, (str, bytes))):
                R.bad(rule, f'{mn} | {text(c)[:60]}', 'the pattern is not a literal: cannot be analysed', f'{m.rel}:{c.lineno}')
                continue
            n += 1
            try:
                amb = regex_ambiguous_loops(a.value)
            except Exception as e:     # noqa
                R.bad(rule, f'{mn} | {a.value!r:.60}', f'pattern does not parse: {e}', f'{m.rel}:{c.lineno}')
                continue
            R.check(not amb, rule, f'{mn} | pattern {a.value!r:.70}', 'no ambiguous nested repeat', 'an unbounded repeat contains an unbounded repeat and the text can be divided between iterations in several ways: a failing match backtracks exponentially (the peer controls the text), blocking the event loop', f'{m.rel}:{c.lineno}')
    ok = bool(regex_ambiguous_loops(r'AT\+(?P<code>(?:[A-Z]+\d*)+)(?P<p>.*)')) and not regex_ambiguous_loops(r'(?:[a-z]+,)*x') and not regex_ambiguous_loops(r'AT\+(?P<code>[A-Z]+)(?P<sub_code>=\?|=|\?)?(?P<parameters>.*)')
    R.check(ok and n >= floor, rule, f'{", ".join(modules)} | patterns', f'{n} literal patterns analysed (controls: ambiguous nested repeat matched, separated repeat and flat pattern not)', f'controls failed or only {n} patterns found')


# ---------------------------------------------------------------------------------------------------------------------
def identity_compare(ctx, rule, modules):
    """`is` / `is not` between numbers, byte strings or strings compares object identity: two equal transaction ids
    unpacked from different packets are different objects once they leave CPython's small-integer cache, so the test
    is right for the first 256 values and wrong afterwards."""
    R, p = ctx.r, ctx.p
    VALUE = {'int', 'bytes', 'str', 'float', 'bool'}
    ann = {}
    for mn, m in p.modules.items():
        if not mn.startswith('bumble.'):
            continue
        for n in ast.walk(m.tree):
            if isinstance(n, ast.AnnAssign):
                nm = n.target.attr if isinstance(n.target, ast.Attribute) else n.target.id if isinstance(n.target, ast.Name) else None
                if nm:
                    ann.setdefault(nm, set()).add(text(n.annotation).replace(' | None', '').replace('Optional[', '').rstrip(']'))

    def value_typed(e, fn):
        if isinstance(e, ast.Constant):
            return e.value not in (None, True, False, ...)
        if isinstance(e, (ast.BinOp, ast.JoinedStr)):
            return True
        if isinstance(e, ast.Attribute):
            a = ann.get(e.attr)
            return bool(a) and a <= VALUE
        if isinstance(e, ast.Name) and fn is not None:
            for arg in fn.args.args + fn.args.kwonlyargs:
                if arg.arg == e.id and arg.annotation is not None:
                    return text(arg.annotation).replace(' | None', '') in VALUE
        if isinstance(e, ast.Call) and (dotted(e.func) or '') in ('int', 'len', 'bytes', 'str'):
            return True
        return False

    def scan(tree, qual_of, rel):
        out, n = [], 0
        for n_ in ast.walk(tree):
            if not isinstance(n_, ast.Compare):
                continue
            ops = [n_.left] + n_.comparators
            for i, o in enumerate(n_.ops):
                if not isinstance(o, (ast.Is, ast.IsNot)):
                    continue
                a, b = ops[i], ops[i + 1]
                if any(isinstance(x, ast.Constant) and x.value in (None, True, False, ...) for x in (a, b)):
                    continue
                n += 1
                fn = n_
                while fn is not None and not isinstance(fn, FUNC):
                    fn = getattr(fn, '_parent', None)
                if value_typed(a, fn) or value_typed(b, fn):
                    out.append((n_, fn))
        return out, n
    tot = 0
    for mn in modules:
        m = p.modules.get(mn)
        if m is None:
            R.bad(rule, mn, 'anchor missing')
            continue
        bad, n = scan(m.tree, None, m.rel)
        tot += n
        for c, fn in bad:
            R.bad(rule, f'{p.qual_of(fn) if fn is not None else mn} | {norm(c)[:80]}', 'numbers / byte strings are compared by object identity: equal values held in different objects (any integer above 256 unpacked from a packet) compare as different', f'{m.rel}:{c.lineno}')
    ct = ast.parse('class P:\n    transaction_id: int\ndef f(a, b):\n    return a.transaction_id is not b.transaction_id\ndef g(ch, t):\n    return t.get(1) is ch\n')
    for x in ast.walk(ct):
        for ch in ast.iter_child_nodes(x):
            ch._parent = x
    ann.setdefault('transaction_id', set()).add('int')
    cb, cn = scan(ct, None, '')
    R.check(len(cb) == 1 and cn == 2, rule, f'{", ".join(modules)} | identity tests', f'{tot} identity tests on non-singletons, none on a number / byte string / string (positive control matched)', 'positive control not matched')


# ---------------------------------------------------------------------------------------------------------------------
def exception_payloads(ctx, rule, modules, floor=1):
    """`Future.set_exception(x)` raises TypeError unless x is an exception (class or instance): the future then stays
    pending and whoever awaits it waits forever.  Checked at direct calls and, for events one of whose listeners is a
    bound `set_exception`, at every emit of that event (the payload is handed to the listener unchanged)."""
    R, p = ctx.r, ctx.p

    def exc_class(name):
        last = (name or '').split('.')[-1]
        return last.endswith(('Error', 'Exception', 'Timeout', 'Cancelled')) or last in ('BaseException',)

    def kind(e, fn, depth=0):
        """'exc' | 'notexc' | '?'"""
        if isinstance(e, ast.Call):
            d = dotted(e.func) or ''
            if exc_class(d):
                return 'exc'
            if d in ('int', 'len', 'bytes', 'str'):
                return 'notexc'
            return '?'
        if isinstance(e, ast.Constant):
            return 'notexc'
        if isinstance(e, (ast.BinOp, ast.JoinedStr, ast.Compare, ast.Tuple, ast.List, ast.Dict)):
            return 'notexc'
        if isinstance(e, ast.Attribute):
            if exc_class(e.attr):
                return 'exc'
            return 'notexc' if e.attr in ('status', 'error_code', 'reason', 'handle') else '?'
        if isinstance(e, ast.Name) and fn is not None and depth < 3:
            if exc_class(e.id):
                return 'exc'
            kinds = set()
            f = fn
            while f is not None:
                if isinstance(f, (ast.FunctionDef, ast.AsyncFunctionDef, ast.Lambda)):
                    for n in (walk_local(f) if not isinstance(f, ast.Lambda) else ()):
                        if isinstance(n, ast.Assign) and any(isinstance(t, ast.Name) and t.id == e.id for t in n.targets):
                            kinds.add(kind(n.value, f, depth + 1))
                        elif isinstance(n, ast.ExceptHandler) and n.name == e.id:
                            kinds.add('exc')
                    args = f.args.args + f.args.kwonlyargs + f.args.posonlyargs
                    for a in args:
                        if a.arg == e.id:
                            an = text(a.annotation) if a.annotation is not None else ''
                            if an and exc_class(an):
                                kinds.add('exc')
                            elif an in ('int', 'bytes', 'str', 'float', 'bool') or an.startswith('hci.HCI_') and an.endswith('_Event'):
                                kinds.add('notexc')
                            else:
                                kinds.add('?')
                    if kinds:
                        break
                f = getattr(f, '_parent', None)
                while f is not None and not isinstance(f, (ast.FunctionDef, ast.AsyncFunctionDef, ast.Lambda)):
                    f = getattr(f, '_parent', None)
            if kinds == {'exc'}:
                return 'exc'
            if 'notexc' in kinds:
                return 'notexc'
            return '?'
        return '?'

    def enclosing(n):
        f = getattr(n, '_parent', None)
        while f is not None and not isinstance(f, (ast.FunctionDef, ast.AsyncFunctionDef, ast.Lambda)):
            f = getattr(f, '_parent', None)
        return f

    def evname(e):
        if isinstance(e, ast.Attribute):
            return e.attr
        if isinstance(e, ast.Constant) and isinstance(e.value, str):
            return 'EVENT_' + e.value.upper()
        return None

    def scan(trees):
        direct, listened, emits = [], {}, {}
        for rel, tree in trees:
            for c in [x for x in ast.walk(tree) if isinstance(x, ast.Call) and isinstance(x.func, ast.Attribute)]:
                if c.func.attr == 'set_exception' and len(c.args) == 1:
                    direct.append((rel, c))
                elif c.func.attr in ('on', 'once') and len(c.args) >= 2:
                    cb = c.args[-1]
                    if isinstance(cb, ast.Attribute) and cb.attr == 'set_exception':
                        ev = evname(c.args[-2])
                        if ev:
                            listened.setdefault(ev, []).append((rel, c))
                elif c.func.attr == 'emit' and c.args:
                    ev = evname(c.args[0])
                    if ev:
                        emits.setdefault(ev, []).append((rel, c))
        return direct, listened, emits

    trees = []
    for mn in modules:
        m = p.modules.get(mn)
        if m is None:
            R.bad(rule, mn, 'anchor missing')
            continue
        trees.append((m.rel, m.tree))
    direct, listened, emits = scan(trees)
    defs = {}
    for rel, tree in trees:
        for k_ in [x for x in ast.walk(tree) if isinstance(x, ast.ClassDef)]:
            for st in k_.body:
                tg = st.targets[0] if isinstance(st, ast.Assign) else st.target if isinstance(st, ast.AnnAssign) else None
                if isinstance(tg, ast.Name) and tg.id.startswith('EVENT_'):
                    defs.setdefault(tg.id, set()).add(k_.name)
    nd = 0
    for rel, c in direct:
        fn = enclosing(c)
        k = kind(c.args[0], fn)
        nd += 1
        if k == 'notexc':
            q = p.qual_of(fn) if isinstance(fn, FUNC) else rel
            R.bad(rule, f'{q} | {norm(c)[:70]}', 'set_exception is given a value that is not an exception (a status / number): it raises TypeError and the future is never completed, its awaiter waits forever', f'{rel}:{c.lineno}')
    ne = 0
    for ev, regs in sorted(listened.items()):
        sites = emits.get(ev, [])
        for rel, c in sites:
            fn = enclosing(c)
            if dotted(c.func.value) == 'self' and defs.get(ev):
                k_ = fn
                while k_ is not None and not isinstance(k_, ast.ClassDef):
                    k_ = getattr(k_, '_parent', None)
                if k_ is not None and k_.name not in defs[ev]:
                    continue    # another emitter's event of the same name (its listeners are registered on that object)
            ne += 1
            k = kind(c.args[1], fn) if len(c.args) >= 2 else 'notexc'
            q = p.qual_of(fn) if isinstance(fn, FUNC) else rel
            R.check(k == 'exc', rule, f'{q} | emit {ev}', 'the payload is an exception object, as the `set_exception` listeners of this event require', f'`{ev}` has `future.set_exception` registered directly as a listener ({regs[0][0]}:{regs[0][1].lineno}) but this emit does not pass an exception object: the listener raises TypeError inside emit() and the waiting operation is never completed', f'{rel}:{c.lineno}')
        R.check(bool(sites), rule, f'event {ev} | emitted', f'{len(sites)} emit sites of that name', f'`{ev}` has set_exception listeners but is never emitted: the waiters can only end by another route')
    ct = ast.parse('class D:\n    def wait(self, c, fut):\n        c.once(c.EVENT_X_FAILURE, fut.set_exception)\n    def fail(self, c, error_code: int):\n        c.emit(c.EVENT_X_FAILURE, error_code)\n    def fail2(self, c, error_code: int):\n        error = ConnectionError(error_code)\n        c.emit(c.EVENT_X_FAILURE, error)\n')
    for x in ast.walk(ct):
        for ch in ast.iter_child_nodes(x):
            ch._parent = x
    d_, l_, e_ = scan([('', ct)])
    ks = [kind(c.args[1], enclosing(c)) for _, c in e_.get('EVENT_X_FAILURE', [])]
    R.check(ks == ['notexc', 'exc'] and nd >= floor, rule, f'{", ".join(modules)} | set_exception', f'{nd} direct set_exception calls (none given a non-exception), {len(listened)} events with set_exception listeners, {ne} emit sites checked (positive control matched)', f'control {ks}, {nd} direct calls')


# ---------------------------------------------------------------------------------------------------------------------
def division_guard(ctx, rule, modules, floor=1):
    """A parser that divides by a count it has just read from the packet must handle the count 0 (which the matching
    serialiser produces for an empty list): the divisor is tested against zero on the way to the division."""
    R, p = ctx.r, ctx.p
    from .paths import flat_guards

    def parsed(fn, name):
        """is `name` assigned from the input (a subscript / len / unpack of something)?"""
        for n in walk_local(fn):
            if isinstance(n, ast.Assign) and any(isinstance(t, ast.Name) and t.id == name for t in n.targets):
                if any(isinstance(x, ast.Subscript) for x in ast.walk(n.value)) or any(isinstance(x, ast.Call) and (dotted(x.func) or '').split('.')[-1] in ('unpack', 'unpack_from', 'from_bytes') for x in ast.walk(n.value)):
                    return True
        return False

    def scan(tree):
        out = []
        for fn in [x for x in ast.walk(tree) if isinstance(x, FUNC)]:
            for n in walk_local(fn):
                if isinstance(n, ast.BinOp) and isinstance(n.op, (ast.FloorDiv, ast.Mod, ast.Div)) and isinstance(n.right, ast.Name) and not isinstance(n.left, (ast.Constant, ast.JoinedStr)):
                    d = n.right.id
                    if not parsed(fn, d):
                        continue
                    g = [(t, pol) for t, pol in flat_guards(n, stop=fn) if any(isinstance(x, ast.Name) and x.id == d for x in ast.walk(t))]
                    out.append((fn, n, d, bool(g)))
        return out
    n = 0
    for mn in modules:
        m = p.modules.get(mn)
        if m is None:
            R.bad(rule, mn, 'anchor missing')
            continue
        for fn, node, d, ok in scan(m.tree):
            n += 1
            R.check(ok, rule, f'{p.qual_of(fn)} | / {d}', f'`{d}` (read from the packet) is tested before it is used as a divisor', f'`{d}` is read from the packet and used as a divisor with no test on the way: a count of 0 (what the serialiser writes for an empty list) raises ZeroDivisionError, the unit does not parse back', f'{m.rel}:{node.lineno}')
    ct = ast.parse('def bad(p):\n    c = p[1]\n    return (len(p) - 2) // c\ndef good(p):\n    c = p[1]\n    if c == 0:\n        return []\n    return (len(p) - 2) // c\n')
    for x in ast.walk(ct):
        for ch in ast.iter_child_nodes(x):
            ch._parent = x
    cs = [(f.name, ok) for f, _, _, ok in scan(ct)]
    R.check(cs == [('bad', False), ('good', True)] and n >= floor, rule, f'{", ".join(modules)} | divisions by parsed values', f'{n} sites, all guarded (positive control matched)', f'control {cs}, {n} sites')


# ---------------------------------------------------------------------------------------------------------------------
def argument_agreement(ctx, rule, modules, names, floor=1):
    """Positional arguments along a chain of same-named functions (provider callbacks): a Name argument that is spelled
    like *another* parameter of the callee sits in the wrong position (`get_long_term_key(connection, ediv, rand)` against
    `def get_long_term_key(self, connection, rand, ediv)`).  Callees are all definitions of that name in `modules` that
    accept that many positional arguments."""
    R, p = ctx.r, ctx.p
    defs = {}
    for mn in modules:
        m = p.modules.get(mn)
        if m is None:
            R.bad(rule, mn, 'anchor missing')
            continue
        for fn in [x for x in ast.walk(m.tree) if isinstance(x, FUNC) and x.name in names]:
            defs.setdefault(fn.name, []).append((m, fn))
    n = 0
    for mn in modules:
        m = p.modules.get(mn)
        if m is None:
            continue
        for c in [x for x in ast.walk(m.tree) if isinstance(x, ast.Call) and isinstance(x.func, ast.Attribute) and x.func.attr in names]:
            for dm, fn in defs.get(c.func.attr, []):
                params = [a.arg for a in fn.args.args if a.arg not in ('self', 'cls')]
                if len(c.args) != len(params) or any(isinstance(a, ast.Starred) for a in c.args):
                    continue
                n += 1
                for i, a in enumerate(c.args):
                    if isinstance(a, ast.Name) and a.id in params and params[i] != a.id:
                        R.bad(rule, f'{p.qual_of(c)} | {c.func.attr}({", ".join(norm(x) for x in c.args)})', f'argument {i + 1} is `{a.id}` but {p.qual_of(fn)} takes `{params[i]}` there (and has a parameter called `{a.id}` elsewhere): the values arrive swapped', f'{m.rel}:{c.lineno}')
    R.check(n >= floor, rule, f'{", ".join(modules)} | calls of {sorted(names)}', f'{n} call/definition pairs, Name arguments sit at the position of the parameter they are named after', f'only {n} call sites found')


def callable_slot_types(ctx, rule, classes, floor=1):
    """A callback slot annotated `Callable[[T1, .., Tn], R]` is called with arguments whose declared types (fields of the
    event object passed in) are T1..Tn in that order."""
    R, p = ctx.r, ctx.p

    def slot_types(ann):
        for x in ast.walk(ann):
            if isinstance(x, ast.Subscript) and (dotted(x.value) or '').split('.')[-1] == 'Callable' and isinstance(x.slice, ast.Tuple) and x.slice.elts and isinstance(x.slice.elts[0], ast.List):
                return [text(t) for t in x.slice.elts[0].elts]
        return None

    def field_type(fn, e):
        """declared type of `param.field` when param is annotated with a known class"""
        if not (isinstance(e, ast.Attribute) and isinstance(e.value, ast.Name)):
            return None
        for a in fn.args.args:
            if a.arg == e.value.id and a.annotation is not None:
                cn = text(a.annotation).split('.')[-1]
                for q, ci in p.classes.items():
                    if ci.name == cn and e.attr in ci.annots:
                        return text(ci.annots[e.attr])
        return None
    n = 0
    for cq in classes:
        ci = p.cls(cq)
        if ci is None:
            R.bad(rule, cq, 'anchor missing')
            continue
        slots = {a: slot_types(an) for a, an in ci.annots.items()}
        slots = {a: t for a, t in slots.items() if t}
        for mname, fn in ci.methods.items():
            for c in calls_in_(fn):
                d = dotted(c.func) or ''
                if d.startswith('self.') and d[5:] in slots and len(c.args) == len(slots[d[5:]]):
                    for i, a in enumerate(c.args):
                        ft = field_type(fn, a)
                        if ft is None:
                            continue
                        n += 1
                        R.check(ft.split('.')[-1] == slots[d[5:]][i].split('.')[-1], rule, f'{cq}.{mname} | {d} arg {i + 1}', f'`{norm(a)}`: {ft}', f'argument {i + 1} of `{d}(...)` is `{norm(a)}` (declared {ft}) but the slot takes {slots[d[5:]][i]} there: the callback receives its arguments in the wrong order', p.loc(c))
    R.check(n >= floor, rule, f'{", ".join(classes)} | typed callback arguments', f'{n} arguments checked against their slot type', f'only {n} typed arguments found')


def calls_in_(fn):
    return [x for x in ast.walk(fn) if isinstance(x, ast.Call)]


# ---------------------------------------------------------------------------------------------------------------------
def to_bytes_width(ctx, rule, modules, floor=1):
    """`flag.value.to_bytes(N, ..)` raises OverflowError when the flag type has members above bit 8N-1: the value must be
    masked to the field (or N must cover the type)."""
    R, p = ctx.r, ctx.p

    def ev(e, depth=0):
        if isinstance(e, ast.Constant) and isinstance(e.value, int):
            return e.value
        if isinstance(e, ast.BinOp):
            a, b = ev(e.left, depth), ev(e.right, depth)
            if a is None or b is None:
                return None
            try:
                return {ast.LShift: lambda: a << b, ast.BitOr: lambda: a | b, ast.BitAnd: lambda: a & b, ast.Add: lambda: a + b, ast.Sub: lambda: a - b, ast.Mult: lambda: a * b}[type(e.op)]()
            except Exception:
                return None
        if isinstance(e, ast.Attribute) and isinstance(e.value, ast.Name) and depth < 3:
            for q, ci in p.classes.items():
                if ci.name == e.value.id and e.attr in ci.assigns:
                    return ev(ci.assigns[e.attr], depth + 1)
        return None

    def flag_max(cname):
        best = None
        for q, ci in p.classes.items():
            if ci.name == cname and any(b.split('.')[-1].endswith('Flag') for b in ci.bases):
                vals = [ev(v) for v in ci.assigns.values()]
                vals = [v for v in vals if isinstance(v, int)]
                if vals:
                    best = max(vals) if best is None else max(best, max(vals))
        return best

    def attr_class(mod, attr):
        for n in ast.walk(mod.tree):
            if isinstance(n, ast.AnnAssign):
                t = n.target
                nm = t.attr if isinstance(t, ast.Attribute) else t.id if isinstance(t, ast.Name) else None
                if nm == attr:
                    return text(n.annotation).split('.')[-1].split(' ')[0]
        return None

    def scan(mod_tree, classify):
        out = []
        for c in ast.walk(mod_tree):
            # a computed width (pages * 8): the flag must be cut to that width before the conversion
            if isinstance(c, ast.Call) and isinstance(c.func, ast.Attribute) and c.func.attr == 'to_bytes' and c.args and not isinstance(c.args[0], ast.Constant):
                recv = c.func.value
                bare = recv.value if isinstance(recv, ast.Attribute) and recv.attr == 'value' else recv
                if isinstance(bare, ast.Attribute) and dotted(bare.value) == 'self' and classify(bare.attr) is not None:
                    out.append((c, bare.attr, 0, classify(bare.attr), False))
                elif isinstance(recv, ast.BinOp) and isinstance(recv.op, ast.BitAnd):
                    for side in (recv.left, recv.right):
                        b2 = side.value if isinstance(side, ast.Attribute) and side.attr == 'value' else side
                        if isinstance(b2, ast.Attribute) and dotted(b2.value) == 'self' and classify(b2.attr) is not None:
                            out.append((c, b2.attr, 0, classify(b2.attr), True))
                continue
            if isinstance(c, ast.Call) and isinstance(c.func, ast.Attribute) and c.func.attr == 'to_bytes' and c.args and isinstance(c.args[0], ast.Constant) and isinstance(c.args[0].value, int):
                width = c.args[0].value
                recv = c.func.value
                masked = None
                if isinstance(recv, ast.BinOp) and isinstance(recv.op, ast.BitAnd):
                    for side, other in ((recv.left, recv.right), (recv.right, recv.left)):
                        mv = ev(other)
                        if isinstance(mv, int):
                            masked, recv = mv, side
                            break
                if isinstance(recv, ast.Attribute) and recv.attr == 'value' and isinstance(recv.value, ast.Attribute):
                    mx = classify(recv.value.attr)
                    if mx is None:
                        continue
                    ok = mx.bit_length() <= 8 * width or (masked is not None and masked.bit_length() <= 8 * width)
                    out.append((c, recv.value.attr, width, mx, ok))
        return out
    n = 0
    for mn in modules:
        m = p.modules.get(mn)
        if m is None:
            R.bad(rule, mn, 'anchor missing')
            continue

        def classify(attr, m=m):
            cn = attr_class(m, attr)
            return flag_max(cn) if cn else None
        for c, attr, width, mx, ok in scan(m.tree, classify):
            n += 1
            R.check(ok, rule, f'{p.qual_of(c)} | {attr}.value.to_bytes({width or "computed"})', f'fits: the flag type goes up to bit {mx.bit_length() - 1} and the value is masked / the field is wide enough', f'`{attr}` is a flag type with members up to bit {mx.bit_length() - 1} but is written with to_bytes({width or "a computed width"}) unmasked: with such a feature configured the handler raises OverflowError and the command / procedure is never concluded', f'{m.rel}:{c.lineno}')
    ct = ast.parse('a = self.f.value.to_bytes(8, "little")\nb = (self.f.value & 0xFFFFFFFFFFFFFFFF).to_bytes(8, "little")\n')
    cs = [ok for *_, ok in scan(ct, lambda a: 1 << 70)]
    R.check(cs == [False, True] and n >= floor, rule, f'{", ".join(modules)} | flag values written with a fixed width', f'{n} sites fit their field (positive control matched)', f'control {cs}, {n} sites')


# ---------------------------------------------------------------------------------------------------------------------
ONE_SHOT = {'filter', 'map', 'zip', 'reversed', 'enumerate'}


def one_shot_iterators(ctx, rule, modules, floor=0):
    """A generator expression or the result of filter() / map() / zip() can be walked once.  A name bound to one and then
    read in more than one consuming position, or inside a loop or comprehension that evaluates it repeatedly (`x in it`
    per iteration), silently sees an empty (or partly consumed) iterator the second time."""
    R, p = ctx.r, ctx.p

    def scan(tree):
        out, n = [], 0
        for fn in [x for x in ast.walk(tree) if isinstance(x, FUNC)]:
            binds = {}
            for st in walk_local(fn):
                if isinstance(st, ast.Assign) and len(st.targets) == 1 and isinstance(st.targets[0], ast.Name):
                    v = st.value
                    if isinstance(v, ast.GeneratorExp) or (isinstance(v, ast.Call) and (dotted(v.func) or '') in ONE_SHOT):
                        binds.setdefault(st.targets[0].id, []).append(st)
            for name, sts in binds.items():
                others = [s for s in walk_local(fn) if isinstance(s, (ast.Assign, ast.AugAssign)) and s not in sts and any(isinstance(t, ast.Name) and t.id == name for t in (s.targets if isinstance(s, ast.Assign) else [s.target]))]
                if len(sts) != 1 or others:
                    continue
                n += 1
                uses = [x for x in ast.walk(fn) if isinstance(x, ast.Name) and x.id == name and isinstance(x.ctx, ast.Load) and x.lineno >= sts[0].lineno]
                repeated = []
                for u in uses:
                    a, prev = getattr(u, '_parent', None), u
                    while a is not None and a is not fn:
                        if isinstance(a, (ast.For, ast.AsyncFor, ast.While)) and prev is not getattr(a, 'iter', None) and a.lineno >= sts[0].lineno:
                            repeated.append(u)
                            break
                        if isinstance(a, ast.comprehension) and prev is not a.iter:
                            repeated.append(u)
                            break
                        if isinstance(a, (ast.ListComp, ast.SetComp, ast.GeneratorExp, ast.DictComp)) and prev in ([getattr(a, 'elt', None), getattr(a, 'key', None), getattr(a, 'value', None)]):
                            repeated.append(u)
                            break
                        if isinstance(a, ast.comprehension):
                            pass
                        prev, a = a, getattr(a, '_parent', None)
                if len(uses) > 1 or repeated:
                    out.append((fn, sts[0], name, len(uses), bool(repeated)))
        return out, n
    tot = 0
    for mn in modules:
        m = p.modules.get(mn)
        if m is None:
            R.bad(rule, mn, 'anchor missing')
            continue
        bad, n = scan(m.tree)
        tot += n
        for fn, st, name, k, rep in bad:
            R.bad(rule, f'{p.qual_of(fn)} | {name} = {norm(st.value)[:50]}', f'`{name}` is a one-shot iterator ({norm(st.value)[:40]}) read {"inside a loop" if rep else str(k) + " times"}: after the first walk it is empty, later readers see nothing', f'{m.rel}:{st.lineno}')
    ct = ast.parse('def a(t):\n    used = filter(lambda c: c > 3, t)\n    for c in range(9):\n        if c not in used:\n            return c\ndef b(m, log):\n    e = ((k, v) for k, v in m.items())\n    if log:\n        print([k for k, _ in e])\n    return list(e)\ndef c(m):\n    e = (k for k in m)\n    return list(e)\n')
    for x in ast.walk(ct):
        for ch in ast.iter_child_nodes(x):
            ch._parent = x
    cb, cn = scan(ct)
    R.check(sorted(f.name for f, *_ in cb) == ['a', 'b'] and cn == 3 and tot >= floor, rule, f'{", ".join(modules[:6])}{"..." if len(modules) > 6 else ""} | one-shot iterators', f'{tot} names bound to a generator / filter / map / zip, each walked once (positive controls matched)', f'control {[f.name for f, *_ in cb]}')


def bytes_of_number(ctx, rule, modules, floor=0):
    """`bytes(n)` with a number makes n zero bytes (`bytes(True)` is one zero byte): a flag or count meant to become one
    byte has to be written `bytes([n])`."""
    R, p = ctx.r, ctx.p
    NUM = {'bool', 'int'}
    ann = {}
    for mn, m in p.modules.items():
        if not mn.startswith('bumble.'):
            continue
        for n in ast.walk(m.tree):
            if isinstance(n, ast.AnnAssign):
                nm = n.target.attr if isinstance(n.target, ast.Attribute) else n.target.id if isinstance(n.target, ast.Name) else None
                if nm:
                    ann.setdefault(nm, set()).add(text(n.annotation).replace(' | None', ''))

    def numeric(e, fn):
        if isinstance(e, ast.Constant):
            return isinstance(e.value, bool)
        if isinstance(e, ast.Attribute):
            a = ann.get(e.attr)
            return bool(a) and a <= NUM and 'bool' in a
        if isinstance(e, (ast.Compare, ast.BoolOp)) or (isinstance(e, ast.UnaryOp) and isinstance(e.op, ast.Not)):
            return True
        if isinstance(e, ast.Name) and fn is not None:
            for a in fn.args.args + fn.args.kwonlyargs:
                if a.arg == e.id and a.annotation is not None:
                    return text(a.annotation) == 'bool'
        return False

    def scan(tree):
        out, n = [], 0
        for c in [x for x in ast.walk(tree) if isinstance(x, ast.Call) and dotted(x.func) == 'bytes' and len(x.args) == 1 and not x.keywords]:
            n += 1
            fn = c
            while fn is not None and not isinstance(fn, FUNC):
                fn = getattr(fn, '_parent', None)
            if numeric(c.args[0], fn):
                out.append((c, fn))
        return out, n
    tot = 0
    for mn in modules:
        m = p.modules.get(mn)
        if m is None:
            R.bad(rule, mn, 'anchor missing')
            continue
        bad, n = scan(m.tree)
        tot += n
        for c, fn in bad:
            R.bad(rule, f'{p.qual_of(fn) if fn is not None else mn} | {norm(c)}', f'`{norm(c)}` is applied to a flag: it yields that many zero bytes (b"\\x00" for True, b"" for False), not the byte holding the flag', f'{m.rel}:{c.lineno}')
    ann.setdefault('flag_enabled', set()).add('bool')
    ct = ast.parse('def f(self):\n    return bytes(self.flag_enabled)\ndef g(self):\n    return bytes([1 if self.flag_enabled else 0])\n')
    for x in ast.walk(ct):
        for ch in ast.iter_child_nodes(x):
            ch._parent = x
    cb, cn = scan(ct)
    R.check([f.name for _, f in cb] == ['f'] and tot >= floor, rule, f'{", ".join(modules[:6])}{"..." if len(modules) > 6 else ""} | bytes(x)', f'{tot} single-argument bytes() calls, none applied to a flag (positive control matched)', 'positive control not matched')


def unordered_pairing(ctx, rule, modules, floor=0):
    """`zip(xs, S)` / `enumerate(S)` / indexing pair positions with a set: a set has no order, so the i-th element of the
    list is paired with an arbitrary element (it looks right for small consecutive integers, whose hash order is ascending)."""
    R, p = ctx.r, ctx.p

    def is_set(e, fn):
        if isinstance(e, (ast.Set, ast.SetComp)):
            return True
        if isinstance(e, ast.Call) and dotted(e.func) in ('set', 'frozenset'):
            return True
        if isinstance(e, ast.Name) and fn is not None:
            defs = [s.value for s in walk_local(fn) if isinstance(s, ast.Assign) and any(isinstance(t, ast.Name) and t.id == e.id for t in s.targets)]
            return bool(defs) and all(is_set(d, None) for d in defs)
        return False

    def scan(tree):
        out, n = [], 0
        for c in [x for x in ast.walk(tree) if isinstance(x, ast.Call) and dotted(x.func) in ('zip', 'enumerate')]:
            n += 1
            fn = c
            while fn is not None and not isinstance(fn, FUNC):
                fn = getattr(fn, '_parent', None)
            if any(is_set(a, fn) for a in c.args):
                out.append((c, fn))
        return out, n
    tot = 0
    for mn in modules:
        m = p.modules.get(mn)
        if m is None:
            R.bad(rule, mn, 'anchor missing')
            continue
        bad, n = scan(m.tree)
        tot += n
        for c, fn in bad:
            R.bad(rule, f'{p.qual_of(fn) if fn is not None else mn} | {norm(c)[:60]}', f'`{norm(c)[:70]}` pairs positions with a set: the order of a set is arbitrary, so items are matched with the wrong partner as soon as the values are not small consecutive integers', f'{m.rel}:{c.lineno}')
    ct = ast.parse('def f(chs, rsp):\n    ok = {c for c in rsp if c}\n    for a, b in zip(chs, ok):\n        a.go(b)\ndef g(chs, rsp):\n    for a, b in zip(chs, rsp):\n        a.go(b)\n')
    for x in ast.walk(ct):
        for ch in ast.iter_child_nodes(x):
            ch._parent = x
    cb, cn = scan(ct)
    R.check([f.name for _, f in cb] == ['f'] and tot >= floor, rule, f'{", ".join(modules[:6])}{"..." if len(modules) > 6 else ""} | zip / enumerate', f'{tot} positional pairings, none over a set (positive control matched)', 'positive control not matched')


def fifo_discipline(ctx, rule, modules, floor=0):
    """A deque used as a queue is filled at one end and emptied at the other: `append` with `pop()` (or `appendleft` with
    `popleft()`) takes the newest entry first and reverses the order of what was queued."""
    R, p = ctx.r, ctx.p

    def scan(tree):
        deques = set()
        for n in ast.walk(tree):
            tgt = val = None
            if isinstance(n, ast.Assign) and len(n.targets) == 1:
                tgt, val = n.targets[0], n.value
            elif isinstance(n, ast.AnnAssign):
                tgt, val = n.target, n.value
                if 'deque' in text(n.annotation) and isinstance(tgt, (ast.Attribute, ast.Name)):
                    deques.add(tgt.attr if isinstance(tgt, ast.Attribute) else tgt.id)
            if isinstance(val, ast.Call) and (dotted(val.func) or '').split('.')[-1] == 'deque' and isinstance(tgt, (ast.Attribute, ast.Name)):
                deques.add(tgt.attr if isinstance(tgt, ast.Attribute) else tgt.id)
        ops = {}
        for c in [x for x in ast.walk(tree) if isinstance(x, ast.Call) and isinstance(x.func, ast.Attribute)]:
            recv = c.func.value
            nm = recv.attr if isinstance(recv, ast.Attribute) else recv.id if isinstance(recv, ast.Name) else None
            if nm in deques and c.func.attr in ('append', 'appendleft', 'pop', 'popleft', 'extend', 'extendleft') and not (c.func.attr == 'pop' and c.args):
                ops.setdefault(nm, {}).setdefault(c.func.attr, []).append(c)
        out = []
        for nm, o in ops.items():
            if ('append' in o or 'extend' in o) and 'pop' in o and 'appendleft' not in o:
                out += [(nm, c) for c in o['pop']]
            if 'appendleft' in o and 'popleft' in o and 'append' not in o and 'extend' not in o:
                out += [(nm, c) for c in o['popleft']]
        return out, len(deques)
    tot = 0
    for mn in modules:
        m = p.modules.get(mn)
        if m is None:
            R.bad(rule, mn, 'anchor missing')
            continue
        bad, n = scan(m.tree)
        tot += n
        for nm, c in bad:
            R.bad(rule, f'{p.qual_of(c)} | {nm}.{c.func.attr}()', f'the deque `{nm}` is filled and emptied at the same end ({c.func.attr}): entries come out newest first, the order of what was queued is reversed', f'{m.rel}:{c.lineno}')
    ct = ast.parse('import collections\nclass A:\n    def __init__(self):\n        self.q = collections.deque()\n        self.r = collections.deque()\n    def put(self, x):\n        self.q.append(x)\n        self.r.append(x)\n    def get(self):\n        return self.q.pop(), self.r.popleft()\n')
    cb, cn = scan(ct)
    R.check([nm for nm, _ in cb] == ['q'] and tot >= floor, rule, f'{", ".join(modules[:6])}{"..." if len(modules) > 6 else ""} | deques', f'{tot} deques, each emptied at the end opposite to where it is filled (positive control matched)', 'positive control not matched')


def enum_member_agreement(ctx, rule, classes, floor=0):
    """A set / dict attribute that is filled with members of one enum and tested or emptied with members of another never
    matches (HfFeature.X and AgFeature.X are different keys even when spelled alike)."""
    R, p = ctx.r, ctx.p

    def enums_in(e):
        return {x.value.id for x in ast.walk(e) if isinstance(x, ast.Attribute) and isinstance(x.value, ast.Name) and x.attr.isupper() and x.value.id[:1].isupper()}

    def scan(methods):
        put, take = {}, {}
        for fn in methods:
            for n in walk_local(fn):
                if isinstance(n, ast.Assign) and len(n.targets) == 1 and isinstance(n.targets[0], ast.Attribute) and dotted(n.targets[0].value) == 'self':
                    put.setdefault(n.targets[0].attr, set()).update(enums_in(n.value))
                if isinstance(n, ast.Call) and isinstance(n.func, ast.Attribute) and isinstance(n.func.value, ast.Attribute) and dotted(n.func.value.value) == 'self' and n.args:
                    a = n.func.value.attr
                    if n.func.attr in ('add', 'append', 'update', 'setdefault'):
                        put.setdefault(a, set()).update(enums_in(n.args[0]))
                    elif n.func.attr in ('discard', 'remove', 'pop', 'get', '__contains__'):
                        for e in enums_in(n.args[0]):
                            take.setdefault(a, []).append((e, n, fn))
                if isinstance(n, ast.Compare) and len(n.ops) == 1 and isinstance(n.ops[0], (ast.In, ast.NotIn)) and isinstance(n.comparators[0], ast.Attribute) and dotted(n.comparators[0].value) == 'self':
                    for e in enums_in(n.left):
                        take.setdefault(n.comparators[0].attr, []).append((e, n, fn))
        out = []
        for a, uses in take.items():
            if put.get(a):
                out += [(a, e, n, fn) for e, n, fn in uses if e not in put[a]]
        return out, sum(1 for a in take if put.get(a))
    tot = 0
    for cq in classes:
        ci = p.cls(cq)
        if ci is None:
            R.bad(rule, cq, 'anchor missing')
            continue
        bad, n = scan(list(ci.methods.values()))
        tot += n
        for a, e, node, fn in bad:
            R.bad(rule, f'{cq}.{fn.name} | self.{a} / {e}', f'`self.{a}` is filled with members of other enum types but is tested / emptied here with a member of `{e}`: the key never matches, the entry stays for ever', p.loc(node))
    ct = ast.parse('class P:\n    def a(self):\n        self.todo = {f for f in (Hf.X, Hf.Y)}\n    def b(self):\n        self.todo.discard(Ag.X)\n    def c(self):\n        self.todo.discard(Hf.Y)\n')
    for x in ast.walk(ct):
        for ch in ast.iter_child_nodes(x):
            ch._parent = x
    cb, cn = scan([x for x in ast.walk(ct) if isinstance(x, FUNC)])
    R.check([(a, e) for a, e, *_ in cb] == [('todo', 'Ag')] and tot >= floor, rule, f'{", ".join(classes)} | enum-keyed containers', f'{tot} containers tested with members of the enum they are filled with (positive control matched)', f'control {[(a, e) for a, e, *_ in cb]}')


# ---------------------------------------------------------------------------------------------------------------------
IDENT_ATTRS = {'op_code', 'event_code', 'subevent_code', 'opcode', 'signal_identifier', 'code', 'pdu_id', 'command_code', 'name', 'hci_packet_type'}


def _class_table(p, modules):
    """{class name: (module, ClassDef)} for top-level and nested classes of the modules."""
    out = {}
    for mn in modules:
        m = p.modules.get(mn)
        if m is None:
            continue
        for c in [x for x in ast.walk(m.tree) if isinstance(x, ast.ClassDef)]:
            out.setdefault(c.name, (m, c))
    return out


def _registering(c):
    """decorators that register the class in a family table: `Family.something` (an attribute of a class name)."""
    return [d for d in c.decorator_list if isinstance(d if not isinstance(d, ast.Call) else d.func, ast.Attribute) and (dotted(d if not isinstance(d, ast.Call) else d.func) or '').split('.')[0][:1].isupper()]


def registered_class_identity(ctx, rule, modules, floor=1):
    """Registering decorators derive a packet class's code and name when the class does not have them yet (`hasattr`).  A
    registered class that inherits from another registered class already *has* them -- its parent's -- so it is registered
    under the parent's code, replaces the parent in the table and is serialised with the wrong code, unless it states its own."""
    R, p = ctx.r, ctx.p
    table = _class_table(p, modules)
    n = 0
    for name, (m, c) in sorted(table.items()):
        if not _registering(c):
            continue
        n += 1
        for b in c.bases:
            bn = (dotted(b) or '').split('.')[-1]
            if bn in table and _registering(table[bn][1]):
                own = {t.id for s in c.body for t in ((s.targets if isinstance(s, ast.Assign) else [s.target] if isinstance(s, ast.AnnAssign) else [])) if isinstance(t, ast.Name)}
                R.check(bool(own & IDENT_ATTRS), rule, f'{m.name}.{name} | derives from registered {bn}', f'states its own {sorted(own & IDENT_ATTRS)}',
                        f'{name} is registered by a decorator and inherits from {bn}, which is registered too, without stating its own code: the decorator finds the inherited code / name (hasattr) and registers {name} in place of {bn}', f'{m.rel}:{c.lineno}')
    R.check(n >= floor, rule, f'{", ".join(modules)} | registered classes', f'{n} classes registered by a decorator, none silently inheriting the identity of another registered class', f'only {n} registered classes found')


def match_arm_shadowing(ctx, rule, modules, floor=0):
    """`match x: case A(): ... case B(): ...` tests isinstance in order: when B is a subclass of A the B arm can never
    run (a 'not accepted' packet made a subclass of 'accepted' is handled as accepted)."""
    R, p = ctx.r, ctx.p
    table = _class_table(p, [mn for mn in p.modules if mn.startswith('bumble.')])

    def ancestors(name, seen=()):
        out = set()
        if name in table and name not in seen:
            for b in table[name][1].bases:
                bn = (dotted(b) or '').split('.')[-1]
                out.add(bn)
                out |= ancestors(bn, seen + (name,))
        return out

    def classes_of(pat):
        if isinstance(pat, ast.MatchClass):
            return [(dotted(pat.cls) or '').split('.')[-1]] if not pat.patterns and not pat.kwd_patterns else []
        if isinstance(pat, ast.MatchOr):
            return [c for q in pat.patterns for c in classes_of(q)]
        if isinstance(pat, ast.MatchAs) and pat.pattern is not None:
            return classes_of(pat.pattern)
        return []
    n = 0
    for mn in modules:
        m = p.modules.get(mn)
        if m is None:
            R.bad(rule, mn, 'anchor missing')
            continue
        for ms in [x for x in ast.walk(m.tree) if isinstance(x, ast.Match)]:
            n += 1
            seen = []
            for case in ms.cases:
                if case.guard is None:
                    for cn in classes_of(case.pattern):
                        hit = [a for a in seen if a in ancestors(cn)]
                        if hit:
                            R.bad(rule, f'{p.qual_of(ms)} | case {cn}()', f'`case {cn}()` comes after `case {hit[0]}()` and {cn} is a subclass of {hit[0]}: the earlier arm takes every {cn}, this arm never runs', f'{m.rel}:{case.pattern.lineno}')
                    seen += classes_of(case.pattern)
    R.check(n >= floor, rule, f'{", ".join(modules)} | match statements', f'{n} match statements, no class arm shadowed by an earlier arm for one of its base classes', f'{n} match statements found')


def wire_fields_init(ctx, rule, modules, floor=1):
    """A dataclass field that carries wire metadata is a constructor argument: parsers build the object with
    `cls(**parsed_fields)` and serialisers read the instance `__dict__`; `init=False` breaks both."""
    R, p = ctx.r, ctx.p
    n = 0
    for mn in modules:
        m = p.modules.get(mn)
        if m is None:
            R.bad(rule, mn, 'anchor missing')
            continue
        for c in [x for x in ast.walk(m.tree) if isinstance(x, ast.Call) and (dotted(x.func) or '').split('.')[-1] == 'field' and kwarg(x, 'metadata') is not None]:
            n += 1
            i = kwarg(c, 'init')
            if isinstance(i, ast.Constant) and i.value is False:
                R.bad(rule, f'{p.qual_of(c)} | {norm(getattr(c, "_parent", c))[:60]}', 'a field with wire metadata is declared init=False: parsing raises TypeError (unexpected keyword) and serialising raises KeyError (not in the instance dict)', f'{m.rel}:{c.lineno}')
    R.check(n >= floor, rule, f'{", ".join(modules)} | wire fields', f'{n} dataclass fields with wire metadata, all constructor arguments', f'only {n} found')


def dead_default_check(ctx, rule, modules, floor=0):
    """`x = self.table[key]` on a defaultdict never fails and never yields None: a following `if x is None` / `if not x`
    "no such entry" test is dead, and the lookup has just created the entry (a waiter then waits on an event nobody sets)."""
    R, p = ctx.r, ctx.p

    def scan(tree):
        dd = set()
        for n in ast.walk(tree):
            tgt = val = None
            if isinstance(n, ast.Assign) and len(n.targets) == 1:
                tgt, val = n.targets[0], n.value
            elif isinstance(n, ast.AnnAssign):
                tgt, val = n.target, n.value
            if isinstance(val, ast.Call) and (dotted(val.func) or '').split('.')[-1] == 'defaultdict' and isinstance(tgt, ast.Attribute):
                dd.add(tgt.attr)
        out = []
        for fn in [x for x in ast.walk(tree) if isinstance(x, FUNC)]:
            for st in walk_local(fn):
                if isinstance(st, ast.Assign) and len(st.targets) == 1 and isinstance(st.targets[0], ast.Name) and isinstance(st.value, ast.Subscript) and isinstance(st.value.value, ast.Attribute) and st.value.value.attr in dd:
                    nm = st.targets[0].id
                    for t in [x for x in walk_local(fn) if isinstance(x, (ast.If, ast.IfExp, ast.Assert)) and x.lineno >= st.lineno]:
                        tt = norm(t.test)
                        if tt in (f'{nm} is None', f'not {nm}', f'{nm} is not None', nm):
                            out.append((fn, st, nm))
                            break
            for ne in [x for x in walk_local(fn) if isinstance(x, ast.NamedExpr) and isinstance(x.value, ast.Subscript) and isinstance(x.value.value, ast.Attribute) and x.value.value.attr in dd]:
                par = getattr(ne, '_parent', None)
                truth = (isinstance(par, ast.UnaryOp) and isinstance(par.op, ast.Not)) or (isinstance(par, (ast.If, ast.While, ast.IfExp)) and par.test is ne) or (isinstance(par, ast.Compare) and any(isinstance(c_, ast.Constant) and c_.value is None for c_ in par.comparators))
                if truth:
                    out.append((fn, ne, ne.target.id))
        return out, len(dd)
    tot = 0
    for mn in modules:
        m = p.modules.get(mn)
        if m is None:
            R.bad(rule, mn, 'anchor missing')
            continue
        bad, n = scan(m.tree)
        tot += n
        for fn, st, nm in bad:
            R.bad(rule, f'{p.qual_of(fn)} | {norm(st)[:60]}', f'`{norm(st)[:60]}` indexes a defaultdict (the entry is created, the result is never None) and `{nm}` is then tested for absence: the test is dead, an unknown key silently gets a fresh entry', f'{m.rel}:{st.lineno}')
    ct = ast.parse('import collections\nclass Q:\n    def __init__(self):\n        self.st = collections.defaultdict(S)\n    async def drain(self, h):\n        s = self.st[h]\n        if s is None:\n            raise ValueError\n        await s.ev.wait()\n    async def ok(self, h):\n        if not (s := self.st.get(h)):\n            raise ValueError\n')
    cb, cn = scan(ct)
    R.check([f.name for f, *_ in cb] == ['drain'] and tot >= floor, rule, f'{", ".join(modules)} | defaultdict lookups', f'{tot} defaultdict tables, no lookup by index followed by an absence test (positive control matched)', 'positive control not matched')


def except_name_escape(ctx, rule, modules, floor=0):
    """`except E as name:` unbinds `name` when the handler ends.  Reading it afterwards raises UnboundLocalError exactly on
    the path where the exception happened (an earlier `name = None` does not help)."""
    R, p = ctx.r, ctx.p

    def scan(tree):
        out, n = [], 0
        for fn in [x for x in ast.walk(tree) if isinstance(x, FUNC)]:
            for h in [x for x in walk_local(fn) if isinstance(x, ast.ExceptHandler) and x.name]:
                n += 1
                end = max(getattr(x, 'end_lineno', h.lineno) for x in ast.walk(h) if hasattr(x, 'end_lineno'))
                for u in [x for x in walk_local(fn) if isinstance(x, ast.Name) and x.id == h.name and isinstance(x.ctx, ast.Load) and x.lineno > end]:
                    # a later handler / assignment that rebinds the name before the use?
                    rebound = any(isinstance(s, ast.Assign) and any(isinstance(t, ast.Name) and t.id == h.name for t in s.targets) and end < s.lineno <= u.lineno for s in walk_local(fn))
                    inside_other = False
                    a = getattr(u, '_parent', None)
                    while a is not None and a is not fn:
                        if isinstance(a, ast.ExceptHandler) and a.name == h.name:
                            inside_other = True
                        a = getattr(a, '_parent', None)
                    if not rebound and not inside_other:
                        out.append((fn, h, u))
                        break
        return out, n
    tot = 0
    for mn in modules:
        m = p.modules.get(mn)
        if m is None:
            R.bad(rule, mn, 'anchor missing')
            continue
        bad, n = scan(m.tree)
        tot += n
        for fn, h, u in bad:
            R.bad(rule, f'{p.qual_of(fn)} | except ... as {h.name}', f'`{h.name}` is bound by an except clause (line {h.lineno}) and read after it (line {u.lineno}): Python deletes the name when the handler ends, so the read raises UnboundLocalError whenever the exception was caught', f'{m.rel}:{u.lineno}')
    ct = ast.parse('def a(x):\n    error = None\n    try:\n        v = x()\n    except ValueError as error:\n        pass\n    if error is not None:\n        return 1\n    return v\ndef b(x):\n    try:\n        v = x()\n    except ValueError as error:\n        return str(error)\n    return v\n')
    for x in ast.walk(ct):
        for ch in ast.iter_child_nodes(x):
            ch._parent = x
    cb, cn = scan(ct)
    R.check([f.name for f, *_ in cb] == ['a'] and tot >= floor, rule, f'{", ".join(modules)} | except ... as name', f'{tot} named handlers, no name read after its handler (positive control matched)', 'positive control not matched')


PREDICATES = {'done', 'cancelled', 'is_set', 'locked', 'empty', 'full', 'is_alive', 'is_closing', 'exception', 'result'}


def uncalled_predicate(ctx, rule, modules, floor=0):
    """`fut.done` without parentheses is a bound method, always true: `not fut.done` is always false."""
    R, p = ctx.r, ctx.p

    def scan(tree):
        out = []
        for a in [x for x in ast.walk(tree) if isinstance(x, ast.Attribute) and x.attr in PREDICATES and isinstance(x.ctx, ast.Load)]:
            par = getattr(a, '_parent', None)
            if isinstance(par, ast.Call) and par.func is a:
                continue
            boolean = isinstance(par, (ast.BoolOp, ast.If, ast.While, ast.IfExp, ast.Assert)) or (isinstance(par, ast.UnaryOp) and isinstance(par.op, ast.Not))
            if isinstance(par, (ast.If, ast.While, ast.IfExp, ast.Assert)) and par.test is not a:
                boolean = False
            if boolean:
                out.append(a)
        return out
    n = 0
    for mn in modules:
        m = p.modules.get(mn)
        if m is None:
            R.bad(rule, mn, 'anchor missing')
            continue
        n += 1
        for a in scan(m.tree):
            R.bad(rule, f'{p.qual_of(a)} | {norm(a)}', f'`{norm(a)}` is used as a truth value without being called: a bound method is always true, so the test has a fixed outcome', f'{m.rel}:{a.lineno}')
    ct = ast.parse('def f(w):\n    if w is not None and not w.done:\n        return 1\n    if not w.done():\n        return 2\n')
    for x in ast.walk(ct):
        for ch in ast.iter_child_nodes(x):
            ch._parent = x
    R.check(len(scan(ct)) == 1 and n >= floor, rule, f'{", ".join(modules)} | predicate methods', 'every done / cancelled / is_set / locked / empty used as a truth value is called (positive control matched)', 'positive control not matched')


def missing_await(ctx, rule, modules, floor=0):
    """Inside an `async def`, the call of a coroutine method whose result is returned or dropped without `await` never
    runs: the caller gets a coroutine object (awaiting the outer function just hands it over).  The callee is resolved
    through the declared type of `self.<attr>` (class annotation, annotated __init__ parameter) or `self`."""
    R, p = ctx.r, ctx.p
    table = _class_table(p, [mn for mn in p.modules if mn.startswith('bumble.')])

    def class_of(node):
        a = getattr(node, '_parent', None)
        while a is not None and not isinstance(a, ast.ClassDef):
            a = getattr(a, '_parent', None)
        return a

    def attr_type(cls, attr):
        for st in cls.body:
            if isinstance(st, ast.AnnAssign) and isinstance(st.target, ast.Name) and st.target.id == attr:
                return text(st.annotation)
        init = next((f for f in cls.body if isinstance(f, FUNC) and f.name == '__init__'), None)
        if init is not None:
            ann = {a.arg: text(a.annotation) for a in init.args.args + init.args.kwonlyargs if a.annotation is not None}
            for st in ast.walk(init):
                if isinstance(st, ast.AnnAssign) and dotted(st.target) == f'self.{attr}':
                    return text(st.annotation)
                if isinstance(st, ast.Assign) and any(dotted(t) == f'self.{attr}' for t in st.targets) and isinstance(st.value, ast.Name) and st.value.id in ann:
                    return ann[st.value.id]
        return None

    local = {}

    def method(cls_name, name, seen=()):
        cn = (cls_name or '').replace(' | None', '').split('[')[0].split('.')[-1].strip("'\"")
        if (cn not in table and cn not in local) or cn in seen:
            return None
        c = local[cn] if cn in local else table[cn][1]
        for f in c.body:
            if isinstance(f, FUNC) and f.name == name:
                return f
        for b_ in c.bases:
            r = method(dotted(b_), name, seen + (cn,))
            if r is not None:
                return r
        return None

    def scan(tree, table_lookup=True):
        out, n = [], 0
        local.clear()
        local.update({c_.name: c_ for c_ in ast.walk(tree) if isinstance(c_, ast.ClassDef)})   # same-module classes first
        for fn in [x for x in ast.walk(tree) if isinstance(x, ast.AsyncFunctionDef)]:
            cls = class_of(fn)
            if cls is None:
                continue
            for c in [x for x in walk_local(fn) if isinstance(x, ast.Call) and isinstance(x.func, ast.Attribute)]:
                recv = c.func.value
                target = None
                if isinstance(recv, ast.Name) and recv.id == 'self':
                    target = next((f for f in cls.body if isinstance(f, FUNC) and f.name == c.func.attr), None) or method(cls.name, c.func.attr)
                elif isinstance(recv, ast.Attribute) and isinstance(recv.value, ast.Name) and recv.value.id == 'self':
                    target = method(attr_type(cls, recv.attr), c.func.attr)
                if not isinstance(target, ast.AsyncFunctionDef):
                    continue
                n += 1
                par = getattr(c, '_parent', None)
                if isinstance(par, ast.Return) or (isinstance(par, ast.Expr) and par.value is c):
                    out.append((fn, c))
        return out, n
    tot = 0
    for mn in modules:
        m = p.modules.get(mn)
        if m is None:
            R.bad(rule, mn, 'anchor missing')
            continue
        bad, n = scan(m.tree)
        tot += n
        for fn, c in bad:
            R.bad(rule, f'{p.qual_of(fn)} | {norm(c)[:60]}', f'`{norm(c)[:60]}` calls a coroutine method and its result is returned / dropped without `await`: the coroutine never runs, the command it would send is never sent', f'{m.rel}:{c.lineno}')
    ct = ast.parse('class Zq:\n    async def suspend(self, s):\n        pass\nclass Pq:\n    protocol: Zq\n    async def stop(self):\n        return self.protocol.suspend([1])\n    async def start(self):\n        return await self.protocol.suspend([1])\n')
    for x in ast.walk(ct):
        for ch in ast.iter_child_nodes(x):
            ch._parent = x
    for c_ in [x for x in ast.walk(ct) if isinstance(x, ast.ClassDef)]:
        table.setdefault(c_.name, (None, c_))
    cb, cn = scan(ct)
    R.check([f.name for f, _ in cb] == ['stop'] and tot >= floor, rule, f'{", ".join(modules)} | coroutine calls in async functions', f'{tot} calls resolved to coroutine methods, none returned or dropped un-awaited (positive control matched)', f'positive control not matched: {[f.name for f, _ in cb]}')


def integer_arithmetic(ctx, rule, modules, allowed=()):
    """Sizes, offsets and budgets in these modules are integers: true division `/` yields a float, so a budget like
    (mtu - 1) / 4 lets a fractional extra entry through."""
    R, p = ctx.r, ctx.p
    n = 0
    for mn in modules:
        m = p.modules.get(mn)
        if m is None:
            R.bad(rule, mn, 'anchor missing')
            continue
        n += 1
        for b in [x for x in ast.walk(m.tree) if isinstance(x, ast.BinOp) and isinstance(x.op, ast.Div)]:
            q = p.qual_of(b)
            if q in allowed or isinstance(b.left, ast.JoinedStr):
                continue
            # path arithmetic on Path objects
            if any(isinstance(x, ast.Constant) and isinstance(x.value, str) for x in (b.left, b.right)):
                continue
            R.bad(rule, f'{q} | {norm(b)[:60]}', f'`{norm(b)[:60]}` uses true division in a module whose quantities are byte counts: the result is a float, comparisons against it admit one entry too many', f'{m.rel}:{b.lineno}')
        for b in [x for x in ast.walk(m.tree) if isinstance(x, ast.AugAssign) and isinstance(x.op, ast.Div)]:
            R.bad(rule, f'{p.qual_of(b)} | {norm(b)[:60]}', 'true division in place', f'{m.rel}:{b.lineno}')
    R.check(n >= 1, rule, f'{", ".join(modules)} | arithmetic', 'no true division', 'no module analysed')


# ---------------------------------------------------------------------------------------------------------------------
SETTLE_EXEMPT = {
    'bumble.l2cap.LeCreditBasedChannel.on_connection_response': 'reached only through ChannelManager.le_coc_requests, and connect() removes that entry in a finally when its waiter gives up (C16.pending-slots): a response for an abandoned request is dropped by the manager',
}


def settle_guard(ctx, rule, classes, floor=1):
    """A future kept in an instance attribute can be cancelled by its waiter (timeout, task cancellation) while the object
    still refers to it.  `set_result` / `set_exception` on it then raises InvalidStateError in the middle of a teardown.
    Each settle call is under a `not <future>.done()` test, unless every coroutine that waits on the attribute clears
    it in a `finally` (then a stale reference cannot exist)."""
    R, p = ctx.r, ctx.p
    from .paths import flat_guards
    n = 0
    for cq in classes:
        ci = p.cls(cq)
        if ci is None:
            R.bad(rule, cq, 'anchor missing')
            continue
        # attributes whose waiters always clear them in a finally
        scoped = set()
        waiters = {}
        for fn in ci.methods.values():
            for aw in [x for x in walk_local(fn) if isinstance(x, ast.Await)]:
                for a in [x for x in ast.walk(aw) if isinstance(x, ast.Attribute) and dotted(x.value) == 'self']:
                    waiters.setdefault(a.attr, []).append((fn, aw))
        for attr, ws in waiters.items():
            ok = True
            for fn, aw in ws:
                t, prev, cleared = getattr(aw, '_parent', None), aw, False
                while t is not None and t is not fn:
                    if isinstance(t, ast.Try) and any(prev is s_ or any(prev is x for x in ast.walk(s_)) for s_ in t.body):
                        cleared = cleared or any(isinstance(s_, ast.Assign) and any(dotted(tt) == f'self.{attr}' for tt in s_.targets) for s_ in t.finalbody)
                    prev, t = t, getattr(t, '_parent', None)
                ok = ok and cleared
            if ok:
                scoped.add(attr)
        for fn in ci.methods.values():
            for c in [x for x in walk_local(fn) if isinstance(x, ast.Call) and isinstance(x.func, ast.Attribute) and x.func.attr in ('set_result', 'set_exception') and isinstance(x.func.value, ast.Attribute) and dotted(x.func.value.value) == 'self']:
                attr = c.func.value.attr
                n += 1
                if attr in scoped:
                    R.ok(rule, f'{cq}.{fn.name} | self.{attr}.{c.func.attr}', 'every waiter clears the attribute in a finally: no stale reference', p.loc(c), trivial=True)
                    continue
                if f'{cq}.{fn.name}' in SETTLE_EXEMPT:
                    R.ok(rule, f'{cq}.{fn.name} | self.{attr}.{c.func.attr}', 'named exception: ' + SETTLE_EXEMPT[f'{cq}.{fn.name}'], p.loc(c), trivial=True)
                    continue
                fresh = any(isinstance(s_, ast.Assign) and any(dotted(t) == f'self.{attr}' for t in s_.targets) and isinstance(s_.value, ast.Call) and call_attr(s_.value) == 'create_future' and s_.lineno < c.lineno for s_ in walk_local(fn))
                guarded = any((not pol) and norm(t) == f'self.{attr}.done()' for t, pol in flat_guards(c, stop=fn))
                R.check(guarded or fresh, rule, f'{cq}.{fn.name} | self.{attr}.{c.func.attr}', 'under `not ...done()`',
                        f'`self.{attr}.{c.func.attr}(...)` is not guarded by `not self.{attr}.done()`: a waiter that gave up (timeout) has cancelled the future but the object still holds it, so this raises InvalidStateError in the middle of the teardown and what follows is skipped', p.loc(c))
    R.check(n >= floor, rule, f'{", ".join(classes)} | settle calls', f'{n} set_result / set_exception calls on attribute futures examined', f'only {n} found')


# ---------------------------------------------------------------------------------------------------------------------
def zip_star_unpack(ctx, rule, modules, floor=0):
    """`a, b, c = zip(*rows)` transposes a list of rows -- and raises ValueError when there is no row (zip() of nothing
    yields nothing to unpack); it also yields tuples where lists were built before.  A parser written that way loses the
    zero-entry form of a list-valued packet."""
    R, p = ctx.r, ctx.p

    def scan(tree):
        out = []
        for st in [x for x in ast.walk(tree) if isinstance(x, ast.Assign) and isinstance(x.targets[0], (ast.Tuple, ast.List)) and isinstance(x.value, ast.Call) and dotted(x.value.func) == 'zip' and any(isinstance(a, ast.Starred) for a in x.value.args)]:
            out.append(st)
        return out
    n = 0
    for mn in modules:
        m = p.modules.get(mn)
        if m is None:
            R.bad(rule, mn, 'anchor missing')
            continue
        n += 1
        for st in scan(m.tree):
            R.bad(rule, f'{p.qual_of(st)} | {norm(st)[:60]}', f'`{norm(st)[:70]}` unpacks the transposition of a list of rows: with zero rows zip() yields nothing and the unpacking raises ValueError, so the empty form of the packet no longer parses (and the columns become tuples)', f'{m.rel}:{st.lineno}')
    ct = ast.parse('def f(rows):\n    a, b = zip(*rows)\n    return a, b\ndef g(rows):\n    a = [r[0] for r in rows]\n    return a\n')
    R.check(len(scan(ct)) == 1 and n >= floor, rule, f'{", ".join(modules)} | transpositions', 'no unpacking of zip(*rows) (positive control matched)', 'positive control not matched')


# ---------------------------------------------------------------------------------------------------------------------
def class_attrs(p, qual):
    """Names an instance of `qual` answers to: methods, properties, class-level names and `self.x = ...` of every method,
    along the (resolved) base classes."""
    out = set()
    for ci in p.mro(qual):
        out |= set(ci.methods) | set(ci.assigns) | set(ci.annots)
        for fn in ci.methods.values():
            for n in ast.walk(fn):
                if isinstance(n, ast.Attribute) and isinstance(n.ctx, ast.Store) and isinstance(n.value, ast.Name) and n.value.id == 'self':
                    out.add(n.attr)
    return out


def union_attribute(ctx, rule, modules, alias, members, narrowers, floor=1):
    """A parameter declared with a union alias (`alias`, e.g. att.Bearer = Connection | LeCreditBasedChannel) is used
    through attributes every member has, unless the site is narrowed (isinstance / a TypeIs helper): an attribute only one
    member has raises AttributeError for the other, outside whatever error mapping the caller has.
    members: {short class name: qualified name}; narrowers: {helper name: short class name it proves}."""
    from . import paths
    R, p = ctx.r, ctx.p
    attrs = {}
    for short, q in members.items():
        if p.cls(q) is None:
            R.bad(rule, q, 'anchor missing')
            return
        attrs[short] = class_attrs(p, q)
    n = 0
    for mn in modules:
        m = p.modules.get(mn)
        if m is None:
            R.bad(rule, mn, 'anchor missing')
            continue
        for fn in [x for x in ast.walk(m.tree) if isinstance(x, FUNC)]:
            for a in fn.args.args + fn.args.kwonlyargs:
                if a.annotation is None or norm(a.annotation).strip('"\'').split('.')[-1] != alias:
                    continue
                if any(isinstance(s_, (ast.Assign, ast.AugAssign)) and any(isinstance(t, ast.Name) and t.id == a.arg for t in ast.walk(s_) if isinstance(getattr(t, 'ctx', None), ast.Store)) for s_ in ast.walk(fn)):
                    continue  # rebound: not followed
                for use in [x for x in ast.walk(fn) if isinstance(x, ast.Attribute) and isinstance(x.value, ast.Name) and x.value.id == a.arg and isinstance(x.ctx, ast.Load)]:
                    n += 1
                    possible = set(members)
                    for t, pol in paths.flat_guards(use, stop=fn):
                        if not isinstance(t, ast.Call) or not t.args or not (isinstance(t.args[0], ast.Name) and t.args[0].id == a.arg):
                            continue
                        f = (dotted(t.func) or '').split('.')[-1]
                        proved = None
                        if f == 'isinstance' and len(t.args) == 2:
                            proved = {(dotted(e) or '').split('.')[-1] for e in (t.args[1].elts if isinstance(t.args[1], ast.Tuple) else [t.args[1]])}
                            proved = {narrowers.get(x, x) for x in proved} & set(members)
                        elif f in narrowers:
                            proved = {narrowers[f]}
                        if proved:
                            possible &= proved if pol else (set(members) - proved)
                    missing = sorted(s for s in possible if use.attr not in attrs[s])
                    if missing:
                        R.bad(rule, f'{p.qual_of(use)} | {a.arg}.{use.attr}', f'`{a.arg}.{use.attr}` is evaluated where `{a.arg}` may be a {" / ".join(missing)}, which has no attribute `{use.attr}`: AttributeError instead of the intended answer', f'{m.rel}:{use.lineno}')
    R.check(n >= floor, rule, f'{", ".join(modules)} | uses of {alias} parameters', f'{n} attribute uses, each defined on every member possible at the site', f'only {n} uses found (floor {floor})')


# ---------------------------------------------------------------------------------------------------------------------
def shift_amount_data(ctx, rule, modules):
    """`hi << 16 | lo` packs two fields; `hi << 16 + lo` shifts by 16 + lo (+ binds tighter than <<).  A shift whose amount
    is a sum / difference / or with an element taken out of a received or supplied value (a subscript) is that slip: shift
    amounts in protocol code are constants, names or `name - constant`."""
    R, p = ctx.r, ctx.p

    def hits(tree):
        return [x for x in ast.walk(tree) if isinstance(x, ast.BinOp) and isinstance(x.op, (ast.LShift, ast.RShift)) and isinstance(x.right, ast.BinOp) and any(isinstance(y, ast.Subscript) for y in ast.walk(x.right))]
    n = 0
    for mn in modules:
        m = p.modules.get(mn)
        if m is None:
            R.bad(rule, mn, 'anchor missing')
            continue
        n += sum(1 for x in ast.walk(m.tree) if isinstance(x, ast.BinOp) and isinstance(x.op, (ast.LShift, ast.RShift)))
        for x in hits(m.tree):
            R.bad(rule, f'{p.qual_of(x)} | {norm(x)[:60]}', f'`{norm(x)[:70]}` shifts by an amount that includes a data element (`{norm(x.right)[:40]}`): + and - bind tighter than << - the value meant to be or-ed / added in changes the shift count instead, and the packed field is wrong for every input but 0', f'{m.rel}:{x.lineno}')
    ctl = ast.parse('a = r[0] << 16 + r[1]\nb = r[0] << 16 | r[1]\nc = 1 << n - 1\n')
    R.check(len(hits(ctl)) == 1, rule, f'{", ".join(modules)} | shifts', f'{n} shifts, none by an amount containing a data element (positive control matched)', 'positive control not matched')


# ---------------------------------------------------------------------------------------------------------------------
def reset_before_handoff(ctx, rule, qual, buf, handoff):
    """A reassembly buffer (`buf`, e.g. self.in_sdu) is emptied before the completed unit is handed to code that may raise
    (`handoff`: dotted callee): on every path the last write to the buffer before the hand-off is a reset (None, b'', a
    fresh empty container), never an accumulation.  Otherwise a raising consumer leaves the finished unit in the buffer and
    the next unit is appended to it."""
    from . import paths
    R, p = ctx.r, ctx.p
    fn = p.find(qual)
    if fn is None:
        R.bad(rule, qual, 'anchor missing')
        return
    bad, seen = [], []

    def is_reset(v):
        return (isinstance(v, ast.Constant) and v.value in (None, b'', '')) or (isinstance(v, ast.Call) and dotted(v.func) in ('bytes', 'bytearray', 'list') and not v.args) or (isinstance(v, (ast.List, ast.Tuple)) and not v.elts)

    class D(paths.Domain):
        def event(self, node, v):
            if isinstance(node, ast.AugAssign) and dotted(node.target) == buf:
                return ('dirty',)
            if isinstance(node, ast.Assign):
                for t in node.targets:
                    if dotted(t) == buf:
                        return ('reset' if is_reset(node.value) else 'dirty',)
                    if isinstance(t, ast.Tuple) and isinstance(node.value, ast.Tuple) and len(t.elts) == len(node.value.elts):
                        for a, b in zip(t.elts, node.value.elts):
                            if dotted(a) == buf:
                                return ('reset' if is_reset(b) else 'dirty',)
            if isinstance(node, ast.Call) and dotted(node.func) == handoff:
                seen.append(node)
                if v != 'reset':
                    bad.append(node)
            return (v,)
    paths.run(fn, D(), 'dirty')
    R.check(bool(seen) and not bad, rule, f'{qual} | {buf} before {handoff}', f'{buf} is reset before the unit is handed to {handoff}', f'{handoff}(...) is called while {buf} still holds the completed unit: if the consumer raises, the reset after the call is skipped and the next unit is appended to the old one (dropped as an overflow, or delivered with the old bytes in front)', p.loc(bad[0]) if bad else p.loc(fn))


# ---------------------------------------------------------------------------------------------------------------------
def falsy_enum_default(ctx, rule, modules):
    """`value or Enum.MEMBER` replaces every falsy value by the default - including the enum's own member 0 (PUBLIC = 0,
    SUCCESS = 0 ...), which is a legitimate choice of the caller.  Flagged: an `or` whose last operand is a member of an
    enum class of the program that has a member with value 0 (the presence test for such a value is `is None`)."""
    R, p = ctx.r, ctx.p
    zero = set()
    for cn, ci in p.classes.items():
        if any(isinstance(v, ast.Constant) and isinstance(v.value, int) and not isinstance(v.value, bool) and v.value == 0 for v in ci.assigns.values()) and any('Enum' in b.split('.')[-1] or 'Flag' in b.split('.')[-1] for x in p.mro(cn) for b in x.bases):
            zero.add(ci.name)

    def hits(tree, zero_):
        out = []
        for b in ast.walk(tree):
            if isinstance(b, ast.BoolOp) and isinstance(b.op, ast.Or) and not isinstance(b.values[0], (ast.Compare, ast.Call)):
                parts = (dotted(b.values[-1]) or '').split('.')
                if len(parts) >= 2 and parts[-2] in zero_:
                    out.append(b)
        return out
    n = 0
    for mn in modules:
        m = p.modules.get(mn)
        if m is None:
            R.bad(rule, mn, 'anchor missing')
            continue
        n += sum(1 for b in ast.walk(m.tree) if isinstance(b, ast.BoolOp) and isinstance(b.op, ast.Or))
        for b in hits(m.tree, zero):
            R.bad(rule, f'{p.qual_of(b)} | {norm(b)[:60]}', f'`{norm(b)[:80]}` takes the default for every falsy value, i.e. also when the value is the member 0 of {(dotted(b.values[-1]) or "").split(".")[-2]} (a legitimate choice): the caller\'s choice is silently replaced', f'{m.rel}:{b.lineno}')
    ctl = ast.parse('a = self.kind or Kind.B\nb = self.kind if self.kind is not None else Kind.B\n')
    R.check(len(hits(ctl, {'Kind'})) == 1 and len(zero) >= 50, rule, f'{", ".join(modules)} | `or` defaults', f'{n} `or` expressions, none defaults to a member of one of the {len(zero)} enums that have a member 0 (positive control matched)', 'positive control not matched / enum census too small')


def rebound_parsed_names(ctx, rule, modules, floor=1):
    """In a hand-written parser the values read from the wire reach the constructor as they were read: a name bound by
    struct.unpack / unpack_from is not assigned again in the function (zeroed, clamped, defaulted) - or the packet no longer
    re-serialises to the bytes it was parsed from.  Instances: every function of `modules` that binds names that way."""
    R, p = ctx.r, ctx.p

    def scan(fn):
        bound = {}
        for st in walk_local(fn):
            if isinstance(st, ast.Assign) and isinstance(st.value, (ast.Call, ast.Subscript)) and (dotted(st.value.func if isinstance(st.value, ast.Call) else getattr(st.value.value, 'func', None)) or '').startswith('struct.unpack'):
                for t in st.targets:
                    for x in ast.walk(t):
                        if isinstance(x, ast.Name):
                            bound[x.id] = min(bound.get(x.id, st.lineno), st.lineno)
        # only what comes after the value was read (an initialisation before the read is not a replacement)
        again = [st for st in walk_local(fn) if isinstance(st, ast.Assign) and not any(isinstance(c, ast.Call) and (dotted(c.func) or '').startswith('struct.unpack') for c in ast.walk(st.value))
                 and any(isinstance(x, ast.Name) and isinstance(x.ctx, ast.Store) and x.id in bound and st.lineno > bound[x.id] for t in st.targets for x in ast.walk(t))
                 and not any(isinstance(x, ast.Name) and x.id in bound for x in ast.walk(st.value))]
        return bound, again
    n = 0
    for mn in modules:
        m = p.modules.get(mn)
        if m is None:
            R.bad(rule, mn, 'anchor missing')
            continue
        for fn in [x for x in ast.walk(m.tree) if isinstance(x, FUNC)]:
            bound, again = scan(fn)
            if not bound:
                continue
            n += 1
            for st in again:
                R.bad(rule, f'{p.qual_of(fn)} | {norm(st)[:50]}', f'`{norm(st)[:70]}` replaces a value that was read from the wire by one that does not depend on it: the parsed object no longer re-serialises to the bytes it came from (and differs from what the sender built)', f'{m.rel}:{st.lineno}')
    ctl = ast.parse('def f(data):\n    a, b = struct.unpack_from("<BH", data, 0)\n    if a != 255:\n        b = 0\n    return a, b\ndef g(data):\n    a, b = struct.unpack_from("<BH", data, 0)\n    b = b & 0xFFF\n    return a, b\n')
    hits = [len(scan(f)[1]) for f in ctl.body]
    R.check(hits == [1, 0] and n >= floor, rule, f'{", ".join(modules)} | parsers binding names by struct.unpack', f'{n} functions, no unpacked value replaced by an unrelated one (positive control matched)', f'control {hits} / {n} functions (floor {floor})')


# ---------------------------------------------------------------------------------------------------------------------
def clobbering_inner_loops(fn):
    """(name, outer loop, inner loop, use) where a per-item value computed in an outer loop's body is overwritten by plain
    assignments inside a nested loop and read again after it - the outer item then gets the last inner item's value."""
    out = []
    for outer in [x for x in walk_local(fn) if isinstance(x, (ast.For, ast.AsyncFor))]:
        body = outer.body
        for i, inner in enumerate(body):
            if not isinstance(inner, (ast.For, ast.AsyncFor)):
                continue
            before = {}
            for st in body[:i]:
                if isinstance(st, ast.Assign) and not isinstance(st.value, ast.Constant) and not (isinstance(st.value, (ast.List, ast.Dict, ast.Set, ast.Tuple)) and not getattr(st.value, 'elts', getattr(st.value, 'keys', []))):
                    for t in st.targets:
                        if isinstance(t, ast.Name):
                            before[t.id] = st
            if not before:
                continue
            inner_targets = {x.id for x in ast.walk(inner.target) if isinstance(x, ast.Name)}
            clobbered = {}
            for st in ast.walk(inner):
                if isinstance(st, ast.Assign):
                    for t in st.targets:
                        if isinstance(t, ast.Name) and t.id in before and t.id not in inner_targets and not any(isinstance(x, ast.Name) and x.id == t.id for x in ast.walk(st.value)):
                            clobbered[t.id] = st
            for name, st in clobbered.items():
                for later in body[i + 1:]:
                    stores = [x for x in ast.walk(later) if isinstance(x, ast.Name) and x.id == name and isinstance(x.ctx, ast.Store)]
                    loads = [x for x in ast.walk(later) if isinstance(x, ast.Name) and x.id == name and isinstance(x.ctx, ast.Load)]
                    if loads:
                        out.append((name, outer, inner, loads[0], st))
                        break
                    if stores:
                        break
    return out


def inner_loop_clobber(ctx, rule, modules):
    """A value computed for the item of an outer loop, overwritten by a nested loop for each of its items, and used again
    after the nested loop: the outer item ends up with the last inner item's value (a local reused for parent and child)."""
    R, p = ctx.r, ctx.p
    n = 0
    for mn in modules:
        m = p.modules.get(mn)
        if m is None:
            R.bad(rule, mn, 'anchor missing')
            continue
        for fn in [x for x in ast.walk(m.tree) if isinstance(x, FUNC)]:
            nested = [l for l in walk_local(fn) if isinstance(l, (ast.For, ast.AsyncFor)) and any(isinstance(x, (ast.For, ast.AsyncFor)) for x in l.body)]
            n += len(nested)
            for name, outer, inner, use, st in clobbering_inner_loops(fn):
                R.bad(rule, f'{p.qual_of(fn)} | {name}', f'`{name}` is computed for each item of the loop at line {outer.lineno}, overwritten for each item of the nested loop (`{norm(st)[:50]}`) and read again afterwards (line {use.lineno}): the outer item gets the value of its last inner item', f'{m.rel}:{st.lineno}')
    ctl = ast.parse('def f(cs):\n    out = []\n    for c in cs:\n        perm = c.get("p")\n        ds = []\n        for d in c["ds"]:\n            perm = d.get("p")\n            ds.append(perm)\n        out.append((perm, ds))\n    return out\ndef g(cs):\n    for c in cs:\n        total = 0\n        for d in c:\n            total = total + d\n        use(total)\n')
    hits = [len(clobbering_inner_loops(f)) for f in ctl.body]
    R.check(hits == [1, 0] and n >= 1, rule, f'{", ".join(modules)} | nested loops', f'{n} nested loops, no per-item value clobbered by the inner loop (positive control matched)', f'control {hits}, {n} nested loops')


def primitive_rebinding(ctx, rule, modules, floor=1):
    """An asyncio.Event / Lock / Semaphore / Condition / Queue created in __init__ is the object waiters block on: another
    method that assigns a new one to the same attribute strands everybody waiting on the old object (set() / release() then
    go to the new one)."""
    R, p = ctx.r, ctx.p
    PRIM = ('asyncio.Event', 'asyncio.Lock', 'asyncio.Semaphore', 'asyncio.Condition', 'asyncio.Queue')

    def rebinds(cls_node):
        init = next((s_ for s_ in cls_node.body if isinstance(s_, FUNC) and s_.name == '__init__'), None)
        if init is None:
            return {}, []
        prim = {st.targets[0].attr: dotted(st.value.func) for st in ast.walk(init) if isinstance(st, ast.Assign) and isinstance(st.value, ast.Call) and dotted(st.value.func) in PRIM and isinstance(st.targets[0], ast.Attribute) and dotted(st.targets[0].value) == 'self'}
        bad = []
        for fn in [s_ for s_ in cls_node.body if isinstance(s_, FUNC) and s_.name != '__init__']:
            for st in ast.walk(fn):
                if isinstance(st, ast.Assign):
                    for t in st.targets:
                        if isinstance(t, ast.Attribute) and dotted(t.value) == 'self' and t.attr in prim:
                            bad.append((fn, st, prim[t.attr]))
        return prim, bad
    n = 0
    for cn, ci in sorted(p.classes.items()):
        if not any(cn.startswith(m + '.') for m in modules):
            continue
        prim, bad = rebinds(ci.node)
        n += len(prim)
        for fn, st, kind in bad:
            R.bad(rule, f'{cn}.{fn.name} | {norm(st)[:50]}', f'{fn.name} replaces the {kind} that was created in __init__ (`{norm(st)[:60]}`): a task already waiting on the old object is never woken - every later set() / release() goes to the new one, also when the channel or its link goes away', p.loc(st))
    ctl = ast.parse('class A:\n    def __init__(self):\n        self.ev = asyncio.Event()\n    def w(self):\n        self.ev = asyncio.Event()\n    def c(self):\n        self.ev.clear()\n').body[0]
    R.check(len(rebinds(ctl)[1]) == 1 and n >= floor, rule, f'{", ".join(modules)} | synchronisation primitives', f'{n} primitives created in __init__, none replaced afterwards (positive control matched)', f'only {n} primitives found / control not matched')


# ---------------------------------------------------------------------------------------------------------------------
def copy_updates(fn):
    """(statement, table) where a local that was looked up in a table (`x = T.get(k)`, `x := T[k]`) is replaced by a new
    container built from it (`x = x - {e}`, `x = [y for y in x if ...]`) and never stored back: the table keeps the old
    object, the update is lost."""
    out = []
    bound = {}
    for st in walk_local(fn):
        tgt = val = None
        if isinstance(st, ast.Assign) and isinstance(st.targets[0], ast.Name):
            tgt, val = st.targets[0].id, st.value
        if isinstance(st, ast.NamedExpr):
            tgt, val = st.target.id, st.value
        if tgt and ((isinstance(val, ast.Call) and isinstance(val.func, ast.Attribute) and val.func.attr in ('get', 'setdefault')) or isinstance(val, ast.Subscript)):
            base = val.func.value if isinstance(val, ast.Call) else val.value
            if dotted(base):
                bound.setdefault(tgt, (st.lineno, dotted(base)))
    for st in walk_local(fn):
        if not (isinstance(st, ast.Assign) and isinstance(st.targets[0], ast.Name) and st.targets[0].id in bound and st.lineno > bound[st.targets[0].id][0]):
            continue
        name, v = st.targets[0].id, st.value
        rebuilt = False
        if isinstance(v, ast.BinOp) and isinstance(v.op, (ast.Sub, ast.BitOr, ast.BitAnd, ast.Add)) and isinstance(v.left, ast.Name) and v.left.id == name and isinstance(v.right, (ast.Set, ast.List, ast.Dict, ast.SetComp, ast.ListComp, ast.DictComp, ast.Call)):
            rebuilt = True
        if isinstance(v, (ast.ListComp, ast.SetComp, ast.DictComp)) and any(isinstance(g.iter, ast.Name) and g.iter.id == name for g in v.generators):
            rebuilt = True
        if not rebuilt:
            continue
        table = bound[name][1]
        back = any(isinstance(s2, ast.Assign) and isinstance(s2.targets[0], ast.Subscript) and dotted(s2.targets[0].value) == table and s2.lineno > st.lineno and any(isinstance(x, ast.Name) and x.id == name for x in ast.walk(s2.value)) for s2 in walk_local(fn))
        if not back:
            out.append((st, table))
    return out


def copy_update(ctx, rule, modules):
    R, p = ctx.r, ctx.p
    n = 0
    for mn in modules:
        m = p.modules.get(mn)
        if m is None:
            R.bad(rule, mn, 'anchor missing')
            continue
        # on the source as written: the canonical form turns `x = x - y` into `x -= y`, which for a set is the in-place
        # (correct) update this rule has to tell from the copying one
        raw = ast.parse(m.src)

        def funcs(node, prefix):
            for ch in ast.iter_child_nodes(node):
                if isinstance(ch, ast.ClassDef):
                    yield from funcs(ch, prefix + [ch.name])
                elif isinstance(ch, FUNC):
                    yield prefix + [ch.name], ch
                    yield from funcs(ch, prefix + [ch.name])
                else:
                    yield from funcs(ch, prefix)
        for qn, fn in funcs(raw, [mn]):
            n += 1
            for st, table in copy_updates(fn):
                R.bad(rule, f'{".".join(qn)} | {norm(st)[:50]}', f'`{norm(st)[:70]}` builds a new container and binds it to the local only: the object held in `{table}` is unchanged, so the removal / addition never takes effect (and a test of the local afterwards does not see what the table holds)', f'{m.rel}:{st.lineno}')
    ctl = ast.parse('def f(self, k, e):\n    if (s := self.table.get(k)):\n        s = s - {e}\n        if not s:\n            del self.table[k]\ndef g(self, k, e):\n    s = self.table.get(k)\n    s = s - {e}\n    self.table[k] = s\n')
    hits = [len(copy_updates(f)) for f in ctl.body]
    R.check(hits == [1, 0] and n >= 10, rule, f'{", ".join(modules)} | looked-up containers', f'{n} functions, no update applied to a rebuilt copy only (positive control matched)', f'control {hits}')


# ---------------------------------------------------------------------------------------------------------------------
def total_mappers(ctx, rule, modules, floor=1):
    """A field's display `mapper` runs inside __str__, and packets are formatted for the debug log (f-strings, evaluated at
    every log level) before they are dispatched or sent: a mapper that is partial on the field's value range - indexing a
    tuple / dict with the value, unpacking it with a fixed struct format - turns a legal value into an exception in front
    of the handler, and the PDU is neither answered nor sent."""
    R, p = ctx.r, ctx.p

    def mappers(tree):
        for d in ast.walk(tree):
            if isinstance(d, ast.Dict):
                for k, v in zip(d.keys, d.values):
                    if isinstance(k, ast.Constant) and k.value == 'mapper' and isinstance(v, ast.Lambda):
                        yield v

    def partial(lam):
        arg = lam.args.args[0].arg if lam.args.args else None
        bound = {arg} | {x.id for c in ast.walk(lam.body) if isinstance(c, ast.comprehension) for x in ast.walk(c.target) if isinstance(x, ast.Name)}
        return [x for x in ast.walk(lam.body) if (isinstance(x, ast.Subscript) and isinstance(x.slice, ast.Name) and x.slice.id == arg and not isinstance(x.value, ast.Name))
                or (isinstance(x, ast.Subscript) and isinstance(x.slice, ast.Name) and x.slice.id == arg and isinstance(x.value, ast.Name) and x.value.id not in bound)
                or (isinstance(x, ast.Call) and (dotted(x.func) or '').startswith('struct.unpack'))]
    n = 0
    for mn in modules:
        m = p.modules.get(mn)
        if m is None:
            R.bad(rule, mn, 'anchor missing')
            continue
        for lam in mappers(m.tree):
            n += 1
            bad = partial(lam)
            if bad:
                R.bad(rule, f'{p.qual_of(lam)} | {norm(lam)[:60]}', f'the display mapper `{norm(lam)[:80]}` is not defined for every value of its field (`{norm(bad[0])[:40]}` raises for the others): str() of the PDU raises where it is logged, i.e. before the handler runs or the response is sent - such a request is never answered', f'{m.rel}:{lam.lineno}')
    ctl = ast.parse("a = {'size': 1, 'mapper': lambda x: ('A', 'B')[x]}\nb = {'mapper': lambda x: ', '.join(f'{h}:{u.hex()}' for h, u in x)}\n")
    hits = [len(partial(l)) for l in mappers(ctl)]
    R.check(hits == [1, 0] and n >= floor, rule, f'{", ".join(modules)} | display mappers', f'{n} mapper lambdas, all total on their field (positive control matched)', f'control {hits}, {n} mappers (floor {floor})')
