"""Waiter census: every `await` on a future/event that a peer-driven handler is
supposed to settle must be released when the connection/transport goes away.

An await is *discharged* when
  (a) it is wrapped: cancel_on_disconnection / cancel_on_event / wait_for with
      a timeout / asyncio.wait with a timeout;
  (b) the awaited object is an attribute of the owning class and every
      configured teardown method of that class settles it on all paths
      (set_result / set_exception / cancel / Event.set), assuming the waiter
      exists (`x is not None`, `not x.done()` taken as true);
  (c) it sits (lexically) inside an `async with`/try whose body is itself
      wrapped -- not modelled; such cases need a named exception.
Everything else is reported.
"""
from __future__ import annotations

import ast

from . import paths
from .core import FUNC, call_attr, dotted, enclosing_function, norm, strip_await, text, walk_local

WRAPPERS = {'cancel_on_disconnection', 'cancel_on_event'}
SETTLERS = {'set_result', 'set_exception', 'cancel', 'set'}


class Await:
    def __init__(self, prog, node):
        self.node = node
        self.fn = enclosing_function(node)
        self.qual = prog.qual_of(self.fn) if self.fn is not None else '?'
        self.loc = prog.loc(node)
        self.kind, self.target = classify(node.value)
        self.cls = prog.class_of(self.fn) if self.fn is not None else None

    def key(self):
        return f'{self.qual} | await {self.target or norm(self.node.value)[:60]}'


def _has_timeout(call: ast.Call) -> bool:
    for kw in call.keywords:
        if kw.arg == 'timeout':
            return not (isinstance(kw.value, ast.Constant) and kw.value.value is None)
    return len(call.args) >= 2 and not (isinstance(call.args[1], ast.Constant) and call.args[1].value is None)


def classify(e):
    """-> (kind, target)"""
    if isinstance(e, ast.Call):
        name = call_attr(e) or ''
        d = dotted(e.func) or name
        if name in WRAPPERS:
            return 'wrapped', d
        if name == 'wait_for':
            return ('wrapped', d) if _has_timeout(e) else classify(e.args[0]) if e.args else ('call', d)
        if d in ('asyncio.sleep',):
            return 'sleep', d
        if d in ('asyncio.wait',) and _has_timeout(e):
            return 'wrapped', d
        if name == 'wait' and isinstance(e.func, ast.Attribute) and not e.args:
            return 'bare-event', dotted(e.func.value) or text(e.func.value)
        if d in ('asyncio.gather', 'asyncio.wait', 'asyncio.shield'):
            return 'aggregate', d
        return 'call', d
    if isinstance(e, (ast.Name, ast.Attribute)):
        return 'bare-future', dotted(e) or text(e)
    if isinstance(e, ast.Subscript):
        return 'bare-future', text(e)
    return 'other', text(e)[:40]


def census(prog, module_names):
    out = []
    for mn in module_names:
        m = prog.modules.get(mn)
        if m is None:
            continue
        for n in ast.walk(m.tree):
            if isinstance(n, ast.Await):
                out.append(Await(prog, n))
    return out


def resolve_attr(aw: Await):
    """Map the awaited local/attribute to an attribute name of the owning
    class: `self.x` -> 'x'; local `v` with `self.x = v` or `v = self.x` in the
    same function -> 'x'; `obj.x` (other owner) -> ('obj', 'x')."""
    t = aw.target
    if not t:
        return None
    parts = t.split('.')
    if parts[0] == 'self' and len(parts) == 2:
        return parts[1]
    if len(parts) == 1 and aw.fn is not None:
        for n in walk_local(aw.fn):
            if isinstance(n, ast.Assign):
                tg = [dotted(x) for x in n.targets]
                v = dotted(n.value)
                if v == t:
                    for x in tg:
                        if x and x.startswith('self.') and x.count('.') == 1:
                            return x[5:]
                if t in tg and v and v.startswith('self.') and v.count('.') == 1:
                    return v[5:]
            if isinstance(n, ast.NamedExpr) and dotted(n.target) == t:
                v = dotted(n.value)
                if v and v.startswith('self.') and v.count('.') == 1:
                    return v[5:]
    return None


class _Settle(paths.Domain):
    def __init__(self, attr, helpers):
        self.attr, self.helpers = attr, helpers

    def event(self, node, v):
        if isinstance(node, ast.Call):
            f = node.func
            if isinstance(f, ast.Attribute) and f.attr in SETTLERS and dotted(f.value) == f'self.{self.attr}':
                return (1,)
            d = dotted(f) or ''
            if d.startswith('self.') and d.count('.') == 1 and d[5:] in self.helpers:
                return (1,)
        return (v,)

    def assume(self, atom, truth, v):
        t = norm(atom)
        a = f'self.{self.attr}'
        if t in (a, f'{a} is not None', f'not {a}.done()') :
            return (v,) if truth else ()
        if t in (f'{a} is None', f'{a}.done()'):
            return () if truth else (v,)
        return (v,)


def settles(prog, ci, method_name, attr, depth=2) -> tuple:
    """Does `ci.method_name` settle self.<attr> on every normal exit?
    -> (bool, [witness paths that do not])"""
    m = None
    r = prog.resolve_method(ci.qual, method_name)
    if r:
        m = r[1]
    if m is None:
        return False, [f'{ci.qual}.{method_name} does not exist']
    helpers = set()
    if depth > 0:
        for c in walk_local(m):
            if isinstance(c, ast.Call):
                d = dotted(c.func) or ''
                if d.startswith('self.') and d.count('.') == 1 and d[5:] != method_name:
                    ok, _ = settles(prog, ci, d[5:], attr, depth - 1)
                    if ok:
                        helpers.add(d[5:])
    res = paths.run(m, _Settle(attr, helpers), 0)
    bad = [f'{k} via {" ".join(w)}' for k, st in res.items() if not k.startswith('raise') for v, w in st.items() if v == 0]
    return (not bad), bad
