"""Syntax-directed abstract interpreter over the statement kinds bumble uses.

The abstract state at a program point is a *set* of client-defined hashable
values (disjunctive, hence path-sensitive up to the finiteness of the value
space), each carrying a witness (the branch decisions that led there).  The
client (a `Domain`) says how calls/assignments transform a value (`event`),
how a branch condition refines it (`assume`, may return nothing = infeasible),
which calls may raise (`may_raise`) and how return statements are classified
(`ret`).  Loops are iterated to a fixpoint of the value set.

Outcome of running a function: {kind: {value: witness}} with kinds
  'fall', 'ret:<class>', 'raise:<tag>', and (inside loops) 'break', 'continue'.
"""
from __future__ import annotations

import ast
from typing import Iterable

from .core import FUNC, AnalysisError, text

State = dict  # value -> witness tuple

MAX_WITNESS = 14
MAX_ITER = 64


def join(*states) -> State:
    out: State = {}
    for s in states:
        for v, w in s.items():
            if v not in out or len(w) < len(out[v]):
                out[v] = w
    return out


def _w(w, line, tag):
    w = w + (f'L{line}:{tag}',)
    return w[-MAX_WITNESS:]


class Domain:
    """Default client: no effects, nothing infeasible."""

    implicit_raise = False  # True: every call may raise an unknown exception
    cancel_at_await = False  # True: every await may raise CancelledError (a BaseException: not caught by `except Exception`)

    def event(self, node, v) -> Iterable:
        return (v,)

    def assume(self, atom, truth: bool, v) -> Iterable:
        return (v,)

    def may_raise(self, call):
        """None: no opinion (raises iff implicit_raise); False: does not raise;
        True: unknown exception; str: exception type tag."""
        return None

    def ret(self, node: ast.Return, v) -> str:
        val = node.value
        if val is None or (isinstance(val, ast.Constant) and val.value is None):
            return 'none'
        return 'value'

    def is_subclass(self, tag: str, name: str) -> bool:
        return tag == name

    def enter_handler(self, handler, v) -> Iterable:
        return (v,)

    def loop_nonempty(self, stmt) -> bool:
        """True: the loop body runs at least once (client-justified)."""
        return False


class WithEnter:
    def __init__(self, item, stmt):
        self.item, self.stmt, self.lineno = item, stmt, stmt.lineno


class ForIter:
    """Delivered once per loop iteration (target assignment)."""

    def __init__(self, stmt):
        self.stmt, self.lineno = stmt, stmt.lineno


CATCH_ALL = {'Exception', 'BaseException'}


class Interp:
    def __init__(self, domain: Domain):
        self.d = domain
        self.sinks: list[dict] = []

    # ------------------------------------------------------------ helpers
    def _apply(self, node, st: State) -> State:
        out: State = {}
        for v, w in st.items():
            for nv in self.d.event(node, v):
                if nv not in out:
                    out[nv] = w
        return out

    def _assume(self, atom, truth, st: State) -> State:
        out: State = {}
        line = getattr(atom, 'lineno', 0)
        for v, w in st.items():
            for nv in self.d.assume(atom, truth, v):
                if nv not in out:
                    out[nv] = _w(w, line, 'T' if truth else 'F')
        return out

    def _raise(self, tag, st: State):
        if not st:
            return
        sink = self.sinks[-1]
        sink[tag] = join(sink.get(tag, {}), st)

    # ------------------------------------------------------------ expressions
    def ev(self, e, st: State) -> State:
        """Evaluate expression `e` for its events, in evaluation order."""
        if e is None or not st:
            return st
        if isinstance(e, (ast.Constant, ast.Name)):
            return st
        if isinstance(e, ast.Lambda):
            return st
        if isinstance(e, ast.BoolOp) or (
            isinstance(e, ast.UnaryOp) and isinstance(e.op, ast.Not)
        ):
            t, f = self.branch(e, st)
            return join(t, f)
        if isinstance(e, ast.IfExp):
            t, f = self.branch(e.test, st)
            return join(self.ev(e.body, t), self.ev(e.orelse, f))
        if isinstance(e, (ast.ListComp, ast.SetComp, ast.GeneratorExp, ast.DictComp)):
            return self._comp(e, st)
        if isinstance(e, ast.Call):
            st = self.ev(e.func, st)
            for a in e.args:
                st = self.ev(a.value if isinstance(a, ast.Starred) else a, st)
            for k in e.keywords:
                st = self.ev(k.value, st)
            tag = self.d.may_raise(e)
            if tag is None and self.d.implicit_raise:
                tag = True
            if tag:
                self._raise('?' if tag is True else tag, st)
            return self._apply(e, st)
        if isinstance(e, ast.Await):
            st = self.ev(e.value, st)
            if getattr(self.d, 'cancel_at_await', False):
                # the task may be cancelled while it is suspended here (CancelledError is not an Exception)
                self._raise('CancelledError', st)
            return self._apply(e, st)
        if isinstance(e, ast.NamedExpr):
            st = self.ev(e.value, st)
            return self._apply(e, st)
        if isinstance(e, ast.Attribute):
            return self.ev(e.value, st)
        if isinstance(e, ast.Subscript):
            st = self.ev(e.value, st)
            return self.ev(e.slice, st)
        if isinstance(e, ast.Slice):
            for x in (e.lower, e.upper, e.step):
                st = self.ev(x, st)
            return st
        if isinstance(e, ast.Compare):
            st = self.ev(e.left, st)
            for c in e.comparators:
                st = self.ev(c, st)
            return st
        if isinstance(e, ast.Dict):
            for k, v in zip(e.keys, e.values):
                st = self.ev(k, st)
                st = self.ev(v, st)
            return st
        if isinstance(e, ast.JoinedStr):
            for v in e.values:
                st = self.ev(v, st)
            return st
        if isinstance(e, ast.FormattedValue):
            return self.ev(e.value, st)
        if isinstance(e, (ast.Yield, ast.YieldFrom)):
            st = self.ev(e.value, st)
            return self._apply(e, st)
        for ch in ast.iter_child_nodes(e):
            if isinstance(ch, ast.expr):
                st = self.ev(ch, st)
        return st

    def _comp(self, e, st: State) -> State:
        gens = e.generators
        st = self.ev(gens[0].iter, st)
        parts = []
        for i, g in enumerate(gens):
            if i:
                parts.append(g.iter)
            parts.extend(g.ifs)
        if isinstance(e, ast.DictComp):
            parts += [e.key, e.value]
        else:
            parts.append(e.elt)
        seen: State = dict(st)
        work = st
        for _ in range(MAX_ITER):
            cur = work
            for p in parts:
                cur = self.ev(p, cur)
            new = {v: w for v, w in cur.items() if v not in seen}
            if not new:
                return seen
            seen.update(new)
            work = new
        raise AnalysisError('comprehension did not converge')

    def branch(self, test, st: State):
        """-> (state if test is true, state if false)."""
        if not st:
            return {}, {}
        if isinstance(test, ast.UnaryOp) and isinstance(test.op, ast.Not):
            t, f = self.branch(test.operand, st)
            return f, t
        if isinstance(test, ast.BoolOp):
            if isinstance(test.op, ast.And):
                cur, false = st, {}
                for v in test.values:
                    t, f = self.branch(v, cur)
                    false = join(false, f)
                    cur = t
                return cur, false
            cur, true = st, {}
            for v in test.values:
                t, f = self.branch(v, cur)
                true = join(true, t)
                cur = f
            return true, cur
        if isinstance(test, ast.Constant):
            return (st, {}) if test.value else ({}, st)
        st = self.ev(test, st)
        return self._assume(test, True, st), self._assume(test, False, st)

    # ------------------------------------------------------------ statements
    @staticmethod
    def _empty():
        return {}

    def _merge(self, out: dict, other: dict, skip=()):
        for k, s in other.items():
            if k in skip:
                continue
            out[k] = join(out.get(k, {}), s)

    def block(self, stmts, st: State) -> dict:
        out: dict = {}
        cur = st
        for s in stmts:
            if not cur:
                break
            r = self.stmt(s, cur)
            cur = r.pop('fall', {})
            self._merge(out, r)
        out['fall'] = cur
        return out

    def stmt(self, s, st: State) -> dict:
        if isinstance(s, FUNC + (ast.ClassDef,)):
            return {'fall': self._apply(s, st)}
        if isinstance(s, ast.Return):
            st = self.ev(s.value, st)
            st = self._apply(s, st)
            out: dict = {}
            for v, w in st.items():
                k = 'ret:' + self.d.ret(s, v)
                out.setdefault(k, {})[v] = w
            return out
        if isinstance(s, ast.Raise):
            st = self.ev(s.exc, st)
            st = self._apply(s, st)
            tag = '?'
            if s.exc is not None:
                e = s.exc.func if isinstance(s.exc, ast.Call) else s.exc
                tag = text(e).split('.')[-1]
            else:
                tag = '<reraise>'
            self._raise(tag, st)
            return {}
        if isinstance(s, ast.Break):
            return {'break': st}
        if isinstance(s, ast.Continue):
            return {'continue': st}
        if isinstance(s, ast.If):
            t, f = self.branch(s.test, st)
            out = self.block(s.body, t)
            self._merge(out, self.block(s.orelse, f))
            return out
        if isinstance(s, ast.While):
            return self._loop(s, st)
        if isinstance(s, (ast.For, ast.AsyncFor)):
            st = self.ev(s.iter, st)
            st = self._apply(s, st)  # the loop statement itself (before any iteration)
            return self._loop(s, st)
        if isinstance(s, (ast.With, ast.AsyncWith)):
            for it in s.items:
                st = self.ev(it.context_expr, st)
                st = self._apply(WithEnter(it, s), st)
            return self.block(s.body, st)
        if isinstance(s, ast.Try) or s.__class__.__name__ == 'TryStar':
            return self._try(s, st)
        if isinstance(s, ast.Match):
            st = self.ev(s.subject, st)
            out = {}
            exhaustive = False
            for case in s.cases:
                c = self._apply(case, st)
                if case.guard is not None:
                    c, _ = self.branch(case.guard, c)
                self._merge(out, self.block(case.body, c))
                p = case.pattern
                if (
                    isinstance(p, ast.MatchAs)
                    and p.pattern is None
                    and case.guard is None
                ):
                    exhaustive = True
            if not exhaustive:
                out['fall'] = join(out.get('fall', {}), st)
            return out
        if isinstance(s, ast.Assert):
            t, f = self.branch(s.test, st)
            self._raise('AssertionError', f)
            return {'fall': t}
        # simple statements
        if isinstance(s, ast.Expr):
            st = self.ev(s.value, st)
            return {'fall': self._apply(s, st)}
        if isinstance(s, ast.Assign):
            st = self.ev(s.value, st)
            for t in s.targets:
                st = self._ev_target(t, st)
            return {'fall': self._apply(s, st)}
        if isinstance(s, ast.AugAssign):
            st = self.ev(s.value, st)
            st = self._ev_target(s.target, st)
            return {'fall': self._apply(s, st)}
        if isinstance(s, ast.AnnAssign):
            st = self.ev(s.value, st)
            return {'fall': self._apply(s, st)}
        if isinstance(s, ast.Delete):
            for t in s.targets:
                st = self._ev_target(t, st)
            return {'fall': self._apply(s, st)}
        return {'fall': self._apply(s, st)}

    def _ev_target(self, t, st):
        if isinstance(t, ast.Subscript):
            st = self.ev(t.value, st)
            return self.ev(t.slice, st)
        if isinstance(t, ast.Attribute):
            return self.ev(t.value, st)
        if isinstance(t, (ast.Tuple, ast.List)):
            for x in t.elts:
                st = self._ev_target(x, st)
        return st

    def _loop(self, s, st: State) -> dict:
        out: dict = {}
        seen: State = {}
        exit_normal: State = {}
        exit_break: State = {}
        work = st
        is_while = isinstance(s, ast.While)
        nonempty = (not is_while) and self.d.loop_nonempty(s)
        for it in range(MAX_ITER):
            new = {v: w for v, w in work.items() if v not in seen}
            if not new:
                break
            seen.update(new)
            if is_while:
                t, f = self.branch(s.test, new)
                exit_normal = join(exit_normal, f)
            else:
                if not (nonempty and it == 0):
                    exit_normal = join(exit_normal, new)
                t = self._apply(ForIter(s), new)
            r = self.block(s.body, t)
            back = join(r.pop('fall', {}), r.pop('continue', {}))
            exit_break = join(exit_break, r.pop('break', {}))
            self._merge(out, r)
            work = back
        else:
            raise AnalysisError(f'loop at line {s.lineno} did not converge')
        if s.orelse:
            r = self.block(s.orelse, exit_normal)
            exit_normal = r.pop('fall', {})
            self._merge(out, r)
        out['fall'] = join(out.get('fall', {}), exit_normal, exit_break)
        return out

    def _handler_names(self, h):
        if h.type is None:
            return None
        ts = h.type.elts if isinstance(h.type, ast.Tuple) else [h.type]
        return [text(t).split('.')[-1] for t in ts]

    def _try(self, s, st: State) -> dict:
        sink: dict = {}
        self.sinks.append(sink)
        try:
            body = self.block(s.body, st)
        finally:
            self.sinks.pop()
        out: dict = {}
        fall = body.pop('fall', {})
        self._merge(out, body)
        # exceptions raised in else / handlers are not caught by these handlers
        # but still pass through `finally`
        late: dict = {}
        self.sinks.append(late)
        try:
            if s.orelse:
                r = self.block(s.orelse, fall)
                fall = r.pop('fall', {})
                self._merge(out, r)
            remaining = dict(sink)
            for h in s.handlers:
                names = self._handler_names(h)
                caught: State = {}
                for tag in list(remaining):
                    if names is None or any(n in CATCH_ALL for n in names):
                        if (
                            tag in ('CancelledError', 'KeyboardInterrupt')
                            and names is not None
                            and 'BaseException' not in names
                        ):
                            continue
                        caught = join(caught, remaining.pop(tag))
                    elif tag == '?' or tag == '<reraise>':
                        caught = join(caught, remaining[tag])  # may or may not match
                    elif any(self.d.is_subclass(tag, n) for n in names):
                        caught = join(caught, remaining.pop(tag))
                if not caught:
                    continue
                entry: State = {}
                for v, w in caught.items():
                    for nv in self.d.enter_handler(h, v):
                        entry.setdefault(nv, _w(w, h.lineno, 'except'))
                r = self.block(h.body, entry)
                fall = join(fall, r.pop('fall', {}))
                self._merge(out, r)
        finally:
            self.sinks.pop()
        for tag, ts in late.items():
            remaining[tag] = join(remaining.get(tag, {}), ts)
        if s.finalbody:
            new_out: dict = {}
            fr = self.block(s.finalbody, fall)
            fall = fr.pop('fall', {})
            self._merge(new_out, fr)
            for k, ks in out.items():
                fr = self.block(s.finalbody, ks)
                cont = fr.pop('fall', {})
                self._merge(new_out, fr)
                new_out[k] = join(new_out.get(k, {}), cont)
            out = new_out
            for tag, ts in remaining.items():
                fr = self.block(s.finalbody, ts)
                cont = fr.pop('fall', {})
                self._merge(out, fr)
                self._raise(tag, cont)
        else:
            for tag, ts in remaining.items():
                self._raise(tag, ts)
        out['fall'] = fall
        return out

    # ------------------------------------------------------------ entry
    def run(self, fn, init) -> dict:
        """Run a function body from initial value(s); -> {kind: State}."""
        st = {v: () for v in (init if isinstance(init, list) else [init])}
        sink: dict = {}
        self.sinks.append(sink)
        try:
            out = self.block(fn.body, st)
        finally:
            self.sinks.pop()
        res = {k: v for k, v in out.items() if v}
        for tag, ts in sink.items():
            if ts:
                res['raise:' + tag] = join(res.get('raise:' + tag, {}), ts)
        if 'break' in res or 'continue' in res:
            raise AnalysisError('break/continue escaped function body')
        if not res:
            raise AnalysisError(f'no exit state computed for {getattr(fn, "name", "?")} (vacuous analysis)')
        return res


def run(fn, domain: Domain, init=0) -> dict:
    return Interp(domain).run(fn, init)


def run_block(stmts, domain: Domain, init=0, test=None) -> dict:
    """Run a statement list (e.g. one loop iteration: `test` assumed true first).
    -> {kind: State}; 'break' and 'continue' are reported as kinds."""
    it = Interp(domain)
    st = {v: () for v in (init if isinstance(init, list) else [init])}
    sink: dict = {}
    it.sinks.append(sink)
    try:
        if test is not None:
            st, _ = it.branch(test, st)
        out = it.block(stmts, st)
    finally:
        it.sinks.pop()
    res = {k: v for k, v in out.items() if v}
    for tag, ts in sink.items():
        if ts:
            res['raise:' + tag] = join(res.get('raise:' + tag, {}), ts)
    if not res:
        raise AnalysisError('no exit state computed for block (vacuous analysis)')
    return res


def normal_exits(res: dict) -> State:
    """States at all non-exceptional exits (fall-through and returns)."""
    return join(*[s for k, s in res.items() if k == 'fall' or k.startswith('ret:')])


# --------------------------------------------------------------------------
# lexical dominance: which conditions are known at a node?
# --------------------------------------------------------------------------
def _always_leaves(stmts) -> bool:
    """Block certainly does not fall through (ends in return/raise/continue/break)."""
    if not stmts:
        return False
    last = stmts[-1]
    if isinstance(last, (ast.Return, ast.Raise, ast.Continue, ast.Break)):
        return True
    if isinstance(last, ast.If) and last.orelse:
        return _always_leaves(last.body) and _always_leaves(last.orelse)
    return False


def guards_of(node, stop=None) -> list:
    """[(test_expr, polarity)] of conditions that hold whenever `node` executes:
    enclosing if/while tests and preceding early-exit guards in enclosing
    blocks, up to the enclosing function (or `stop`)."""
    out = []
    cur = node
    while True:
        par = getattr(cur, '_parent', None)
        if par is None or cur is stop:
            break
        # which block of the parent contains cur?
        for fld in ('body', 'orelse', 'finalbody', 'handlers'):
            blk = getattr(par, fld, None)
            if isinstance(blk, list) and cur in blk:
                idx = blk.index(cur)
                if isinstance(par, (ast.If, ast.While)) and fld == 'body':
                    out.append((par.test, True))
                elif isinstance(par, ast.If) and fld == 'orelse':
                    out.append((par.test, False))
                if fld != 'handlers':
                    for prev in blk[:idx]:
                        if isinstance(prev, ast.If) and _always_leaves(prev.body) and not prev.orelse:
                            out.append((prev.test, False))
                        elif (
                            isinstance(prev, ast.If)
                            and prev.orelse
                            and _always_leaves(prev.orelse)
                            and not _always_leaves(prev.body)
                        ):
                            out.append((prev.test, True))
                        elif isinstance(prev, ast.Assert):
                            out.append((prev.test, True))
                break
        if isinstance(par, ast.IfExp):
            if cur is par.body:
                out.append((par.test, True))
            elif cur is par.orelse:
                out.append((par.test, False))
        if isinstance(par, ast.BoolOp):
            i = par.values.index(cur) if cur in par.values else 0
            for prev in par.values[:i]:
                out.append((prev, isinstance(par.op, ast.And)))
        if isinstance(par, FUNC + (ast.Lambda,)):
            break
        cur = par
    return out


def flat_guards(node, stop=None) -> list:
    """guards_of with and/or/not decomposed into atoms where sound:
    (a and b, True) -> a:T, b:T ; (a or b, False) -> a:F, b:F ; not x flips."""
    out = []

    def add(t, pol):
        if isinstance(t, ast.UnaryOp) and isinstance(t.op, ast.Not):
            add(t.operand, not pol)
        elif isinstance(t, ast.BoolOp) and isinstance(t.op, ast.And) and pol:
            for v in t.values:
                add(v, True)
        elif isinstance(t, ast.BoolOp) and isinstance(t.op, ast.Or) and not pol:
            for v in t.values:
                add(v, False)
        else:
            out.append((t, pol))

    for t, pol in guards_of(node, stop):
        add(t, pol)
    return out
